//! Scenario runner against the REAL watchexec library crate (real notify watchers on a temporary directory).
use std::{sync::{atomic::{AtomicUsize, Ordering}, Arc}, time::Duration};
use watchexec::{sources::fs::Watcher, Watchexec};

async fn run(name: &str) -> Result<(), String> {
    let dir = std::env::temp_dir().join(format!("vx-replay-lib-{}-{}", name, std::process::id()));
    let _ = std::fs::remove_dir_all(&dir);
    std::fs::create_dir_all(&dir).unwrap();
    let dir = dir.canonicalize().unwrap();
    match name {
        // C13: after the watcher kind is changed at run time, the configured paths are registered with the NEW watcher
        "watcher_kind_change_keeps_paths" => {
            let seen = Arc::new(AtomicUsize::new(0));
            let s2 = seen.clone();
            let wx = Watchexec::new(move |action| { if action.paths().next().is_some() { s2.fetch_add(1, Ordering::SeqCst); } action }).map_err(|e| e.to_string())?;
            wx.config.throttle(Duration::from_millis(20));
            wx.config.pathset([dir.clone()]);
            let main = wx.main();
            tokio::time::sleep(Duration::from_millis(500)).await;
            std::fs::write(dir.join("a.txt"), "1").unwrap();
            tokio::time::sleep(Duration::from_millis(700)).await;
            let before = seen.load(Ordering::SeqCst);
            wx.config.file_watcher(Watcher::Poll(Duration::from_millis(100)));
            tokio::time::sleep(Duration::from_millis(800)).await;
            let mid = seen.load(Ordering::SeqCst);
            std::fs::write(dir.join("b.txt"), "2").unwrap();
            tokio::time::sleep(Duration::from_millis(1500)).await;
            let after = seen.load(Ordering::SeqCst);
            main.abort();
            let _ = std::fs::remove_dir_all(&dir);
            if before >= 1 && after > mid { Ok(()) }
            else { Err(format!("batches with paths: {before} before the kind change (want >= 1), {mid} -> {after} around a new file written after switching to the poll watcher (want an increase: the path set must be registered with the new watcher)")) }
        }
        _ => Err(format!("unknown scenario {name}")),
    }
}
#[tokio::main]
async fn main() {
    let name = std::env::args().nth(1).unwrap_or_default();
    match run(&name).await {
        Ok(()) => println!("RESULT {name} ok"),
        Err(e) => { println!("RESULT {name} VIOLATED {e}"); std::process::exit(1); }
    }
}
