//! Scenario runner against the REAL watchexec library crate (real notify watchers on a temporary directory).
use std::{sync::{atomic::{AtomicUsize, Ordering}, Arc}, time::Duration};
use watchexec::{sources::fs::Watcher, Watchexec, WatchedPath};

async fn run(name: &str) -> Result<(), String> {
    let dir = std::env::temp_dir().join(format!("vx-replay-lib-{}-{}", name, std::process::id()));
    let _ = std::fs::remove_dir_all(&dir);
    std::fs::create_dir_all(&dir).unwrap();
    let dir = dir.canonicalize().unwrap();
    match name {
        // C13: after the watcher kind is changed at run time, the configured paths are registered with the NEW watcher
        "watcher_kind_change_keeps_paths" => {
            let seen = Arc::new(AtomicUsize::new(0));
            let s2 = seen.clone();
            let wx = Watchexec::new(move |action| { if action.paths().next().is_some() { s2.fetch_add(1, Ordering::SeqCst); } action }).map_err(|e| e.to_string())?;
            wx.config.throttle(Duration::from_millis(20));
            wx.config.pathset([dir.clone()]);
            let main = wx.main();
            tokio::time::sleep(Duration::from_millis(500)).await;
            std::fs::write(dir.join("a.txt"), "1").unwrap();
            tokio::time::sleep(Duration::from_millis(700)).await;
            let before = seen.load(Ordering::SeqCst);
            wx.config.file_watcher(Watcher::Poll(Duration::from_millis(100)));
            tokio::time::sleep(Duration::from_millis(800)).await;
            let mid = seen.load(Ordering::SeqCst);
            std::fs::write(dir.join("b.txt"), "2").unwrap();
            tokio::time::sleep(Duration::from_millis(1500)).await;
            let after = seen.load(Ordering::SeqCst);
            main.abort();
            let _ = std::fs::remove_dir_all(&dir);
            if before >= 1 && after > mid { Ok(()) }
            else { Err(format!("batches with paths: {before} before the kind change (want >= 1), {mid} -> {after} around a new file written after switching to the poll watcher (want an increase: the path set must be registered with the new watcher)")) }
        }
        // C13: a path whose recursion mode is changed while its unwatch fails (the watched directory was deleted and re-created, so
        // notify has already forgotten it) must still be registered after a LATER, fault-free configuration change
        "mode_change_after_failed_unwatch" => {
            let p = dir.join("p"); let q = dir.join("q");
            std::fs::create_dir_all(&p).unwrap(); std::fs::create_dir_all(&q).unwrap();
            let seen = Arc::new(AtomicUsize::new(0));
            let errs = Arc::new(AtomicUsize::new(0));
            let s2 = seen.clone(); let e2 = errs.clone();
            let wx = Watchexec::new(move |action| { if action.paths().next().is_some() { s2.fetch_add(1, Ordering::SeqCst); } action }).map_err(|e| e.to_string())?;
            wx.config.on_error(move |e: watchexec::ErrorHook| { if matches!(e.error, watchexec::error::RuntimeError::FsWatcher { .. }) { e2.fetch_add(1, Ordering::SeqCst); } });
            wx.config.throttle(Duration::from_millis(20));
            wx.config.pathset([WatchedPath::recursive(p.clone())]);
            let main = wx.main();
            tokio::time::sleep(Duration::from_millis(500)).await;
            std::fs::write(p.join("a.txt"), "1").unwrap();
            tokio::time::sleep(Duration::from_millis(500)).await;
            let s_a = seen.load(Ordering::SeqCst);
            std::fs::remove_dir_all(&p).unwrap();
            tokio::time::sleep(Duration::from_millis(500)).await;
            std::fs::create_dir_all(&p).unwrap();
            tokio::time::sleep(Duration::from_millis(300)).await;
            // change the recursion mode of p: unwatch(p) fails (watch not found), watch(p, non-recursive) succeeds
            wx.config.pathset([WatchedPath::non_recursive(p.clone())]);
            tokio::time::sleep(Duration::from_millis(500)).await;
            let e_b = errs.load(Ordering::SeqCst);
            let s_b0 = seen.load(Ordering::SeqCst);
            std::fs::write(p.join("b.txt"), "2").unwrap();
            tokio::time::sleep(Duration::from_millis(500)).await;
            let s_b = seen.load(Ordering::SeqCst);
            // a later change that touches only q, with no failure
            wx.config.pathset([WatchedPath::non_recursive(p.clone()), WatchedPath::recursive(q.clone())]);
            tokio::time::sleep(Duration::from_millis(500)).await;
            let e_c = errs.load(Ordering::SeqCst);
            let s_c0 = seen.load(Ordering::SeqCst);
            std::fs::write(p.join("c.txt"), "3").unwrap();
            tokio::time::sleep(Duration::from_millis(700)).await;
            let s_c = seen.load(Ordering::SeqCst);
            main.abort();
            let _ = std::fs::remove_dir_all(&dir);
            if s_a < 1 { return Err(format!("setup: no event from p before anything happened")); }
            if e_b < 1 || s_b <= s_b0 { return Err(format!("setup not reached: fs watcher errors after the mode change = {e_b} (want >= 1: the unwatch must fail), batches {s_b0} -> {s_b} after writing p/b.txt (want an increase)")); }
            if s_c > s_c0 { Ok(()) }
            else { Err(format!("p is configured (non-recursive) but no longer registered: after a fault-free change adding q (fs watcher errors {e_b} -> {e_c}), writing p/c.txt produced no event (batches {s_c0} -> {s_c})")) }
        }
        // C13: a configuration change made while the fs worker is still applying the previous configuration must not be lost
        "change_during_apply_is_not_lost" => {
            let big = dir.join("big"); let q = dir.join("q");
            std::fs::create_dir_all(&q).unwrap();
            for i in 0..150 { for j in 0..100 { std::fs::create_dir_all(big.join(format!("d{i}/e{j}"))).unwrap(); } }
            let seen = Arc::new(AtomicUsize::new(0));
            let s2 = seen.clone();
            let wx = Watchexec::new(move |action| { if action.paths().next().is_some() { s2.fetch_add(1, Ordering::SeqCst); } action }).map_err(|e| e.to_string())?;
            wx.config.throttle(Duration::from_millis(20));
            wx.config.pathset([WatchedPath::recursive(big.clone())]);
            let main = wx.main();
            // the worker is now registering 15000 directories; change the configuration meanwhile
            tokio::time::sleep(Duration::from_millis(15)).await;
            let t0 = std::time::Instant::now();
            wx.config.pathset([WatchedPath::recursive(big.clone()), WatchedPath::recursive(q.clone())]);
            // wait until the big tree is registered (an event from deep inside it arrives)
            let mut waited = 0;
            loop {
                std::fs::write(big.join("d149/e99/probe.txt"), format!("{waited}")).unwrap();
                tokio::time::sleep(Duration::from_millis(200)).await;
                waited += 1;
                if seen.load(Ordering::SeqCst) > 0 || waited > 50 { break; }
            }
            let busy_for = t0.elapsed();
            if seen.load(Ordering::SeqCst) == 0 { main.abort(); let _ = std::fs::remove_dir_all(&dir); return Err("setup: the big tree never got registered".into()); }
            tokio::time::sleep(Duration::from_millis(1000)).await;
            let s0 = seen.load(Ordering::SeqCst);
            std::fs::write(q.join("x.txt"), "1").unwrap();
            tokio::time::sleep(Duration::from_millis(1000)).await;
            let s1 = seen.load(Ordering::SeqCst);
            main.abort();
            let _ = std::fs::remove_dir_all(&dir);
            if s1 > s0 { Ok(()) }
            else { Err(format!("the path set was changed to [big, q] 15 ms after start-up, while the worker was registering `big` (registered within {busy_for:?}); no further change followed, yet q is not registered: writing q/x.txt produced no event (batches {s0} -> {s1})")) }
        }
        // C08 (BOUNDED: 3 jobs, one grace value): a graceful quit with jobs that ignore the stop signal ends within the grace period plus a margin,
        // whatever the number of jobs, and leaves no process behind
        "graceful_quit_three_stubborn_jobs_within_grace" => {
            use watchexec::command::{Command, Program, Shell};
            use watchexec_signals::Signal;
            let n = 3usize;
            let pidfiles: Vec<_> = (0..n).map(|i| dir.join(format!("job{i}.pid"))).collect();
            let pf = pidfiles.clone();
            let started = Arc::new(AtomicUsize::new(0));
            let st = started.clone();
            let wx = Watchexec::new(move |mut action| {
                if st.fetch_add(1, Ordering::SeqCst) == 0 {
                    for p in &pf {
                        let cmd = Arc::new(Command { program: Program::Shell { shell: Shell::new("sh"), command: format!("trap '' TERM; echo $$ > {}; exec sleep 600", p.display()), args: Vec::new() }, options: Default::default() });
                        let (_, job) = action.create_job(cmd);
                        job.start();
                    }
                } else {
                    action.quit_gracefully(Signal::Terminate, Duration::from_millis(1500));
                }
                action
            }).map_err(|e| e.to_string())?;
            let main = wx.main();
            wx.send_event(watchexec_events::Event::default(), watchexec_events::Priority::Urgent).await.map_err(|e| e.to_string())?;
            let mut pids = Vec::new();
            for p in &pidfiles {
                let mut pid = None;
                for _ in 0..200 { tokio::time::sleep(Duration::from_millis(20)).await; if let Ok(t) = std::fs::read_to_string(p) { if let Ok(x) = t.trim().parse::<i32>() { pid = Some(x); break; } } }
                pids.push(pid.ok_or("setup: a job never started")?);
            }
            let t0 = std::time::Instant::now();
            wx.send_event(watchexec_events::Event::default(), watchexec_events::Priority::Urgent).await.map_err(|e| e.to_string())?;
            let done = tokio::time::timeout(Duration::from_secs(20), main).await;
            let took = t0.elapsed();
            tokio::time::sleep(Duration::from_millis(300)).await;
            let alive: Vec<i32> = pids.iter().copied().filter(|p| std::path::Path::new(&format!("/proc/{p}")).exists()
                && !std::fs::read_to_string(format!("/proc/{p}/stat")).map(|s| s.contains(") Z ")).unwrap_or(false)).collect();
            for p in &alive { unsafe { extern "C" { fn kill(pid: i32, sig: i32) -> i32; } kill(*p, 9); } }
            let _ = std::fs::remove_dir_all(&dir);
            if done.is_err() { return Err(format!("main task still running 20 s after quit_gracefully(Terminate, 1.5s) with {n} jobs that ignore SIGTERM")); }
            if took > Duration::from_millis(1500 + 1200) { return Err(format!("main task finished {took:?} after quit_gracefully(Terminate, 1.5s) with {n} jobs that ignore SIGTERM: more than the grace period plus a 1.2 s margin")); }
            if took < Duration::from_millis(1400) { return Err(format!("main task finished after {took:?}: the 1.5 s grace period was not granted")); }
            if !alive.is_empty() { return Err(format!("processes {alive:?} survived the graceful quit")); }
            Ok(())
        }
        // C08 (one history): a graceful quit requested by a handler that has just deleted the job still ends the main task
        "graceful_quit_after_the_handler_deleted_the_job" => {
            use watchexec::command::{Command, Program, Shell};
            use watchexec_signals::Signal;
            let n = Arc::new(AtomicUsize::new(0));
            let n2 = n.clone();
            let id = watchexec::Id::default();
            let wx = Watchexec::new(move |mut action| {
                let cmd = Arc::new(Command { program: Program::Shell { shell: Shell::new("sh"), command: "exec sleep 600".into(), args: Vec::new() }, options: Default::default() });
                let job = action.get_or_create_job(id, move || cmd.clone());
                if n2.fetch_add(1, Ordering::SeqCst) == 0 {
                    job.start();
                } else {
                    job.delete();
                    action.quit_gracefully(Signal::Terminate, Duration::from_millis(1000));
                }
                action
            }).map_err(|e| e.to_string())?;
            let main = wx.main();
            wx.send_event(watchexec_events::Event::default(), watchexec_events::Priority::Urgent).await.map_err(|e| e.to_string())?;
            tokio::time::sleep(Duration::from_millis(500)).await;
            wx.send_event(watchexec_events::Event::default(), watchexec_events::Priority::Urgent).await.map_err(|e| e.to_string())?;
            let done = tokio::time::timeout(Duration::from_secs(10), main).await;
            let _ = std::fs::remove_dir_all(&dir);
            if done.is_err() { Err("main task still running 10 s after a handler deleted its job and asked for a graceful quit (grace 1 s)".into()) } else { Ok(()) }
        }
        _ => Err(format!("unknown scenario {name}")),
    }
}
#[tokio::main]
async fn main() {
    let name = std::env::args().nth(1).unwrap_or_default();
    match run(&name).await {
        Ok(()) => println!("RESULT {name} ok"),
        Err(e) => { println!("RESULT {name} VIOLATED {e}"); std::process::exit(1); }
    }
}
