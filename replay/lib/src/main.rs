//! Scenario runner against the REAL watchexec library crate (real notify watchers on a temporary directory).
use std::{sync::{atomic::{AtomicUsize, Ordering}, Arc}, time::Duration};
use watchexec::{sources::fs::Watcher, Watchexec, WatchedPath};

async fn run(name: &str) -> Result<(), String> {
    let dir = std::env::temp_dir().join(format!("vx-replay-lib-{}-{}", name, std::process::id()));
    let _ = std::fs::remove_dir_all(&dir);
    std::fs::create_dir_all(&dir).unwrap();
    let dir = dir.canonicalize().unwrap();
    match name {
        // C13: after the watcher kind is changed at run time, the configured paths are registered with the NEW watcher
        "watcher_kind_change_keeps_paths" => {
            let seen = Arc::new(AtomicUsize::new(0));
            let s2 = seen.clone();
            let wx = Watchexec::new(move |action| { if action.paths().next().is_some() { s2.fetch_add(1, Ordering::SeqCst); } action }).map_err(|e| e.to_string())?;
            wx.config.throttle(Duration::from_millis(20));
            wx.config.pathset([dir.clone()]);
            let main = wx.main();
            tokio::time::sleep(Duration::from_millis(500)).await;
            std::fs::write(dir.join("a.txt"), "1").unwrap();
            tokio::time::sleep(Duration::from_millis(700)).await;
            let before = seen.load(Ordering::SeqCst);
            wx.config.file_watcher(Watcher::Poll(Duration::from_millis(100)));
            tokio::time::sleep(Duration::from_millis(800)).await;
            let mid = seen.load(Ordering::SeqCst);
            std::fs::write(dir.join("b.txt"), "2").unwrap();
            tokio::time::sleep(Duration::from_millis(1500)).await;
            let after = seen.load(Ordering::SeqCst);
            main.abort();
            let _ = std::fs::remove_dir_all(&dir);
            if before >= 1 && after > mid { Ok(()) }
            else { Err(format!("batches with paths: {before} before the kind change (want >= 1), {mid} -> {after} around a new file written after switching to the poll watcher (want an increase: the path set must be registered with the new watcher)")) }
        }
        // C13: a path whose recursion mode is changed while its unwatch fails (the watched directory was deleted and re-created, so
        // notify has already forgotten it) must still be registered after a LATER, fault-free configuration change
        "mode_change_after_failed_unwatch" => {
            let p = dir.join("p"); let q = dir.join("q");
            std::fs::create_dir_all(&p).unwrap(); std::fs::create_dir_all(&q).unwrap();
            let seen = Arc::new(AtomicUsize::new(0));
            let errs = Arc::new(AtomicUsize::new(0));
            let s2 = seen.clone(); let e2 = errs.clone();
            let wx = Watchexec::new(move |action| { if action.paths().next().is_some() { s2.fetch_add(1, Ordering::SeqCst); } action }).map_err(|e| e.to_string())?;
            wx.config.on_error(move |e: watchexec::ErrorHook| { if matches!(e.error, watchexec::error::RuntimeError::FsWatcher { .. }) { e2.fetch_add(1, Ordering::SeqCst); } });
            wx.config.throttle(Duration::from_millis(20));
            wx.config.pathset([WatchedPath::recursive(p.clone())]);
            let main = wx.main();
            tokio::time::sleep(Duration::from_millis(500)).await;
            std::fs::write(p.join("a.txt"), "1").unwrap();
            tokio::time::sleep(Duration::from_millis(500)).await;
            let s_a = seen.load(Ordering::SeqCst);
            std::fs::remove_dir_all(&p).unwrap();
            tokio::time::sleep(Duration::from_millis(500)).await;
            std::fs::create_dir_all(&p).unwrap();
            tokio::time::sleep(Duration::from_millis(300)).await;
            // change the recursion mode of p: unwatch(p) fails (watch not found), watch(p, non-recursive) succeeds
            wx.config.pathset([WatchedPath::non_recursive(p.clone())]);
            tokio::time::sleep(Duration::from_millis(500)).await;
            let e_b = errs.load(Ordering::SeqCst);
            let s_b0 = seen.load(Ordering::SeqCst);
            std::fs::write(p.join("b.txt"), "2").unwrap();
            tokio::time::sleep(Duration::from_millis(500)).await;
            let s_b = seen.load(Ordering::SeqCst);
            // a later change that touches only q, with no failure
            wx.config.pathset([WatchedPath::non_recursive(p.clone()), WatchedPath::recursive(q.clone())]);
            tokio::time::sleep(Duration::from_millis(500)).await;
            let e_c = errs.load(Ordering::SeqCst);
            let s_c0 = seen.load(Ordering::SeqCst);
            std::fs::write(p.join("c.txt"), "3").unwrap();
            tokio::time::sleep(Duration::from_millis(700)).await;
            let s_c = seen.load(Ordering::SeqCst);
            main.abort();
            let _ = std::fs::remove_dir_all(&dir);
            if s_a < 1 { return Err(format!("setup: no event from p before anything happened")); }
            if e_b < 1 || s_b <= s_b0 { return Err(format!("setup not reached: fs watcher errors after the mode change = {e_b} (want >= 1: the unwatch must fail), batches {s_b0} -> {s_b} after writing p/b.txt (want an increase)")); }
            if s_c > s_c0 { Ok(()) }
            else { Err(format!("p is configured (non-recursive) but no longer registered: after a fault-free change adding q (fs watcher errors {e_b} -> {e_c}), writing p/c.txt produced no event (batches {s_c0} -> {s_c})")) }
        }
        // C13: a configuration change made while the fs worker is still applying the previous configuration must not be lost
        "change_during_apply_is_not_lost" => {
            let big = dir.join("big"); let q = dir.join("q");
            std::fs::create_dir_all(&q).unwrap();
            for i in 0..150 { for j in 0..100 { std::fs::create_dir_all(big.join(format!("d{i}/e{j}"))).unwrap(); } }
            let seen = Arc::new(AtomicUsize::new(0));
            let s2 = seen.clone();
            let wx = Watchexec::new(move |action| { if action.paths().next().is_some() { s2.fetch_add(1, Ordering::SeqCst); } action }).map_err(|e| e.to_string())?;
            wx.config.throttle(Duration::from_millis(20));
            wx.config.pathset([WatchedPath::recursive(big.clone())]);
            let main = wx.main();
            // the worker is now registering 15000 directories; change the configuration meanwhile
            tokio::time::sleep(Duration::from_millis(15)).await;
            let t0 = std::time::Instant::now();
            wx.config.pathset([WatchedPath::recursive(big.clone()), WatchedPath::recursive(q.clone())]);
            // wait until the big tree is registered (an event from deep inside it arrives)
            let mut waited = 0;
            loop {
                std::fs::write(big.join("d149/e99/probe.txt"), format!("{waited}")).unwrap();
                tokio::time::sleep(Duration::from_millis(200)).await;
                waited += 1;
                if seen.load(Ordering::SeqCst) > 0 || waited > 50 { break; }
            }
            let busy_for = t0.elapsed();
            if seen.load(Ordering::SeqCst) == 0 { main.abort(); let _ = std::fs::remove_dir_all(&dir); return Err("setup: the big tree never got registered".into()); }
            tokio::time::sleep(Duration::from_millis(1000)).await;
            let s0 = seen.load(Ordering::SeqCst);
            std::fs::write(q.join("x.txt"), "1").unwrap();
            tokio::time::sleep(Duration::from_millis(1000)).await;
            let s1 = seen.load(Ordering::SeqCst);
            main.abort();
            let _ = std::fs::remove_dir_all(&dir);
            if s1 > s0 { Ok(()) }
            else { Err(format!("the path set was changed to [big, q] 15 ms after start-up, while the worker was registering `big` (registered within {busy_for:?}); no further change followed, yet q is not registered: writing q/x.txt produced no event (batches {s0} -> {s1})")) }
        }
        // C08 (BOUNDED: 3 jobs, one grace value): a graceful quit with jobs that ignore the stop signal ends within the grace period plus a margin,
        // whatever the number of jobs, and leaves no process behind
        "graceful_quit_three_stubborn_jobs_within_grace" => {
            use watchexec::command::{Command, Program, Shell};
            use watchexec_signals::Signal;
            let n = 3usize;
            let pidfiles: Vec<_> = (0..n).map(|i| dir.join(format!("job{i}.pid"))).collect();
            let pf = pidfiles.clone();
            let started = Arc::new(AtomicUsize::new(0));
            let st = started.clone();
            let wx = Watchexec::new(move |mut action| {
                if st.fetch_add(1, Ordering::SeqCst) == 0 {
                    for p in &pf {
                        let cmd = Arc::new(Command { program: Program::Shell { shell: Shell::new("sh"), command: format!("trap '' TERM; echo $$ > {}; exec sleep 600", p.display()), args: Vec::new() }, options: Default::default() });
                        let (_, job) = action.create_job(cmd);
                        job.start();
                    }
                } else {
                    action.quit_gracefully(Signal::Terminate, Duration::from_millis(1500));
                }
                action
            }).map_err(|e| e.to_string())?;
            let main = wx.main();
            wx.send_event(watchexec_events::Event::default(), watchexec_events::Priority::Urgent).await.map_err(|e| e.to_string())?;
            let mut pids = Vec::new();
            for p in &pidfiles {
                let mut pid = None;
                for _ in 0..200 { tokio::time::sleep(Duration::from_millis(20)).await; if let Ok(t) = std::fs::read_to_string(p) { if let Ok(x) = t.trim().parse::<i32>() { pid = Some(x); break; } } }
                pids.push(pid.ok_or("setup: a job never started")?);
            }
            let t0 = std::time::Instant::now();
            wx.send_event(watchexec_events::Event::default(), watchexec_events::Priority::Urgent).await.map_err(|e| e.to_string())?;
            let done = tokio::time::timeout(Duration::from_secs(20), main).await;
            let took = t0.elapsed();
            tokio::time::sleep(Duration::from_millis(300)).await;
            let alive: Vec<i32> = pids.iter().copied().filter(|p| std::path::Path::new(&format!("/proc/{p}")).exists()
                && !std::fs::read_to_string(format!("/proc/{p}/stat")).map(|s| s.contains(") Z ")).unwrap_or(false)).collect();
            for p in &alive { unsafe { extern "C" { fn kill(pid: i32, sig: i32) -> i32; } kill(*p, 9); } }
            let _ = std::fs::remove_dir_all(&dir);
            if done.is_err() { return Err(format!("main task still running 20 s after quit_gracefully(Terminate, 1.5s) with {n} jobs that ignore SIGTERM")); }
            if took > Duration::from_millis(1500 + 1200) { return Err(format!("main task finished {took:?} after quit_gracefully(Terminate, 1.5s) with {n} jobs that ignore SIGTERM: more than the grace period plus a 1.2 s margin")); }
            if took < Duration::from_millis(1400) { return Err(format!("main task finished after {took:?}: the 1.5 s grace period was not granted")); }
            if !alive.is_empty() { return Err(format!("processes {alive:?} survived the graceful quit")); }
            Ok(())
        }
        // C08 (one history): a graceful quit requested by a handler that has just deleted the job still ends the main task
        "graceful_quit_after_the_handler_deleted_the_job" => {
            use watchexec::command::{Command, Program, Shell};
            use watchexec_signals::Signal;
            let n = Arc::new(AtomicUsize::new(0));
            let n2 = n.clone();
            let id = watchexec::Id::default();
            let wx = Watchexec::new(move |mut action| {
                let cmd = Arc::new(Command { program: Program::Shell { shell: Shell::new("sh"), command: "exec sleep 600".into(), args: Vec::new() }, options: Default::default() });
                let job = action.get_or_create_job(id, move || cmd.clone());
                if n2.fetch_add(1, Ordering::SeqCst) == 0 {
                    job.start();
                } else {
                    job.delete();
                    action.quit_gracefully(Signal::Terminate, Duration::from_millis(1000));
                }
                action
            }).map_err(|e| e.to_string())?;
            let main = wx.main();
            wx.send_event(watchexec_events::Event::default(), watchexec_events::Priority::Urgent).await.map_err(|e| e.to_string())?;
            tokio::time::sleep(Duration::from_millis(500)).await;
            wx.send_event(watchexec_events::Event::default(), watchexec_events::Priority::Urgent).await.map_err(|e| e.to_string())?;
            let done = tokio::time::timeout(Duration::from_secs(10), main).await;
            let _ = std::fs::remove_dir_all(&dir);
            if done.is_err() { Err("main task still running 10 s after a handler deleted its job and asked for a graceful quit (grace 1 s)".into()) } else { Ok(()) }
        }
        // C08 (D20): a handler that asks for the job of one id twice within ONE action gets the same job both times; nothing it started survives the quit
        "same_id_twice_in_one_action_is_one_job" => {
            use watchexec::command::{Command, Program, Shell};
            use watchexec_signals::Signal;
            let n = Arc::new(AtomicUsize::new(0));
            let n2 = n.clone();
            let id = watchexec::Id::default();
            let pidfile = dir.join("pids");
            let pf = pidfile.clone();
            let kept: Arc<std::sync::Mutex<Vec<watchexec::job::Job>>> = Default::default();
            let kept2 = kept.clone();
            let wx = Watchexec::new(move |mut action| {
                if n2.fetch_add(1, Ordering::SeqCst) == 0 {
                    let script = format!("echo $$ >> {}; exec sleep 600", pf.display());
                    let cmd = Arc::new(Command { program: Program::Shell { shell: Shell::new("sh"), command: script.into(), args: Vec::new() }, options: Default::default() });
                    let c1 = cmd.clone();
                    let job = action.get_or_create_job(id, move || c1.clone());
                    job.start();
                    kept2.lock().unwrap().push(job);
                    let job2 = action.get_or_create_job(id, move || cmd.clone());
                    job2.start();
                } else {
                    action.quit_gracefully(Signal::Terminate, Duration::from_millis(1000));
                }
                action
            }).map_err(|e| e.to_string())?;
            let main = wx.main();
            wx.send_event(watchexec_events::Event::default(), watchexec_events::Priority::Urgent).await.map_err(|e| e.to_string())?;
            tokio::time::sleep(Duration::from_millis(700)).await;
            wx.send_event(watchexec_events::Event::default(), watchexec_events::Priority::Urgent).await.map_err(|e| e.to_string())?;
            let done = tokio::time::timeout(Duration::from_secs(10), main).await;
            tokio::time::sleep(Duration::from_millis(300)).await;
            let pids: Vec<String> = std::fs::read_to_string(&pidfile).unwrap_or_default().lines().map(|l| l.trim().to_string()).filter(|l| !l.is_empty()).collect();
            let alive: Vec<String> = pids.iter().filter(|p| std::fs::read_to_string(format!("/proc/{p}/stat")).map(|st| !st.contains(") Z ") && !st.contains(") X ")).unwrap_or(false)).cloned().collect();
            for p in &alive { let _ = std::process::Command::new("kill").arg("-9").arg(p).status(); }
            drop(kept);
            let _ = std::fs::remove_dir_all(&dir);
            if done.is_err() { return Err("main task still running 10 s after the graceful quit".into()); }
            if !alive.is_empty() { return Err(format!("get_or_create_job(id) twice in one action, both started, then a graceful quit: {} process(es) started ({pids:?}), still alive after the shutdown: {alive:?}", pids.len())); }
            Ok(())
        }
        // C01 / C02 / C15 (BOUNDED: 3 seeded streams of 80 events, every priority, pass / reject / error verdicts, empty events, gaps from 0 to 2 x throttle):
        // each accepted (or urgent, or empty) event reaches the action handler in exactly one batch, no rejected one does, no batch is empty, a batch
        // without an urgent event is not delivered before the throttle has passed since its earliest event was sent, and each filter error reaches
        // the error handler exactly once
        "event_stream_c01" | "event_stream_c02" | "event_stream_c15" => {
            let (c01, c02, c15) = (name.ends_with("c01"), name.ends_with("c02"), name.ends_with("c15"));
            use std::sync::Mutex;
            use std::time::Instant;
            use watchexec_events::{Event, Priority, Tag};
            use watchexec::{error::RuntimeError, filter::Filterer};
            #[derive(Debug)] struct F;
            #[derive(Debug)] struct FErr(u32);
            impl std::fmt::Display for FErr { fn fmt(&self, f: &mut std::fmt::Formatter<'_>) -> std::fmt::Result { write!(f, "verdict error {}", self.0) } }
            impl std::error::Error for FErr {}
            fn id_of(e: &Event) -> Option<u32> {
                e.tags.iter().find_map(|t| if let Tag::Process(p) = t { Some(*p) } else { None }).or_else(|| e.metadata.get("id").and_then(|v| v.first()).and_then(|s| s.parse().ok()))
            }
            impl Filterer for F {
                fn check_event(&self, e: &Event, _p: Priority) -> Result<bool, RuntimeError> {
                    let id = id_of(e).unwrap_or(0);
                    match id % 5 { 1 => Ok(false), 3 => Err(RuntimeError::Filterer { kind: "vx", err: Box::new(FErr(id)) }), _ => Ok(true) }
                }
            }
            let throttle = Duration::from_millis(120);
            for seed in [1u64, 2, 3] {
                let batches: Arc<Mutex<Vec<(Instant, Vec<Option<u32>>, bool)>>> = Arc::new(Mutex::new(vec![]));
                let errs: Arc<Mutex<Vec<String>>> = Arc::new(Mutex::new(vec![]));
                let b2 = batches.clone();
                let wx = Watchexec::new(move |action| {
                    let now = Instant::now();
                    let ids: Vec<Option<u32>> = action.events.iter().map(id_of).collect();
                    let quit = ids.contains(&Some(999_999));
                    b2.lock().unwrap().push((now, ids, quit));
                    let mut action = action; if quit { action.quit(); } action
                }).map_err(|e| e.to_string())?;
                wx.config.throttle(throttle);
                wx.config.filterer(F);
                let e2 = errs.clone();
                wx.config.on_error(move |hook: watchexec::ErrorHook| { e2.lock().unwrap().push(hook.error.to_string()); });
                let main = wx.main();
                tokio::time::sleep(Duration::from_millis(50)).await;
                let mut rng = seed.wrapping_mul(0x9E37_79B9_7F4A_7C15) | 1;
                let mut next = || { rng ^= rng << 13; rng ^= rng >> 7; rng ^= rng << 17; rng };
                // id -> (send time, priority, empty)
                let mut sent: Vec<(u32, Instant, Priority, bool)> = vec![];
                for i in 1..=80u32 {
                    let prio = match next() % 8 { 0 => Priority::Urgent, 1 | 2 => Priority::High, 3 => Priority::Low, _ => Priority::Normal };
                    let empty = next() % 6 == 0;
                    let ev = if empty { let mut m = std::collections::HashMap::new(); m.insert("id".to_string(), vec![i.to_string()]); Event { tags: vec![], metadata: m } }
                             else { Event { tags: vec![Tag::Process(i)], metadata: Default::default() } };
                    let t = Instant::now();
                    wx.send_event(ev, prio).await.map_err(|e| e.to_string())?;
                    sent.push((i, t, prio, empty));
                    let gap = match next() % 6 { 0 | 1 => 0, 2 => 3, 3 => 30, 4 => 100, _ => 250 };
                    if gap > 0 { tokio::time::sleep(Duration::from_millis(gap)).await; }
                }
                let accepted = |&(i, _, p, empty): &(u32, Instant, Priority, bool)| p == Priority::Urgent || empty || !(i % 5 == 1 || i % 5 == 3);
                let errored = |&(i, _, p, empty): &(u32, Instant, Priority, bool)| p != Priority::Urgent && !empty && i % 5 == 3;
                let want: Vec<u32> = sent.iter().filter(|s| accepted(s)).map(|s| s.0).collect();
                let want_errs = sent.iter().filter(|s| errored(s)).count();
                // wait (generously) until everything owed has arrived, then a little longer to see anything that should not
                for _ in 0..200 {
                    let n: usize = batches.lock().unwrap().iter().map(|b| b.1.len()).sum();
                    if n >= want.len() && errs.lock().unwrap().len() >= want_errs { break; }
                    tokio::time::sleep(Duration::from_millis(50)).await;
                }
                tokio::time::sleep(throttle * 3).await;
                wx.send_event(Event { tags: vec![Tag::Process(999_999)], metadata: Default::default() }, Priority::Urgent).await.map_err(|e| e.to_string())?;
                let _ = tokio::time::timeout(Duration::from_secs(10), main).await.map_err(|_| "the main task did not end 10 s after the handler asked to quit".to_string())?;
                let batches = batches.lock().unwrap().clone();
                let errs = errs.lock().unwrap().clone();
                let mut seen: std::collections::HashMap<u32, usize> = Default::default();
                for (k, (at, ids, _)) in batches.iter().enumerate() {
                    if c01 && ids.is_empty() { return Err(format!("seed {seed}: the action handler was invoked with an empty batch (invocation {k})")); }
                    for id in ids { let Some(id) = id else { if c01 { return Err(format!("seed {seed}: a batch holds an event that was never sent")); } else { continue; } }; if *id != 999_999 { *seen.entry(*id).or_default() += 1; } }
                    let members: Vec<&(u32, Instant, Priority, bool)> = ids.iter().filter_map(|i| sent.iter().find(|s| Some(s.0) == *i)).collect();
                    if c02 && !members.is_empty() && members.len() == ids.len() && members.iter().all(|m| m.2 != Priority::Urgent) {
                        let first = members.iter().map(|m| m.1).min().unwrap();
                        if at.duration_since(first) < throttle { return Err(format!("seed {seed}: the batch {ids:?} (no urgent event) was handed over {:?} after its earliest event was SENT: before the throttle of {throttle:?} had passed", at.duration_since(first))); }
                    }
                }
                for s in &sent {
                    let n = seen.get(&s.0).copied().unwrap_or(0);
                    if c01 && accepted(s) && n != 1 { return Err(format!("seed {seed}: event {} (priority {:?}, empty {}, verdict {}) was handed to the action handler {n} times, expected exactly once", s.0, s.2, s.3, ["pass", "reject", "pass", "error", "pass"][(s.0 % 5) as usize])); }
                    if c01 && !accepted(s) && n != 0 { return Err(format!("seed {seed}: event {} (priority {:?}) which the filter {} reached the action handler", s.0, s.2, if s.0 % 5 == 1 { "rejects" } else { "errors on" })); }
                }
                if c15 && errs.len() != want_errs { return Err(format!("seed {seed}: {} filter errors were raised but the error handler was called {} times: {:?}", want_errs, errs.len(), errs)); }
                if c15 { for s in sent.iter().filter(|s| errored(s)) { let n = errs.iter().filter(|e| e.ends_with(&format!("verdict error {}", s.0))).count(); if n != 1 { return Err(format!("seed {seed}: the filter error of event {} reached the error handler {n} times", s.0)); } } }
            }
            let _ = std::fs::remove_dir_all(&dir);
            Ok(())
        }
        // C01 (BOUNDED: one history per watcher kind, real file system): create / write / nested create / rename / remove under a watched directory
        // each reach the action handler (an event naming the path), under the native and the poll watcher
        "fs_operations_reach_handler" => {
            use std::sync::Mutex;
            for (label, kind) in [("native", Watcher::Native), ("poll", Watcher::Poll(Duration::from_millis(100)))] {
                let d = dir.join(label); std::fs::create_dir_all(&d).unwrap();
                let seen: Arc<Mutex<Vec<std::path::PathBuf>>> = Arc::new(Mutex::new(vec![]));
                let empty_batches = Arc::new(AtomicUsize::new(0));
                let (s2, e2) = (seen.clone(), empty_batches.clone());
                let wx = Watchexec::new(move |action| {
                    if action.events.is_empty() { e2.fetch_add(1, Ordering::SeqCst); }
                    let mut g = s2.lock().unwrap(); for (p, _) in action.paths() { g.push(p.to_owned()); } drop(g); action }).map_err(|e| e.to_string())?;
                wx.config.throttle(Duration::from_millis(30));
                wx.config.file_watcher(kind);
                wx.config.pathset([d.clone()]);
                let main = wx.main();
                tokio::time::sleep(Duration::from_millis(600)).await;
                let wait_for = |name: &'static str| { let seen = seen.clone(); async move {
                    for _ in 0..200 { if seen.lock().unwrap().iter().any(|p| p.file_name().map_or(false, |f| f == name)) { return true; } tokio::time::sleep(Duration::from_millis(50)).await; } false } };
                let mut missing: Vec<String> = vec![];
                std::fs::write(d.join("created.txt"), "1").unwrap();
                if !wait_for("created.txt").await { main.abort(); return Err(format!("[{label}] harness or defect: the creation of a file under the watched directory never reached the action handler within 10 s")); }
                // (notify's poll watcher compares modification times in whole seconds: let the second change)
                tokio::time::sleep(Duration::from_millis(1200)).await;
                seen.lock().unwrap().clear();
                std::fs::write(d.join("created.txt"), "22").unwrap();
                if !wait_for("created.txt").await { missing.push("a write to an existing file".into()); }
                std::fs::create_dir_all(d.join("nested")).unwrap(); tokio::time::sleep(Duration::from_millis(400)).await;
                std::fs::write(d.join("nested/inner.txt"), "3").unwrap();
                if !wait_for("inner.txt").await { missing.push("the creation of a file in a new nested directory".into()); }
                seen.lock().unwrap().clear();
                std::fs::rename(d.join("created.txt"), d.join("renamed.txt")).unwrap();
                if !wait_for("created.txt").await { missing.push("a rename (no event names the old path)".into()); }
                seen.lock().unwrap().clear();
                std::fs::remove_file(d.join("nested/inner.txt")).unwrap();
                if !wait_for("inner.txt").await { missing.push("the removal of a file".into()); }
                main.abort();
                if empty_batches.load(Ordering::SeqCst) > 0 { return Err(format!("[{label}] the action handler was invoked with an empty batch")); }
                if !missing.is_empty() { let _ = std::fs::remove_dir_all(&dir); return Err(format!("[{label} watcher] never reached the action handler within 10 s: {}", missing.join("; "))); }
            }
            let _ = std::fs::remove_dir_all(&dir);
            Ok(())
        }
        // C13 (BOUNDED: 10 seeded sequences of 5 run-time configuration changes over 2 disjoint directories x {absent, recursive, non-recursive}, native
        // watcher, real file system): once the changes stop, events arrive exactly as configured (a file written in a configured directory is reported;
        // one written in its subdirectory is reported iff the watch is recursive; nothing from an unconfigured directory). A mismatch is reported only
        // if it persists over three rounds (convergence). The configured directories never overlap: what notify does with overlapping registrations
        // (removing a nested one drops its descriptor although an enclosing recursive watch remains) is the dependency's business, not C13's.
        "config_sequences_bounded" => {
            use std::sync::Mutex;
            let seen: Arc<Mutex<Vec<std::path::PathBuf>>> = Arc::new(Mutex::new(vec![]));
            let s2 = seen.clone();
            let wx = Watchexec::new(move |action| { let mut g = s2.lock().unwrap(); for (p, _) in action.paths() { g.push(p.to_owned()); } drop(g); action }).map_err(|e| e.to_string())?;
            wx.config.throttle(Duration::from_millis(20));
            let main = wx.main();
            let dirs = [dir.join("p"), dir.join("q")];
            for d in &dirs { std::fs::create_dir_all(d.join("sub")).unwrap(); }
            let mut round = 0usize;
            for seed in 1..=10u64 {
                let mut rng = seed.wrapping_mul(0x9E37_79B9_7F4A_7C15) | 1;
                let mut next = || { rng ^= rng << 13; rng ^= rng >> 7; rng ^= rng << 17; rng };
                let mut modes = [0u64; 2];      // 0 absent, 1 recursive, 2 non-recursive
                let mut hist: Vec<String> = vec![];
                for _ in 0..5 {
                    let mut cfg: Vec<WatchedPath> = vec![];
                    for (k, d) in dirs.iter().enumerate() { modes[k] = next() % 3; match modes[k] { 0 => {}, 1 => cfg.push(WatchedPath::recursive(d.clone())), _ => cfg.push(WatchedPath::non_recursive(d.clone())) } }
                    hist.push(format!("p:{} q:{}", ["-", "rec", "flat"][modes[0] as usize], ["-", "rec", "flat"][modes[1] as usize]));
                    wx.config.pathset(cfg);
                    match next() % 3 { 0 => {}, 1 => tokio::time::sleep(Duration::from_millis(3)).await, _ => tokio::time::sleep(Duration::from_millis(60)).await }
                }
                // probes: p/x, p/sub/x, q/x, q/sub/x
                let expect = [modes[0] != 0, modes[0] == 1, modes[1] != 0, modes[1] == 1];
                let mut last_problem = String::new();
                let mut ok = false;
                for _attempt in 0..3 {
                    tokio::time::sleep(Duration::from_millis(400)).await;
                    round += 1;
                    seen.lock().unwrap().clear();
                    let names: Vec<String> = (0..4).map(|i| format!("r{round}_{i}.txt")).collect();
                    let places = [dirs[0].clone(), dirs[0].join("sub"), dirs[1].clone(), dirs[1].join("sub")];
                    for (d, n) in places.iter().zip(&names) { std::fs::write(d.join(n), "x").unwrap(); }
                    let has = |g: &Vec<std::path::PathBuf>, i: usize| g.iter().any(|p| p.file_name().map_or(false, |f| f == names[i].as_str()));
                    for _ in 0..100 { let g = seen.lock().unwrap().clone(); if (0..4).all(|i| !expect[i] || has(&g, i)) { break; } tokio::time::sleep(Duration::from_millis(50)).await; }
                    tokio::time::sleep(Duration::from_millis(300)).await;
                    let g = seen.lock().unwrap().clone();
                    let got: Vec<bool> = (0..4).map(|i| has(&g, i)).collect();
                    if got == expect { ok = true; break; }
                    last_problem = format!("files written in p, p/sub, q, q/sub are reported {got:?}, the final configuration says {expect:?}");
                }
                if !ok { main.abort(); let _ = std::fs::remove_dir_all(&dir); return Err(format!("sequence {seed}, path sets {hist:?}: after the changes stopped, {last_problem} (three rounds)")); }
            }
            main.abort();
            let _ = std::fs::remove_dir_all(&dir);
            Ok(())
        }
        _ => Err(format!("unknown scenario {name}")),
    }
}
#[tokio::main]
async fn main() {
    let name = std::env::args().nth(1).unwrap_or_default();
    match run(&name).await {
        Ok(()) => println!("RESULT {name} ok"),
        Err(e) => { println!("RESULT {name} VIOLATED {e}"); std::process::exit(1); }
    }
}
