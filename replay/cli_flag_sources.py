#!/usr/bin/env python3
"""Bounded end-to-end check of C12 on the REAL watchexec binary: for a fixed list of flag sets, which ignore sources are honoured.
Builds the binary from $VERIF_REPO (default /repo), isolated HOME/XDG_CONFIG_HOME, temporary git project. Prints
`RESULT cli_flag_sources ok|VIOLATED <detail>`; exit 0 / 1 (2 = harness problem)."""
import os, subprocess, sys, tempfile, time, shutil, signal
REPO = os.environ.get("VERIF_REPO", "/repo")
here = os.path.dirname(os.path.abspath(__file__))
target = os.path.join(here, "..", ".cache", "cli_target") if REPO == "/repo" else tempfile.mkdtemp(prefix="vx_cli_target_")
env = dict(os.environ, CARGO_NET_OFFLINE="true", CARGO_TARGET_DIR=target)
b = subprocess.run(["cargo", "build", "-q", "--offline", "-p", "watchexec-cli"], cwd=REPO, env=env, capture_output=True, text=True)
if b.returncode != 0:
    print("build failed:", b.stderr[-800:]); sys.exit(2)
BIN = os.path.join(target, "debug", "watchexec")
# source -> (file extension it ignores, flags that remove it)
SOURCES = {
    "project .gitignore": ("pvcs", {"--no-vcs-ignore", "--no-project-ignore", "--no-discover-ignore", "--ignore-nothing"}),
    "project .ignore": ("pgen", {"--no-project-ignore", "--no-discover-ignore", "--ignore-nothing"}),
    "global git ignore": ("gvcs", {"--no-vcs-ignore", "--no-global-ignore", "--no-discover-ignore", "--ignore-nothing"}),
    "global watchexec ignore": ("ggen", {"--no-global-ignore", "--no-discover-ignore", "--ignore-nothing"}),
    "--ignore-file": ("xfile", set()),
    "--ignore pattern": ("xpat", set()),
}
FLAGSETS = [[], ["--no-vcs-ignore"], ["--no-project-ignore"], ["--no-global-ignore"], ["--no-discover-ignore"], ["--ignore-nothing"], ["--no-default-ignore"],
            ["--no-vcs-ignore", "--no-project-ignore"], ["--no-project-ignore", "--no-global-ignore"], ["--no-vcs-ignore", "--no-global-ignore"]]
def count(log):
    try: return open(log).read().count("ran")
    except OSError: return 0
bad = []
for flags in FLAGSETS:
    d = tempfile.mkdtemp(prefix="vx_c12_")
    try:
        home = os.path.join(d, "home"); proj = os.path.join(d, "proj"); log = os.path.join(d, "log")
        os.makedirs(os.path.join(home, ".config", "git")); os.makedirs(os.path.join(home, ".config", "watchexec")); os.makedirs(os.path.join(proj, ".git"))
        open(os.path.join(home, ".config", "git", "ignore"), "w").write("*.gvcs\n")
        open(os.path.join(home, ".config", "watchexec", "ignore"), "w").write("*.ggen\n")
        open(os.path.join(proj, ".gitignore"), "w").write("*.pvcs\n")
        open(os.path.join(proj, ".ignore"), "w").write("*.pgen\n")
        open(os.path.join(d, "explicit.ign"), "w").write("*.xfile\n")
        e2 = dict(os.environ, HOME=home, XDG_CONFIG_HOME=os.path.join(home, ".config"))
        e2.pop("WATCHEXEC_IGNORE_FILES", None)
        p = subprocess.Popen([BIN, "--postpone", "--debounce", "100ms", "--ignore-file", os.path.join(d, "explicit.ign"), "-i", "*.xpat"] + flags + ["-n", "--", "sh", "-c", "echo ran >> " + log],
                             cwd=proj, env=e2, stdout=subprocess.DEVNULL, stderr=subprocess.DEVNULL)
        time.sleep(1.5)
        def touch(name):
            n0 = count(log); open(os.path.join(proj, name), "w").write(str(time.time())); time.sleep(0.9); return count(log) > n0
        if not touch("control.txt"):
            print("harness: control file did not trigger the command with flags %s" % flags); sys.exit(2)
        for src, (ext, removers) in SOURCES.items():
            ran = touch("probe." + ext)
            honoured = not ran
            want_honoured = not (removers & set(flags))
            if honoured != want_honoured:
                bad.append("flags %s: source `%s` is %s (a change to probe.%s %s the command)" % (" ".join(flags) or "(none)", src, "honoured but must be removed" if honoured else "removed but must be kept", ext, "did not trigger" if honoured else "triggered"))
        p.send_signal(signal.SIGKILL); p.wait()
    finally:
        shutil.rmtree(d, ignore_errors=True)
if REPO != "/repo": shutil.rmtree(target, ignore_errors=True)
if bad:
    print("RESULT cli_flag_sources VIOLATED " + "; ".join(bad)); sys.exit(1)
print("RESULT cli_flag_sources ok (%d flag sets x %d sources)" % (len(FLAGSETS), len(SOURCES))); sys.exit(0)
