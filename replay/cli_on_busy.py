#!/usr/bin/env python3
"""Bounded end-to-end check of C05 on the REAL watchexec binary: one change while the command runs, in each of the four --on-busy-update modes.
Builds the binary from $VERIF_REPO (default /repo). The run is started through a first change (--postpone), which also proves the watcher is live.
Prints `RESULT cli_on_busy ok|VIOLATED <detail>`; exit 0 / 1 (2 = harness problem)."""
import os, re, subprocess, sys, tempfile, time, shutil, signal
REPO = os.environ.get("VERIF_REPO", "/repo")
here = os.path.dirname(os.path.abspath(__file__))
target = os.path.join(here, "..", ".cache", "cli_target") if REPO == "/repo" else tempfile.mkdtemp(prefix="vx_cli_target_")
env = dict(os.environ, CARGO_NET_OFFLINE="true", CARGO_TARGET_DIR=target)
b = subprocess.run(["cargo", "build", "-q", "--offline", "-p", "watchexec-cli"], cwd=REPO, env=env, capture_output=True, text=True)
if b.returncode != 0:
    print("build failed:", b.stderr[-800:]); sys.exit(2)
BIN = os.path.join(target, "debug", "watchexec")
# mode -> (extra flags, what the log must look like; a straggling event of the first change may count as a second change while running)
MODES = {
    "do-nothing": ([], r"start,end", "a change while the command runs does nothing"),
    "(no option given)": ([], r"start,end", "without --on-busy-update, -r or --signal the documented default applies: a change while the command runs does nothing"),
    "queue": ([], r"start,end,start,end", "a change while the command runs causes exactly one further run after the current one ends"),
    "queue (two changes)": ([], r"start,end,start,end,start,end", "each change made while a run is in progress causes exactly one further run: a second change, made during the queued run, is followed by a third run"),
    "restart": ([], r"start(,term,start){1,2},end", "a change while the command runs stops it gracefully (SIGTERM) and starts a fresh run"),
    "signal": (["--signal", "SIGUSR1"], r"start(,usr1){1,2},end", "a change while the command runs only sends the configured signal"),
}
def read(log):
    try: return open(log).read().split()
    except OSError: return []
bad = []
for mode, (extra, want, doc) in MODES.items():
    d = tempfile.mkdtemp(prefix="vx_c05_")
    p = None
    try:
        home = os.path.join(d, "home"); watch = os.path.join(d, "watch"); log = os.path.join(d, "log")
        os.makedirs(home); os.makedirs(watch)
        script = ("trap 'echo term >> %s; exit 0' TERM; trap 'echo usr1 >> %s' USR1; echo start >> %s; i=0; while [ $i -lt 30 ]; do sleep 0.1; i=$((i+1)); done; echo end >> %s" % (log, log, log, log))
        e2 = dict(os.environ, HOME=home, XDG_CONFIG_HOME=os.path.join(home, ".config"))
        p = subprocess.Popen([BIN, "--postpone"] + ([] if mode.startswith("(") else ["--on-busy-update=" + mode.split(" ")[0]]) + ["--debounce", "100ms", "-w", watch, "--project-origin", watch, "--shell=none"] + extra + ["--", "sh", "-c", script],
                             cwd=d, env=e2, stdout=subprocess.DEVNULL, stderr=subprocess.DEVNULL)
        t_end = time.time() + 20
        while time.time() < t_end and "start" not in read(log):
            open(os.path.join(watch, "warmup.txt"), "w").write(str(time.time()))
            for _ in range(10):
                if "start" in read(log): break
                time.sleep(0.05)
        if "start" not in read(log):
            print("harness: the command never started in mode %s" % mode); sys.exit(2)
        time.sleep(1.0)
        open(os.path.join(watch, "change.txt"), "w").write(str(time.time()))
        if "two changes" in mode:
            t2 = time.time() + 15
            while time.time() < t2 and read(log).count("start") < 2: time.sleep(0.05)
            if read(log).count("start") >= 2:
                time.sleep(1.0)
                open(os.path.join(watch, "change2.txt"), "w").write(str(time.time()))
        # wait for the history to settle: nothing new for 4.5 s (a run lasts 3 s)
        last, t_last = read(log), time.time()
        while time.time() - t_last < 4.5 and time.time() < t_end + 40:
            time.sleep(0.1)
            cur = read(log)
            if cur != last: last, t_last = cur, time.time()
        hist = ",".join(last)
        # runs never overlap: between two starts the earlier run has ended
        open_run = False
        for w in last:
            if w == "start":
                if open_run: bad.append("mode %s: runs of the command overlap: %s" % (mode, hist)); break
                open_run = True
            elif w in ("end", "term"): open_run = False
        if not re.fullmatch(want, hist):
            bad.append("mode %s (%s): one change 1 s into a 3 s run gave the history [%s], expected %s" % (mode, doc, hist, want))
    finally:
        if p is not None:
            p.send_signal(signal.SIGKILL); p.wait()
        subprocess.run(["pkill", "-9", "-f", d], capture_output=True)
        shutil.rmtree(d, ignore_errors=True)
if REPO != "/repo": shutil.rmtree(target, ignore_errors=True)
if bad:
    print("RESULT cli_on_busy VIOLATED " + "; ".join(bad)); sys.exit(1)
print("RESULT cli_on_busy ok (%d modes)" % len(MODES)); sys.exit(0)
