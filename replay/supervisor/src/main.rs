//! Scenario runner against the REAL watchexec-supervisor crate (real start_job, real sh children).
//! usage: vx-replay-supervisor <scenario>; prints `RESULT <scenario> ok|VIOLATED <detail>`; exit 0 ok / 1 violated.
use std::{sync::{atomic::{AtomicUsize, Ordering}, Arc}, time::Duration};
use tokio::time::timeout;
use watchexec_signals::Signal;
use watchexec_supervisor::{command::{Command, Program, Shell}, job::start_job};

fn sh(script: &str) -> Arc<Command> {
    Arc::new(Command { program: Program::Shell { shell: Shell::new("sh"), command: script.into(), args: Vec::new() }, options: Default::default() })
}

unsafe fn libc_kill(pid: i32) { extern "C" { fn kill(pid: i32, sig: i32) -> i32; } kill(pid, 9); }

async fn run(name: &str) -> Result<(), String> {
    match name {
        // C07/C08: a control queued behind a Delete is never executed; its ticket must still resolve when the job task ends
        "control_queued_behind_delete_resolves" => {
            let (job, task) = start_job(sh("sleep 30"));
            job.start().await;
            let _d = job.delete();
            let t = job.run(|_| {});
            let r = timeout(Duration::from_secs(5), t).await;
            let _ = timeout(Duration::from_secs(5), task).await;
            r.map_err(|_| "the ticket of a control queued behind delete() was still unresolved 5 s later (the job task had ended without running it)".to_string())
        }
        // C04 / C09 / C10 (BOUNDED: 24 seeded settled sequences of 12 controls against a reference model, 24 seeded bursts of 14 controls over three
        // child behaviours; real processes): at most one process of the job exists at any sampled moment; after each settled control the job is
        // running / not running and has spawned as many processes as the documented semantics say; normal controls of a burst run in send order, once
        "control_sequences_c04" | "control_sequences_c09" | "control_sequences_c10" => {
            use std::sync::Mutex;
            use std::sync::atomic::AtomicBool;
            use watchexec_supervisor::job::CommandState;
            let (c04, c09, c10) = (name.ends_with("c04"), name.ends_with("c09"), name.ends_with("c10"));
            let dir = std::env::temp_dir().join(format!("vx-replay-sup-{}-{}", name, std::process::id()));
            let _ = std::fs::remove_dir_all(&dir); std::fs::create_dir_all(&dir).unwrap();
            fn pids(log: &std::path::Path) -> Vec<i32> { std::fs::read_to_string(log).unwrap_or_default().lines().filter_map(|l| l.trim().parse().ok()).collect() }
            fn exists(pid: i32) -> bool { std::path::Path::new(&format!("/proc/{pid}")).exists() }
            let names = ["start", "stop", "restart", "try_restart", "stop_with_signal", "restart_with_signal", "try_restart_with_signal", "signal"];
            let send = |job: &watchexec_supervisor::job::Job, c: u64, grace: Duration| match c {
                0 => job.start(), 1 => job.stop(), 2 => job.restart(), 3 => job.try_restart(),
                4 => job.stop_with_signal(Signal::Terminate, grace), 5 => job.restart_with_signal(Signal::Terminate, grace),
                6 => job.try_restart_with_signal(Signal::Terminate, grace), _ => job.signal(Signal::Custom(28)),
            };
            // the sampler: how many processes that ever announced themselves for this job exist right now (zombies included: not yet reaped)
            let worst = Arc::new(Mutex::new((0usize, String::new())));
            let current_log: Arc<Mutex<Option<(std::path::PathBuf, String)>>> = Arc::new(Mutex::new(None));
            let stop_sampler = Arc::new(AtomicBool::new(false));
            let (w2, l2, s2) = (worst.clone(), current_log.clone(), stop_sampler.clone());
            let sampler = std::thread::spawn(move || { while !s2.load(Ordering::SeqCst) {
                if let Some((log, what)) = l2.lock().unwrap().clone() { let live: Vec<i32> = pids(&log).into_iter().filter(|p| exists(*p)).collect();
                    let mut w = w2.lock().unwrap(); if live.len() > w.0 { *w = (live.len(), format!("{what}: processes {live:?} of one job exist at the same moment")); } }
                std::thread::sleep(Duration::from_millis(1)); } });
            let mut failure: Option<String> = None;
            // --- settled sequences against the reference model (child: lives long, dies of SIGTERM) ---
            if c09 || c04 { 'seeds: for seed in 1..=24u64 {
                let log = dir.join(format!("settled{seed}.pids"));
                let mut rng = seed.wrapping_mul(0x9E37_79B9_7F4A_7C15) | 1;
                let mut next = || { rng ^= rng << 13; rng ^= rng >> 7; rng ^= rng << 17; rng };
                let (job, task) = start_job(sh(&format!("echo $$ >> {}; exec sleep 600", log.display())));
                *current_log.lock().unwrap() = Some((log.clone(), format!("settled sequence {seed}")));
                {   // C04 at the moment of each spawn: every process this job announced before must be gone (reaped) when the next one is spawned
                    let (hl, hw, hwhat) = (log.clone(), worst.clone(), format!("settled sequence {seed}"));
                    job.set_spawn_hook(move |_, _| { let live: Vec<i32> = pids(&hl).into_iter().filter(|p| exists(*p)).collect();
                        if !live.is_empty() { let mut w = hw.lock().unwrap(); if w.0 < 2 { *w = (2, format!("{hwhat}: a new process is being spawned while {live:?}, spawned earlier for the same job, is still in the process table")); } } });
                }
                let (mut running, mut spawns) = (false, 0usize);
                let mut hist: Vec<&str> = vec![];
                for _ in 0..12 {
                    let c = next() % 8; hist.push(names[c as usize]);
                    match c { 0 => { if !running { spawns += 1; running = true; } } 1 | 4 => { running = false; } 2 | 5 => { spawns += 1; running = true; } 3 | 6 => { if running { spawns += 1; } } _ => {} }
                    let t_c = std::time::Instant::now();
                    let r_c = timeout(Duration::from_secs(15), send(&job, c, Duration::from_secs(8))).await;
                    if std::env::var("VX_DEBUG").is_ok() && t_c.elapsed() > Duration::from_millis(500) { eprintln!("settled {seed} {hist:?}: last control took {:?}", t_c.elapsed()); }
                    if r_c.is_err() { failure = Some(format!("settled sequence {seed} {hist:?}: the ticket of the last control was unresolved after 15 s")); break 'seeds; }
                    if !c09 { continue; }
                    // the ticket has resolved: the job must now be in the documented state (poll a little: the child announces itself asynchronously)
                    let mut ok = false; let mut seen = (false, 0usize);
                    for _ in 0..300 {
                        let flag = Arc::new(AtomicBool::new(false)); let f2 = flag.clone();
                        if timeout(Duration::from_secs(10), job.run(move |ctx| { f2.store(matches!(ctx.current, CommandState::Running { .. }), Ordering::SeqCst); })).await.is_err() { failure = Some(format!("settled sequence {seed} {hist:?}: an observer control did not run within 10 s")); break 'seeds; }
                        seen = (flag.load(Ordering::SeqCst), pids(&log).len());
                        if seen.1 > spawns { break; }
                        if seen == (running, spawns) { ok = true; break; }
                        tokio::time::sleep(Duration::from_millis(10)).await;
                    }
                    if !ok { failure = Some(format!("settled sequence {seed}: after {hist:?} (each awaited) the job is {} and has spawned {} process(es); the documented semantics give {} and {}", if seen.0 { "running" } else { "not running" }, seen.1, if running { "running" } else { "not running" }, spawns)); break 'seeds; }
                }
                let _ = timeout(Duration::from_secs(10), job.delete_now()).await; let _ = timeout(Duration::from_secs(10), task).await;
                for p in pids(&log) { if exists(p) { unsafe { libc_kill(p) } } }
            } }
            // --- bursts (nothing awaited until the end), three child behaviours ---
            if failure.is_none() && (c04 || c10) { 'bursts: for seed in 1..=24u64 {
                let log = dir.join(format!("burst{seed}.pids"));
                let mut rng = seed.wrapping_mul(0xD6E8_FEB8_6659_FD93) | 1;
                let mut next = || { rng ^= rng << 13; rng ^= rng >> 7; rng ^= rng << 17; rng };
                let script = match seed % 3 { 0 => format!("echo $$ >> {}; exec sleep 600", log.display()), 1 => format!("echo $$ >> {}; exec sleep 0.05", log.display()), _ => format!("trap '' TERM; echo $$ >> {}; exec sleep 600", log.display()) };
                let t_burst = std::time::Instant::now();
                let (job, task) = start_job(sh(&script));
                *current_log.lock().unwrap() = Some((log.clone(), format!("burst {seed} ({})", ["long-lived child", "child exits after 50 ms", "child ignores SIGTERM"][(seed % 3) as usize])));
                {   // C04 at the moment of each spawn: every process this job announced before must be gone (reaped) when the next one is spawned
                    let (hl, hw, hwhat) = (log.clone(), worst.clone(), format!("burst {seed}"));
                    job.set_spawn_hook(move |_, _| { let live: Vec<i32> = pids(&hl).into_iter().filter(|p| exists(*p)).collect();
                        if !live.is_empty() { let mut w = hw.lock().unwrap(); if w.0 < 2 { *w = (2, format!("{hwhat}: a new process is being spawned while {live:?}, spawned earlier for the same job, is still in the process table")); } } });
                }
                let order: Arc<Mutex<Vec<usize>>> = Arc::new(Mutex::new(vec![]));
                let mut markers = 0usize; let mut hist: Vec<&str> = vec![];
                for _ in 0..14 {
                    let c = next() % 8; hist.push(names[c as usize]);
                    let _ = send(&job, c, Duration::from_millis(60));
                    let (o2, k) = (order.clone(), markers); markers += 1;
                    let _ = job.run(move |_| { o2.lock().unwrap().push(k); });
                    match next() % 4 { 0 => tokio::time::sleep(Duration::from_millis(20)).await, 1 => tokio::time::sleep(Duration::from_millis(70)).await, _ => {} }
                }
                let (o2, k) = (order.clone(), markers);
                if timeout(Duration::from_secs(30), job.run(move |_| { o2.lock().unwrap().push(k); })).await.is_err() { failure = Some(format!("burst {seed} {hist:?}: the last control had not run 30 s after it was sent")); break 'bursts; }
                let got = order.lock().unwrap().clone();
                if c10 && got != (0..=markers).collect::<Vec<_>>() { failure = Some(format!("burst {seed} {hist:?}: the marker controls sent in order 0..={markers} (all normal priority, interleaved with the controls above) ran as {got:?}")); break 'bursts; }
                let _ = timeout(Duration::from_secs(10), job.delete_now()).await; let _ = timeout(Duration::from_secs(10), task).await;
                tokio::time::sleep(Duration::from_millis(20)).await;
                for p in pids(&log) { if exists(p) { unsafe { libc_kill(p) } } }
                if std::env::var("VX_DEBUG").is_ok() { eprintln!("burst {seed} {hist:?}: {:?}", t_burst.elapsed()); }
            } }
            stop_sampler.store(true, Ordering::SeqCst); let _ = sampler.join();
            let _ = std::fs::remove_dir_all(&dir);
            if let Some(f) = failure { return Err(f); }
            let w = worst.lock().unwrap().clone();
            if c04 && w.0 > 1 { return Err(w.1); }
            Ok(())
        }
        // C10: an urgent control that is pending together with a normal one when the job task wakes up from waiting on its queues runs first
        // (the job task is parked in recv(); both controls are sent back to back before it can run: current-thread runtime)
        "urgent_overtakes_normal_when_parked" => {
            let res = std::thread::spawn(|| {
                let rt = tokio::runtime::Builder::new_current_thread().enable_all().build().unwrap();
                rt.block_on(async {
                    let mut normal_first = 0usize; let trials = 60usize;
                    for _ in 0..trials {
                        let (job, task) = start_job(sh("sleep 30"));
                        for _ in 0..5 { tokio::task::yield_now().await; }     // the task is now parked inside recv()
                        let ran = Arc::new(AtomicUsize::new(0)); let r2 = ran.clone();
                        let _n = job.run(move |_| { r2.fetch_add(1, Ordering::SeqCst); });   // normal
                        let d = job.delete_now();                                              // urgent: Stop, Delete
                        let _ = timeout(Duration::from_secs(5), d).await;
                        let _ = timeout(Duration::from_secs(5), task).await;
                        if ran.load(Ordering::SeqCst) > 0 { normal_first += 1; }
                    }
                    (normal_first, trials)
                })
            }).join().map_err(|_| "scenario thread panicked".to_string())?;
            if res.0 == 0 { Ok(()) } else { Err(format!("in {} of {} trials a normal control sent just before delete_now(), both pending when the parked job task woke up, ran before the urgent Stop/Delete", res.0, res.1)) }
        }
        // C08: after a graceful stop + delete of a GROUPED command, no member of its process group is left running
        "grouped_graceful_stop_leaves_no_member" => {
            let dir = std::env::temp_dir().join(format!("vx-replay-sup-{}", std::process::id()));
            let _ = std::fs::remove_dir_all(&dir); std::fs::create_dir_all(&dir).unwrap();
            let pidfile = dir.join("member.pid");
            // the leader (sh) dies of SIGTERM; a member of its group ignores SIGTERM and keeps running
            let script = format!("sh -c 'trap \"\" TERM; echo $$ > {}; exec sleep 30' & wait", pidfile.display());
            let cmd = Arc::new(Command { program: Program::Shell { shell: Shell::new("sh"), command: script, args: Vec::new() },
                                         options: watchexec_supervisor::command::SpawnOptions { grouped: true, ..Default::default() } });
            let (job, task) = start_job(cmd);
            job.start().await;
            let mut pid = None;
            for _ in 0..100 { tokio::time::sleep(Duration::from_millis(20)).await; if let Ok(t) = std::fs::read_to_string(&pidfile) { if let Ok(p) = t.trim().parse::<i32>() { pid = Some(p); break; } } }
            let pid = pid.ok_or_else(|| "setup: the group member never wrote its pid".to_string())?;
            // what the action worker does for a graceful quit: stop_with_signal(signal, grace) then delete().await
            job.stop_with_signal(Signal::Terminate, Duration::from_millis(1500));
            timeout(Duration::from_secs(10), job.delete()).await.map_err(|_| "delete() ticket unresolved after 10 s".to_string())?;
            let _ = timeout(Duration::from_secs(5), task).await;
            tokio::time::sleep(Duration::from_millis(300)).await;
            let alive = std::path::Path::new(&format!("/proc/{pid}")).exists()
                && !std::fs::read_to_string(format!("/proc/{pid}/stat")).map(|s| s.contains(") Z ")).unwrap_or(false);
            if alive { unsafe { libc_kill(pid); } }
            let _ = std::fs::remove_dir_all(&dir);
            if alive { Err(format!("group member {pid} (ignores SIGTERM) is still running after stop_with_signal(Terminate, 1.5s) + delete() completed and the job task ended: the leader died of the signal inside the grace period, nothing killed the rest of the group")) } else { Ok(()) }
        }
        // C18 (BOUNDED fallback, consulted only when the deductive check is undecided): the argv handed to the OS is exactly the configured one,
        // for every list of up to 3 arguments over a fixed alphabet of awkward strings, with and without a shell
        "argv_exact_bounded" => {
            use std::ffi::OsString;
            let alpha: Vec<&str> = vec!["", "a b", "'q' \"dq\"", "$HOME", "*", "line\nbreak", "h\u{e9}llo\u{2192}\u{4e16}\u{754c}", "--", "-n", ";", "\\", "%PATH%"];
            let mut lists: Vec<Vec<String>> = vec![vec![]];
            for a in &alpha { lists.push(vec![a.to_string()]); }
            for a in &alpha { for b in &alpha { lists.push(vec![a.to_string(), b.to_string()]); } }
            for a in &alpha { for b in &alpha { for c in &alpha { lists.push(vec![a.to_string(), b.to_string(), c.to_string()]); } } }
            let n = lists.len();
            for l in lists {
                let want: Vec<OsString> = l.iter().map(OsString::from).collect();
                let c = Command { program: Program::Exec { prog: "prog".into(), args: l.clone() }, options: Default::default() };
                let mut sp = c.to_spawnable();
                let got: Vec<OsString> = sp.command_mut().as_std().get_args().map(|a| a.to_os_string()).collect();
                if got != want { return Err(format!("Program::Exec args {l:?}: the command would receive {got:?}")); }
                let mut shell = Shell::new("sh");
                shell.options = vec!["-e".into()];
                let c = Command { program: Program::Shell { shell, command: "echo $0; exit".into(), args: l.clone() }, options: Default::default() };
                let mut sp = c.to_spawnable();
                let got: Vec<OsString> = sp.command_mut().as_std().get_args().map(|a| a.to_os_string()).collect();
                let mut want2: Vec<OsString> = vec!["-e".into(), "-c".into(), "echo $0; exit".into()];
                want2.extend(want.iter().cloned());
                if got != want2 { return Err(format!("Program::Shell args {l:?}: the shell would receive {got:?}, expected {want2:?}")); }
            }
            println!("INFO argv_exact_bounded: {n} argument lists x 2 program kinds");
            Ok(())
        }
        // C09: to_wait() on a job that never ran resolves at once
        "next_ending_pending" => {
            let (job, _t) = start_job(sh("sleep 5"));
            timeout(Duration::from_secs(2), job.to_wait()).await.map_err(|_| "to_wait() on a never-started job did not resolve within 2s".to_string())
        }
        // C07: graceful stop ticket resolves when the child exits inside the grace period
        "graceful_stop_exit_in_grace" => {
            let (job, _t) = start_job(sh("sleep 30"));
            job.start().await;
            let r = timeout(Duration::from_secs(3), job.stop_with_signal(Signal::Terminate, Duration::from_secs(20))).await;
            r.map_err(|_| "stop_with_signal ticket unresolved 3s after the child died of SIGTERM (grace 20s)".to_string())
        }
        // C06: graceful try-restart beyond grace restarts exactly once
        "try_graceful_restart_once" => {
            let spawns = Arc::new(AtomicUsize::new(0));
            let (job, _t) = start_job(sh("trap '' TERM; sleep 1"));
            let s2 = spawns.clone();
            job.set_spawn_hook(move |_, _| { s2.fetch_add(1, Ordering::SeqCst); });
            job.start().await;
            job.try_restart_with_signal(Signal::Terminate, Duration::from_millis(200)).await;
            tokio::time::sleep(Duration::from_millis(2500)).await;
            let n = spawns.load(Ordering::SeqCst);
            if n == 2 { Ok(()) } else { Err(format!("{n} spawns observed after one start and one graceful try-restart (expected 2)")) }
        }
        // C07: graceful try-restart ticket resolves when the respawn fails
        "try_graceful_restart_spawn_fails" => {
            let calls = Arc::new(AtomicUsize::new(0));
            let (job, _t) = start_job(sh("sleep 30"));
            let c2 = calls.clone();
            job.set_spawn_hook(move |cmd, _| {
                if c2.fetch_add(1, Ordering::SeqCst) >= 1 { cmd.command_mut().current_dir("/nonexistent/vx-replay"); }
            });
            job.start().await;
            let r = timeout(Duration::from_secs(3), job.try_restart_with_signal(Signal::Terminate, Duration::from_secs(20))).await;
            r.map_err(|_| "try_restart_with_signal ticket unresolved 3s after the old child exited and the respawn failed".to_string())
        }
        // C07: two tasks awaiting clones of one ticket are both woken promptly
        "two_waiters_one_ticket" => {
            let (job, _t) = start_job(sh("sleep 30"));
            job.start().await;
            let ticket = job.to_wait();
            let (a, b) = (ticket.clone(), ticket.clone());
            let t0 = std::time::Instant::now();
            let ha = tokio::spawn(async move { let _ = timeout(Duration::from_secs(4), a).await; t0.elapsed() });
            let hb = tokio::spawn(async move { let _ = timeout(Duration::from_secs(4), b).await; t0.elapsed() });
            tokio::time::sleep(Duration::from_millis(300)).await;
            job.stop().await;
            let (ra, rb) = (ha.await.unwrap(), hb.await.unwrap());
            if ra < Duration::from_secs(2) && rb < Duration::from_secs(2) { Ok(()) }
            else { Err(format!("process stopped after 0.3s; waiters resumed after {ra:?} and {rb:?} (a waiter that is not woken resumes only through its own 4s timeout)")) }
        }
        // C07/C08: dropping the last Job handle ends the job task gracefully (documented), it does not panic
        "drop_last_handle_idle" => {
            let (job, task) = start_job(sh("sleep 30"));
            drop(job);
            match timeout(Duration::from_secs(2), task).await {
                Ok(Ok(())) => Ok(()),
                Ok(Err(e)) => Err(format!("job task ended with {e} after the last Job handle was dropped")),
                Err(_) => Err("job task still running 2s after the last Job handle was dropped".into()),
            }
        }
        // C07: a ticket outstanding when the last Job handle is dropped resolves when the job task ends
        "ticket_outlives_handles" => {
            let (job, _task) = start_job(sh("sleep 1"));
            job.start().await;
            let ticket = job.to_wait();
            let ticket2 = job.stop_with_signal(Signal::Terminate, Duration::from_secs(30));
            drop(job);
            let r = timeout(Duration::from_secs(4), async { ticket.await; ticket2.await }).await;
            r.map_err(|_| "tickets unresolved 4s after the last Job handle was dropped and the process ended".to_string())
        }
        // C06/C07 (D18): a graceful stop whose grace expires after the last Job handle was dropped still force-kills the process and resolves its ticket
        "graceful_stop_kills_at_expiry_after_handles_dropped" => {
            let (job, _task) = start_job(sh("trap '' TERM; sleep 8 & wait; sleep 8"));
            job.start().await;
            tokio::time::sleep(Duration::from_millis(300)).await;
            let t = job.stop_with_signal(Signal::Terminate, Duration::from_millis(300));
            drop(job);
            let t0 = std::time::Instant::now();
            let r = timeout(Duration::from_secs(3), t).await;
            r.map_err(|_| format!("stop_with_signal(TERM, 300ms) on a process that ignores TERM, last Job handle dropped right after: ticket unresolved after {:?} (no kill at expiry)", t0.elapsed()))
        }
        // C07/C10 (D18): controls queued before the last Job handle was dropped are executed, in order, each once
        "pending_controls_run_after_handles_dropped" => {
            for _round in 0..10 {
                let (job, task) = start_job(sh("sleep 30"));
                let log = Arc::new(std::sync::Mutex::new(Vec::new()));
                let mut tickets = Vec::new();
                tickets.push(job.start());
                for i in 1..=3usize { let l = log.clone(); tickets.push(job.run(move |_| { l.lock().unwrap().push(i); })); }
                tickets.push(job.stop());
                drop(job);
                let r = timeout(Duration::from_secs(4), async { for t in tickets { t.await; } }).await;
                let _ = timeout(Duration::from_secs(4), task).await;
                let got = log.lock().unwrap().clone();
                if r.is_err() { return Err(format!("tickets of controls queued before the last handle was dropped unresolved after 4s; ran {got:?}")); }
                if got != vec![1, 2, 3] { return Err(format!("start, run(1), run(2), run(3), stop were queued, then the last Job handle dropped: the functions that ran were {got:?} (expected [1, 2, 3])")); }
            }
            Ok(())
        }
        // C09/C10/C07: the ticket of a compound operation (restart = Stop + Start) is the ticket of its LAST control: it resolves once the fresh process has been hooked and spawned
        "compound_ticket_is_the_last_controls" => {
            let (job, task) = start_job(sh("sleep 30"));
            let hooked = Arc::new(AtomicUsize::new(0));
            let h2 = hooked.clone();
            job.set_spawn_async_hook(move |_c, _ctx| { let h = h2.clone(); Box::new(async move { tokio::time::sleep(Duration::from_millis(300)).await; h.fetch_add(1, Ordering::SeqCst); }) }).await;
            timeout(Duration::from_secs(5), job.start()).await.map_err(|_| "start ticket unresolved".to_string())?;
            timeout(Duration::from_secs(5), job.restart()).await.map_err(|_| "restart ticket unresolved".to_string())?;
            let n = hooked.load(Ordering::SeqCst);
            if n != 2 { return Err(format!("restart() ticket resolved when the spawn hook had completed {n} time(s) (expected 2: the fresh process is hooked and spawned before the ticket of restart resolves)")); }
            timeout(Duration::from_secs(5), job.restart_with_signal(Signal::Terminate, Duration::from_secs(2))).await.map_err(|_| "restart_with_signal ticket unresolved".to_string())?;
            let n = hooked.load(Ordering::SeqCst);
            if n != 3 { return Err(format!("restart_with_signal() ticket resolved when the spawn hook had completed {n} time(s) (expected 3)")); }
            let d = job.delete();
            timeout(Duration::from_secs(5), d).await.map_err(|_| "delete ticket unresolved".to_string())?;
            timeout(Duration::from_secs(5), task).await.map_err(|_| "delete() ticket resolved but the job task had not ended 5 s later (the ticket was not the Delete control's)".to_string())?.map_err(|e| e.to_string())?;
            Ok(())
        }
        // C07 (D19): a grace period too long to be represented (Duration::MAX) must not panic the job task: the stop signal is sent, the ticket resolves when the process ends
        "huge_grace_does_not_panic_the_job_task" => {
            let (job, task) = start_job(sh("sleep 30"));
            job.start().await;
            let r = timeout(Duration::from_secs(3), job.stop_with_signal(Signal::Terminate, Duration::MAX)).await;
            if r.is_err() { return Err(format!("stop_with_signal(TERM, Duration::MAX) on a process that dies of TERM: ticket unresolved after 3 s (job task finished: {})", task.is_finished())); }
            let (job2, task2) = start_job(sh("sleep 30"));
            job2.start().await;
            let r2 = timeout(Duration::from_secs(3), job2.restart_with_signal(Signal::Terminate, Duration::MAX)).await;
            if r2.is_err() { return Err(format!("restart_with_signal(TERM, Duration::MAX): ticket unresolved after 3 s (job task finished: {})", task2.is_finished())); }
            job2.stop().await;
            if task.is_finished() || task2.is_finished() { return Err("the job task ended (panicked) on a huge grace period".into()); }
            Ok(())
        }
        _ => Err(format!("unknown scenario {name}")),
    }
}

#[tokio::main]
async fn main() {
    let name = std::env::args().nth(1).unwrap_or_default();
    match run(&name).await {
        Ok(()) => { println!("RESULT {name} ok"); }
        Err(e) => { println!("RESULT {name} VIOLATED {e}"); std::process::exit(1); }
    }
}
