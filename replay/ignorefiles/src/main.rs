//! Scenario runner against the REAL ignore-files / watchexec-filterer-ignore crates on a temporary directory tree.
use std::path::{Path, PathBuf};
use ignore_files::{IgnoreFile, IgnoreFilter};
use watchexec::filter::Filterer;
use watchexec_events::{Event, FileType, Priority, Tag};
use watchexec_filterer_ignore::IgnoreFilterer;

fn tmp(name: &str) -> PathBuf {
    let d = std::env::temp_dir().join(format!("vx-replay-ign-{}-{}", name, std::process::id()));
    let _ = std::fs::remove_dir_all(&d);
    std::fs::create_dir_all(&d).unwrap();
    d.canonicalize().unwrap()
}
fn file(path: &Path, applies_in: Option<&Path>) -> IgnoreFile {
    IgnoreFile { path: path.to_owned(), applies_in: applies_in.map(|p| p.to_owned()), applies_to: None }
}
fn passes(f: &IgnoreFilterer, p: &Path) -> bool {
    let ev = Event { tags: vec![Tag::Path { path: p.to_owned(), file_type: Some(FileType::File) }], metadata: Default::default() };
    f.check_event(&ev, Priority::Normal).unwrap()
}
async fn run(name: &str) -> Result<(), String> {
    let root = tmp(name);
    std::fs::create_dir_all(root.join("test")).unwrap();
    std::fs::create_dir_all(root.join("tests")).unwrap();
    match name {
        // test/.gitignore re-includes *.rs; that negation must not leak into the sibling tests/ whose name has test as a textual prefix
        "prefix_sibling_negation" => {
            std::fs::write(root.join(".gitignore"), "*.rs\n").unwrap();
            std::fs::write(root.join("test/.gitignore"), "!*.rs\n").unwrap();
            let filter = IgnoreFilter::new(&root, &[file(&root.join(".gitignore"), Some(&root)), file(&root.join("test/.gitignore"), Some(&root.join("test")))]).await.map_err(|e| e.to_string())?;
            let f = IgnoreFilterer(filter);
            let inside = passes(&f, &root.join("test/a.rs"));
            let sibling = passes(&f, &root.join("tests/a.rs"));
            if inside && !sibling { Ok(()) } else { Err(format!("root `*.rs`, test/.gitignore `!*.rs`: test/a.rs passes={inside} (want true), tests/a.rs passes={sibling} (want false: tests/ is not inside test/)")) }
        }
        // an ignore file in test/ must not shadow the root file for paths in tests/
        "prefix_sibling_shadow" => {
            std::fs::write(root.join(".gitignore"), "x.*\n").unwrap();
            std::fs::write(root.join("test/.gitignore"), "*.tmp\n").unwrap();
            let filter = IgnoreFilter::new(&root, &[file(&root.join(".gitignore"), Some(&root)), file(&root.join("test/.gitignore"), Some(&root.join("test")))]).await.map_err(|e| e.to_string())?;
            let f = IgnoreFilterer(filter);
            let sibling = passes(&f, &root.join("tests/x.tmp"));
            let control = passes(&f, &root.join("tests/y.txt"));
            if !sibling && control { Ok(()) } else { Err(format!("root `x.*`, test/.gitignore `*.tmp`: tests/x.tmp passes={sibling} (want false: ignored by the root file), tests/y.txt passes={control} (want true)")) }
        }
        _ => Err(format!("unknown scenario {name}")),
    }
}
#[tokio::main]
async fn main() {
    let name = std::env::args().nth(1).unwrap_or_default();
    match run(&name).await {
        Ok(()) => println!("RESULT {name} ok"),
        Err(e) => { println!("RESULT {name} VIOLATED {e}"); std::process::exit(1); }
    }
}
