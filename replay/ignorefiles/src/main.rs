//! Scenario runner against the REAL ignore-files / watchexec-filterer-ignore crates on a temporary directory tree.
use std::path::{Path, PathBuf};
use ignore_files::{IgnoreFile, IgnoreFilter};
use watchexec::filter::Filterer;
use watchexec_events::{Event, FileType, Priority, Tag};
use watchexec_filterer_ignore::IgnoreFilterer;

fn tmp(name: &str) -> PathBuf {
    let d = std::env::temp_dir().join(format!("vx-replay-ign-{}-{}", name, std::process::id()));
    let _ = std::fs::remove_dir_all(&d);
    std::fs::create_dir_all(&d).unwrap();
    d.canonicalize().unwrap()
}
fn file(path: &Path, applies_in: Option<&Path>) -> IgnoreFile {
    IgnoreFile { path: path.to_owned(), applies_in: applies_in.map(|p| p.to_owned()), applies_to: None }
}
fn passes(f: &IgnoreFilterer, p: &Path) -> bool {
    let ev = Event { tags: vec![Tag::Path { path: p.to_owned(), file_type: Some(FileType::File) }], metadata: Default::default() };
    f.check_event(&ev, Priority::Normal).unwrap()
}
async fn run(name: &str) -> Result<(), String> {
    let root = tmp(name);
    std::fs::create_dir_all(root.join("test")).unwrap();
    std::fs::create_dir_all(root.join("tests")).unwrap();
    match name {
        // C11 (BOUNDED: 4 configurations x all events of 1..2 paths over 7 paths x 3 file types): the default path filterer's verdict is the documented rule
        "globset_rule_bounded" => {
            use watchexec_filterer_globset::GlobsetFilterer;
            // (name, is matched by an ignore pattern, matches a filter pattern, extension)
            let names: [(&str, bool, bool, &str); 7] = [("keep.rs", false, true, "rs"), ("doc.md", false, false, "md"), ("plain.txt", false, false, "txt"),
                ("skip.toml", true, false, "toml"), ("gen.rs.bak", false, false, "bak"), ("skip.rs.toml", true, false, "toml"), ("noext", false, false, "")];
            let types = [Some(FileType::File), Some(FileType::Dir), None];
            let watched = root.join("watched.cfg");
            let mut checked = 0usize;
            for (with_ignores, with_filters, with_exts) in [(false, false, false), (true, false, false), (true, true, false), (true, true, true)] {
                let ignores: Vec<(String, Option<PathBuf>)> = if with_ignores { vec![("*.toml".into(), None)] } else { vec![] };
                let filters: Vec<(String, Option<PathBuf>)> = if with_filters { vec![("*.rs".into(), None)] } else { vec![] };
                let exts: Vec<std::ffi::OsString> = if with_exts { vec!["md".into()] } else { vec![] };
                let f = GlobsetFilterer::new(&root, filters, ignores, vec![watched.clone()], vec![], exts).await.map_err(|e| e.to_string())?;
                // per path: Some(true) passes, Some(false) rejected by rule
                let path_ok = |i: usize, t: Option<FileType>| -> bool {
                    let (_, ign, fil, ext) = names[i];
                    if with_ignores && ign { return false; }
                    if !with_filters && !with_exts { return true; }
                    (with_filters && fil) || (with_exts && ext == "md" && t != Some(FileType::Dir))
                };
                let mut events: Vec<Vec<(usize, Option<FileType>)>> = vec![];
                for a in 0..names.len() { for ta in types { events.push(vec![(a, ta)]); for b in 0..names.len() { for tb in types { events.push(vec![(a, ta), (b, tb)]); } } } }
                for ev in events {
                    let tags = ev.iter().map(|(i, t)| Tag::Path { path: root.join(names[*i].0), file_type: *t }).collect();
                    let e = Event { tags, metadata: Default::default() };
                    let got = f.check_event(&e, Priority::Normal).map_err(|e| e.to_string())?;
                    let want = ev.iter().any(|(i, t)| path_ok(*i, *t));
                    checked += 1;
                    if got != want { return Err(format!("ignores={with_ignores} filters={with_filters} exts={with_exts}: event with paths {:?} {} but the rule says it {}", ev.iter().map(|(i, t)| (names[*i].0, *t)).collect::<Vec<_>>(), if got { "passes" } else { "is rejected" }, if want { "passes" } else { "is rejected" })); }
                }
                // an event naming the explicitly watched file always passes; an event without paths always passes
                let e = Event { tags: vec![Tag::Path { path: watched.clone(), file_type: None }, Tag::Path { path: root.join("skip.toml"), file_type: Some(FileType::File) }], metadata: Default::default() };
                if !f.check_event(&e, Priority::Normal).map_err(|e| e.to_string())? { return Err(format!("ignores={with_ignores} filters={with_filters} exts={with_exts}: an event naming the explicitly watched file (next to an ignored path) was rejected")); }
                if !f.check_event(&Event::default(), Priority::Normal).map_err(|e| e.to_string())? { return Err("an event without paths was rejected".into()); }
            }
            println!("INFO globset_rule_bounded: {checked} events");
            Ok(())
        }
        // C14 (BOUNDED: one hand-made tree exercising every clause): discovery returns exactly the applicable files, each tagged with its directory
        "discovery_exact_on_a_small_tree" => {
            use std::collections::BTreeSet;
            let w = |rel: &str, content: &str| { let p = root.join(rel); std::fs::create_dir_all(p.parent().unwrap()).unwrap(); std::fs::write(p, content).unwrap(); };
            w(".gitignore", "/tests/\n");           // ignores tests/ (whose name has test as a textual prefix)
            w(".ignore", "build/\n");                // a second file in the same directory ignores build/
            w(".git/info/exclude", "*.swp\n");
            w(".git/hooks/.gitignore", "x\n");       // inside a VCS metadata directory: never entered
            w("test/.gitignore", "*.log\n");
            w("tests/.gitignore", "*.tmp\n");        // inside an ignored directory
            w("tests/deep/.ignore", "y\n");
            w("build/.gitignore", "z\n");            // inside a directory ignored by the origin's .ignore
            w("src/.ignore", "*.bak\n");
            w("src/.hgignore", "*.orig\n");
            w("src/empty/.gitignore", "");           // empty: does not count
            w("src/nested/dir/.gitignore", "q\n");
            let (files, errors) = ignore_files::from_origin(root.as_path()).await;
            if !errors.is_empty() { return Err(format!("discovery reported errors: {errors:?}")); }
            let got: BTreeSet<(PathBuf, Option<PathBuf>)> = files.iter().map(|f| (f.path.strip_prefix(&root).unwrap_or(&f.path).to_owned(), f.applies_in.as_ref().map(|a| a.strip_prefix(&root).unwrap_or(a).to_owned()))).collect();
            let e = |p: &str, d: &str| (PathBuf::from(p), Some(PathBuf::from(d)));
            let want: BTreeSet<(PathBuf, Option<PathBuf>)> = [e(".gitignore", ""), e(".ignore", ""), e(".git/info/exclude", ""), e("test/.gitignore", "test"), e("src/.ignore", "src"), e("src/.hgignore", "src"), e("src/nested/dir/.gitignore", "src/nested/dir")].into_iter().collect();
            if files.len() != got.len() { return Err(format!("a file was returned more than once: {:?}", files.iter().map(|f| &f.path).collect::<Vec<_>>())); }
            if got == want { Ok(()) } else {
                Err(format!("discovery from the origin returned (path, applies in) = {:?}; unexpected {:?}; missing {:?}", got, got.difference(&want).collect::<Vec<_>>(), want.difference(&got).collect::<Vec<_>>()))
            }
        }
        // test/.gitignore re-includes *.rs; that negation must not leak into the sibling tests/ whose name has test as a textual prefix
        "prefix_sibling_negation" => {
            std::fs::write(root.join(".gitignore"), "*.rs\n").unwrap();
            std::fs::write(root.join("test/.gitignore"), "!*.rs\n").unwrap();
            let filter = IgnoreFilter::new(&root, &[file(&root.join(".gitignore"), Some(&root)), file(&root.join("test/.gitignore"), Some(&root.join("test")))]).await.map_err(|e| e.to_string())?;
            let f = IgnoreFilterer(filter);
            let inside = passes(&f, &root.join("test/a.rs"));
            let sibling = passes(&f, &root.join("tests/a.rs"));
            if inside && !sibling { Ok(()) } else { Err(format!("root `*.rs`, test/.gitignore `!*.rs`: test/a.rs passes={inside} (want true), tests/a.rs passes={sibling} (want false: tests/ is not inside test/)")) }
        }
        // an ignore file in test/ must not shadow the root file for paths in tests/
        "prefix_sibling_shadow" => {
            std::fs::write(root.join(".gitignore"), "x.*\n").unwrap();
            std::fs::write(root.join("test/.gitignore"), "*.tmp\n").unwrap();
            let filter = IgnoreFilter::new(&root, &[file(&root.join(".gitignore"), Some(&root)), file(&root.join("test/.gitignore"), Some(&root.join("test")))]).await.map_err(|e| e.to_string())?;
            let f = IgnoreFilterer(filter);
            let sibling = passes(&f, &root.join("tests/x.tmp"));
            let control = passes(&f, &root.join("tests/y.txt"));
            if !sibling && control { Ok(()) } else { Err(format!("root `x.*`, test/.gitignore `*.tmp`: tests/x.tmp passes={sibling} (want false: ignored by the root file), tests/y.txt passes={control} (want true)")) }
        }
        _ => Err(format!("unknown scenario {name}")),
    }
}
#[tokio::main]
async fn main() {
    let name = std::env::args().nth(1).unwrap_or_default();
    match run(&name).await {
        Ok(()) => println!("RESULT {name} ok"),
        Err(e) => { println!("RESULT {name} VIOLATED {e}"); std::process::exit(1); }
    }
}
