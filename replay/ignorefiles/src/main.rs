//! Scenario runner against the REAL ignore-files / watchexec-filterer-ignore crates on a temporary directory tree.
use std::path::{Path, PathBuf};
use ignore_files::{IgnoreFile, IgnoreFilter};
use watchexec::filter::Filterer;
use watchexec_events::{Event, FileType, Priority, Tag};
use watchexec_filterer_ignore::IgnoreFilterer;

fn tmp(name: &str) -> PathBuf {
    let d = std::env::temp_dir().join(format!("vx-replay-ign-{}-{}", name, std::process::id()));
    let _ = std::fs::remove_dir_all(&d);
    std::fs::create_dir_all(&d).unwrap();
    d.canonicalize().unwrap()
}
fn file(path: &Path, applies_in: Option<&Path>) -> IgnoreFile {
    IgnoreFile { path: path.to_owned(), applies_in: applies_in.map(|p| p.to_owned()), applies_to: None }
}
fn passes(f: &IgnoreFilterer, p: &Path) -> bool {
    let ev = Event { tags: vec![Tag::Path { path: p.to_owned(), file_type: Some(FileType::File) }], metadata: Default::default() };
    f.check_event(&ev, Priority::Normal).unwrap()
}
async fn run(name: &str) -> Result<(), String> {
    let root = tmp(name);
    std::fs::create_dir_all(root.join("test")).unwrap();
    std::fs::create_dir_all(root.join("tests")).unwrap();
    match name {
        // C11 (BOUNDED: 6 configurations x all events of 1..2 paths over 7 paths x 3 file types): the default path filterer's verdict is the documented rule
        "globset_rule_bounded" => {
            use watchexec_filterer_globset::GlobsetFilterer;
            // (name, is matched by an ignore pattern, matches a filter pattern, extension)
            let names: [(&str, bool, bool, &str); 7] = [("keep.rs", false, true, "rs"), ("doc.md", false, false, "md"), ("plain.txt", false, false, "txt"),
                ("skip.toml", true, false, "toml"), ("gen.rs.bak", false, false, "bak"), ("skip.rs.toml", true, false, "toml"), ("noext", false, false, "")];
            let types = [Some(FileType::File), Some(FileType::Dir), None];
            let watched = root.join("watched.cfg");
            let mut checked = 0usize;
            for (with_ignores, with_filters, with_exts, with_negation) in [(false, false, false, false), (true, false, false, false), (true, true, false, false), (true, true, true, false), (true, false, false, true), (true, true, true, true)] {
                // with_negation: a later negated ignore pattern re-includes skip.rs.toml
                let ignores: Vec<(String, Option<PathBuf>)> = if with_ignores { if with_negation { vec![("*.toml".into(), None), ("!skip.rs.toml".into(), None)] } else { vec![("*.toml".into(), None)] } } else { vec![] };
                let filters: Vec<(String, Option<PathBuf>)> = if with_filters { vec![("*.rs".into(), None)] } else { vec![] };
                let exts: Vec<std::ffi::OsString> = if with_exts { vec!["md".into()] } else { vec![] };
                let f = GlobsetFilterer::new(&root, filters, ignores, vec![watched.clone()], vec![], exts).await.map_err(|e| e.to_string())?;
                // per path: Some(true) passes, Some(false) rejected by rule
                let path_ok = |i: usize, t: Option<FileType>| -> bool {
                    let (name, ign, fil, ext) = names[i];
                    if with_ignores && ign && !(with_negation && name == "skip.rs.toml") { return false; }
                    if !with_filters && !with_exts { return true; }
                    (with_filters && fil) || (with_exts && ext == "md" && t != Some(FileType::Dir))
                };
                let mut events: Vec<Vec<(usize, Option<FileType>)>> = vec![];
                for a in 0..names.len() { for ta in types { events.push(vec![(a, ta)]); for b in 0..names.len() { for tb in types { events.push(vec![(a, ta), (b, tb)]); } } } }
                for ev in events {
                    let tags = ev.iter().map(|(i, t)| Tag::Path { path: root.join(names[*i].0), file_type: *t }).collect();
                    let e = Event { tags, metadata: Default::default() };
                    let got = f.check_event(&e, Priority::Normal).map_err(|e| e.to_string())?;
                    let want = ev.iter().any(|(i, t)| path_ok(*i, *t));
                    checked += 1;
                    if got != want { return Err(format!("ignores={with_ignores} filters={with_filters} exts={with_exts}: event with paths {:?} {} but the rule says it {}", ev.iter().map(|(i, t)| (names[*i].0, *t)).collect::<Vec<_>>(), if got { "passes" } else { "is rejected" }, if want { "passes" } else { "is rejected" })); }
                }
                // an event naming the explicitly watched file always passes; an event without paths always passes
                let e = Event { tags: vec![Tag::Path { path: watched.clone(), file_type: None }, Tag::Path { path: root.join("skip.toml"), file_type: Some(FileType::File) }], metadata: Default::default() };
                if !f.check_event(&e, Priority::Normal).map_err(|e| e.to_string())? { return Err(format!("ignores={with_ignores} filters={with_filters} exts={with_exts}: an event naming the explicitly watched file (next to an ignored path) was rejected")); }
                if !f.check_event(&Event::default(), Priority::Normal).map_err(|e| e.to_string())? { return Err("an event without paths was rejected".into()); }
            }
            println!("INFO globset_rule_bounded: {checked} events");
            Ok(())
        }
        // C14 (BOUNDED: one hand-made tree exercising every clause): discovery returns exactly the applicable files, each tagged with its directory
        "discovery_exact_on_a_small_tree" => {
            use std::collections::BTreeSet;
            let w = |rel: &str, content: &str| { let p = root.join(rel); std::fs::create_dir_all(p.parent().unwrap()).unwrap(); std::fs::write(p, content).unwrap(); };
            w(".gitignore", "/tests/\n");           // ignores tests/ (whose name has test as a textual prefix)
            w(".ignore", "build/\n");                // a second file in the same directory ignores build/
            w(".git/info/exclude", "*.swp\n");
            w(".git/hooks/.gitignore", "x\n");       // inside a VCS metadata directory: never entered
            w("test/.gitignore", "*.log\n");
            w("tests/.gitignore", "*.tmp\n");        // inside an ignored directory
            w("tests/deep/.ignore", "y\n");
            w("build/.gitignore", "z\n");            // inside a directory ignored by the origin's .ignore
            w("src/.ignore", "*.bak\n");
            w("src/.hgignore", "*.orig\n");
            w("src/empty/.gitignore", "");           // empty: does not count
            w("src/nested/dir/.gitignore", "q\n");
            // eight pairs of siblings pN (ignored by the origin's .gitignore) / pNx (not ignored, name = pN + one character), created in alternating
            // order so that whatever order the file system lists them in, some pruned pN is met while its longer-named sibling is still pending
            let mut origin_gitignore = String::from("/tests/\n");
            for n in 0..8 {
                origin_gitignore.push_str(&format!("/p{n}/\n"));
                let (a, b) = (format!("p{n}/.gitignore"), format!("p{n}x/.gitignore"));
                if n % 2 == 0 { w(&a, "k\n"); w(&b, "k\n"); } else { w(&b, "k\n"); w(&a, "k\n"); }
            }
            w(".gitignore", &origin_gitignore);
            let (files, errors) = ignore_files::from_origin(root.as_path()).await;
            if !errors.is_empty() { return Err(format!("discovery reported errors: {errors:?}")); }
            let got: BTreeSet<(PathBuf, Option<PathBuf>)> = files.iter().map(|f| (f.path.strip_prefix(&root).unwrap_or(&f.path).to_owned(), f.applies_in.as_ref().map(|a| a.strip_prefix(&root).unwrap_or(a).to_owned()))).collect();
            let e = |p: &str, d: &str| (PathBuf::from(p), Some(PathBuf::from(d)));
            let want: BTreeSet<(PathBuf, Option<PathBuf>)> = [e(".gitignore", ""), e(".ignore", ""), e(".git/info/exclude", ""), e("test/.gitignore", "test"), e("src/.ignore", "src"), e("src/.hgignore", "src"), e("src/nested/dir/.gitignore", "src/nested/dir")].into_iter()
                .chain((0..8).map(|n| (PathBuf::from(format!("p{n}x/.gitignore")), Some(PathBuf::from(format!("p{n}x")))))).collect();
            if files.len() != got.len() { return Err(format!("a file was returned more than once: {:?}", files.iter().map(|f| &f.path).collect::<Vec<_>>())); }
            if got == want { Ok(()) } else {
                Err(format!("discovery from the origin returned (path, applies in) = {:?}; unexpected {:?}; missing {:?}", got, got.difference(&want).collect::<Vec<_>>(), want.difference(&got).collect::<Vec<_>>()))
            }
        }
        // C03 (BOUNDED: 2 placements outside the origin x 2 constructions x 6 probes): an ignore file of a directory that is not inside the origin still applies in
        // its own directory only, with its patterns relative to that directory
        "ignore_files_outside_the_origin" => {
            let work = root.join("work"); let proj = work.join("proj"); let other = work.join("other");
            for d in [proj.join("sub"), proj.join("build"), other.clone()] { std::fs::create_dir_all(&d).unwrap(); }
            std::fs::write(other.join(".ignore"), "*.log\n").unwrap();                 // a sibling of the origin
            std::fs::write(work.join(".ignore"), "/proj/build\n/sub\n").unwrap();      // the directory above the origin
            let sib = file(&other.join(".ignore"), Some(&other)); let above = file(&work.join(".ignore"), Some(&work));
            let mut checked = 0usize;
            for (label, files) in [("sibling", vec![sib.clone()]), ("above", vec![above.clone()]), ("both", vec![sib.clone(), above.clone()]), ("both, reversed", vec![above.clone(), sib.clone()])] {
                let via_new = IgnoreFilter::new(&proj, &files).await.map_err(|e| e.to_string())?;
                let mut via_add = IgnoreFilter::empty(&proj);
                for f in &files { via_add.add_file(f).await.map_err(|e| e.to_string())?; }
                let has_above = label != "sibling";
                // (path, is_dir, ignored?)
                let probes = [(proj.join("app.log"), false, false), (proj.join("sub/app.log"), false, false), (proj.join("sub"), true, false),
                              (proj.join("build"), true, has_above), (proj.join("build/out.o"), false, has_above), (proj.join("notes.txt"), false, false)];
                for (how, f) in [("new", &via_new), ("empty + add_file", &via_add)] { for (p, is_dir, want) in &probes {
                    let got = f.match_path(p, *is_dir).is_ignore(); checked += 1;
                    if got != *want { return Err(format!("origin {}, ignore files outside it ({label}; built by {how}): {} is {}ignored, expected {}ignored (other/.ignore `*.log` applies in other/ only; work/.ignore `/proj/build`, `/sub` is relative to work/)", proj.display(), p.display(), if got { "" } else { "not " }, if *want { "" } else { "not " })); }
                }}
            }
            println!("INFO ignore_files_outside_the_origin: {checked} verdicts");
            Ok(())
        }
        // C03 (history): files applying in the same directory keep their listed order (= their precedence), on every construction from identical inputs
        "same_directory_files_keep_their_listed_order" => {
            let d = root.join("proj"); std::fs::create_dir_all(&d).unwrap();
            // the first file is large (slow to read), the second tiny: read completion order and listed order differ easily
            let mut big = String::new(); for i in 0..20000 { big.push_str(&format!("# filler line {i}\n")); } big.push_str("*.log\n");
            std::fs::write(d.join("first.ignore"), &big).unwrap();
            std::fs::write(d.join("second.ignore"), "!keep.log\n").unwrap();
            let files = vec![file(&d.join("first.ignore"), Some(&d)), file(&d.join("second.ignore"), Some(&d))];
            let mut wrong = 0usize; let n = 400usize;
            for _ in 0..n {
                let f = IgnoreFilter::new(&d, &files).await.map_err(|e| e.to_string())?;
                // listed order: `*.log` then `!keep.log`: the later line wins, keep.log is re-included
                if f.match_path(&d.join("keep.log"), false).is_ignore() { wrong += 1; }
            }
            println!("INFO same_directory_files_keep_their_listed_order: {wrong} of {n} constructions from identical inputs evaluated the two files in the wrong order");
            if wrong > 0 { return Err(format!("IgnoreFilter::new(origin, [first.ignore (`*.log`), second.ignore (`!keep.log`)]), both applying in the same directory: {wrong} of {n} constructions ignore keep.log, i.e. applied the second file BEFORE the first")); }
            Ok(())
        }
        // C03 (BOUNDED: 320 ignore-file configurations x 3 constructions x ~60 probes on one tree with prefix-named siblings): the real filter's
        // verdict equals an independent evaluation of the documented rule (nearest directory first; the first file that says something decides)
        "ignore_rule_bounded" => {
            use ignore::gitignore::GitignoreBuilder;
            let dirs = ["", "test", "tests", "test/sub", "tests/sub", "src", "x", "test/gen"];
            for d in dirs { std::fs::create_dir_all(root.join(d)).unwrap(); }
            let cand: [(&str, Vec<Option<&str>>); 5] = [
                ("", vec![Some("*.rs\n"), Some("/a.rs\nsub/\n"), Some("**/gen\n!keep.log\n*.log\n"), Some("test/a.rs\n# comment\n\nx/**\n")]),
                ("test", vec![None, Some("!*.rs\n"), Some("*.tmp\n/a.rs\n"), Some("sub/\n"), Some("!sub/\n*.log\n")]),
                ("test/sub", vec![None, Some("!a.rs\n"), Some("*.rs\n!keep.log\n"), Some("gen\n")]),
                ("tests", vec![None, Some("*.tmp\n")]),
                ("tests/sub", vec![None, Some("zzz\n")]),
            ];
            let names = ["a.rs", "b.tmp", "keep.log", "o.log", "gen"];
            let mut checked = 0usize; let mut configs = 0usize;
            for i0 in 0..cand[0].1.len() { for i1 in 0..cand[1].1.len() { for i2 in 0..cand[2].1.len() { for i3 in 0..cand[3].1.len() { for i4 in 0..cand[4].1.len() {
                let pick = [i0, i1, i2, i3, i4];
                // listed order: origin first, then deeper
                let mut listed: Vec<(PathBuf, String)> = vec![];
                for (k, (d, cs)) in cand.iter().enumerate() {
                    let f = root.join(d).join(".gitignore");
                    match cs[pick[k]] { Some(c) => { std::fs::write(&f, c).unwrap(); listed.push((root.join(d), c.to_string())); } None => { let _ = std::fs::remove_file(&f); } }
                }
                configs += 1;
                let files: Vec<IgnoreFile> = listed.iter().map(|(d, _)| file(&d.join(".gitignore"), Some(d))).collect();
                let mut rev = files.clone(); rev.reverse();
                let built_new = IgnoreFilter::new(&root, &files).await.map_err(|e| e.to_string())?;
                let built_rev = IgnoreFilter::new(&root, &rev).await.map_err(|e| e.to_string())?;
                let mut built_add = IgnoreFilter::empty(&root);
                for f in &files { built_add.add_file(f).await.map_err(|e| e.to_string())?; }
                // independent evaluation
                // independent evaluation: one matcher per ignore file (the ignore crate's own), asked nearest directory first; the first that says something decides
                // tri-state: 1 ignored, -1 re-admitted by a negated pattern, 0 nothing said
                let mut gis: Vec<(PathBuf, ignore::gitignore::Gitignore)> = listed.iter().map(|(d, content)| {
                    let mut b = GitignoreBuilder::new(d);
                    for line in content.lines() { if line.is_empty() || line.starts_with('#') { continue; } b.add_line(None, line).unwrap(); }
                    (d.clone(), b.build().unwrap()) }).collect();
                gis.sort_by_key(|(d, _)| std::cmp::Reverse(d.components().count()));
                let reference3 = |p: &Path, is_dir: bool| -> i8 {
                    for (d, gi) in gis.iter().filter(|(d, _)| p.starts_with(d) && p != d.as_path()) {
                        let _ = d;
                        let m = gi.matched_path_or_any_parents(p, is_dir);
                        if m.is_ignore() { return 1; }
                        if m.is_whitelist() { return -1; }
                    }
                    0
                };
                let reference = |p: &Path, is_dir: bool| -> bool { reference3(p, is_dir) == 1 };
                let mut probes: Vec<(PathBuf, bool)> = vec![];
                for d in dirs { for n in names { probes.push((root.join(d).join(n), false)); } probes.push((root.join(d).join("gen"), true)); }
                // directories themselves, unless an ignore file is stored in that very directory (left unspecified by the property)
                for d in dirs { let p = root.join(d); if *d != *"" && !listed.iter().any(|(ld, _)| *ld == p) { probes.push((p, true)); } }
                probes.push((root.parent().unwrap().join("vx-outside-a.rs"), false));
                // two-path events through the real IgnoreFilterer: left-to-right fold (ignored rejects, re-admitted passes, nothing said keeps the verdict)
                {
                    let fe = IgnoreFilterer(built_new.clone());
                    let files: Vec<&PathBuf> = probes.iter().filter(|(_, d)| !*d).map(|(p, _)| p).step_by(3).take(14).collect();
                    let r3: Vec<i8> = files.iter().map(|p| reference3(p, false)).collect();
                    for (ia, a) in files.iter().enumerate() { for (ib, b) in files.iter().enumerate() {
                        let mut want = true;
                        for v in [r3[ia], r3[ib]] { match v { 1 => want = false, -1 => want = true, _ => {} } }
                        let ev = Event { tags: vec![Tag::Path { path: (*a).clone(), file_type: Some(FileType::File) }, Tag::Path { path: (*b).clone(), file_type: Some(FileType::File) }], metadata: Default::default() };
                        let got = fe.check_event(&ev, Priority::Normal).unwrap();
                        checked += 1;
                        if got != want { return Err(format!("ignore files {:?}: the event with paths [{}, {}] {} but folding the per-path verdicts ({}, {}) from left to right says it {}", listed.iter().map(|(d, c)| (d.strip_prefix(&root).unwrap().join(".gitignore"), c.as_str())).collect::<Vec<_>>(),
                            a.strip_prefix(&root).unwrap_or(a).display(), b.strip_prefix(&root).unwrap_or(b).display(), if got { "passes" } else { "is rejected" }, reference3(a, false), reference3(b, false), if want { "passes" } else { "is rejected" })); }
                    }}
                }
                for (p, is_dir) in probes {
                    let want = reference(&p, is_dir);
                    for (how, f) in [("IgnoreFilter::new", &built_new), ("IgnoreFilter::new (files listed deepest first)", &built_rev), ("empty + add_file", &built_add)] {
                        let m = f.match_path(&p, is_dir);
                        let got = m.is_ignore();
                        checked += 1;
                        if got != want {
                            return Err(format!("ignore files {:?}, built by {how}: {} {} is {} but the nearest-file-first evaluation says {}", listed.iter().map(|(d, c)| (d.strip_prefix(&root).unwrap().join(".gitignore"), c.as_str())).collect::<Vec<_>>(),
                                if is_dir { "directory" } else { "file" }, p.strip_prefix(&root).unwrap_or(&p).display(), if got { "ignored" } else { "not ignored" }, if want { "ignored" } else { "not ignored" }));
                        }
                        if is_dir { let pass = f.check_dir(&p); if pass == want { return Err(format!("check_dir({}) = {pass} disagrees with match_path (ignored = {want}), built by {how}", p.display())); } }
                    }
                    if !is_dir {
                        let fe = IgnoreFilterer(built_new.clone());
                        if passes(&fe, &p) == want { return Err(format!("IgnoreFilterer::check_event on {} disagrees with the rule (ignored = {want})", p.display())); }
                    }
                }
            }}}}}
            println!("INFO ignore_rule_bounded: {configs} configurations, {checked} verdicts");
            Ok(())
        }
        // C20 (BOUNDED: every documented marker x {file, directory} x 4 levels of one chain, plus all pairs of 8 markers at two levels): origins() and
        // types() on the real crate equal the documented tables
        "origins_markers_bounded" => {
            use project_origins::{origins, types, ProjectType as T};
            use std::collections::HashSet;
            // (name, is a directory marker, type reported by types() if any) -- transcribed from the documentation of ProjectType / origins()
            let markers: Vec<(&str, bool, Option<T>)> = vec![
                ("_darcs", true, Some(T::Darcs)), (".bzr", true, Some(T::Bazaar)), (".fossil-settings", true, Some(T::Fossil)), (".git", true, Some(T::Git)), (".github", true, None),
                (".hg", true, Some(T::Mercurial)), (".svn", true, Some(T::Subversion)),
                (".asf.yaml", false, None), (".bzrignore", false, Some(T::Bazaar)), (".codecov.yml", false, None), (".ctags", false, Some(T::C)), (".editorconfig", false, None),
                (".git", false, Some(T::Git)), (".gitattributes", false, Some(T::Git)), (".gitmodules", false, Some(T::Git)), (".hgignore", false, Some(T::Mercurial)), (".hgtags", false, Some(T::Mercurial)),
                (".perltidyrc", false, Some(T::Perl)), (".travis.yml", false, None), ("appveyor.yml", false, None), ("build.gradle", false, Some(T::Gradle)), ("build.properties", false, None),
                ("build.xml", false, None), ("Cargo.toml", false, Some(T::Cargo)), ("Cargo.lock", false, None), ("cgmanifest.json", false, Some(T::JavaScript)), ("CMakeLists.txt", false, None),
                ("composer.json", false, Some(T::PHP)), ("COPYING", false, None), ("docker-compose.yml", false, None), ("Dockerfile", false, Some(T::Docker)), ("Gemfile", false, Some(T::Bundler)),
                ("LICENSE.txt", false, None), ("LICENSE", false, None), ("Makefile.am", false, None), ("Makefile.pl", false, None), ("Makefile.PL", false, Some(T::Perl)), ("Makefile", false, None),
                ("mix.exs", false, Some(T::Elixir)), ("moonshine-dependencies.xml", false, None), ("package.json", false, Some(T::JavaScript)), ("package-lock.json", false, None),
                ("pnpm-lock.yaml", false, None), ("yarn.lock", false, None), ("pom.xml", false, Some(T::Maven)), ("project.clj", false, Some(T::Leiningen)), ("requirements.txt", false, Some(T::Pip)),
                ("v.mod", false, Some(T::V)), ("CONTRIBUTING.md", false, None), ("go.mod", false, Some(T::Go)), ("go.sum", false, Some(T::Go)), ("Pipfile", false, Some(T::Pip)), ("build.zig", false, Some(T::Zig)),
            ];
            let chain: Vec<PathBuf> = vec![root.join("c0"), root.join("c0/c1"), root.join("c0/c1/c2"), root.join("c0/c1/c2/c3")];
            let leaf = chain[3].clone();
            let reset = |chain: &Vec<PathBuf>| { let _ = std::fs::remove_dir_all(&chain[0]); std::fs::create_dir_all(&chain[3]).unwrap();
                // a non-marker entry in each directory: an origin needs a marker, not just a non-empty directory
                for d in chain.iter() { std::fs::write(d.join("README.rst"), "x").unwrap(); } };
            reset(&chain);
            // whatever lies above the scratch tree (/tmp, /) is outside this experiment: measured once on the marker-free chain
            let baseline: HashSet<PathBuf> = origins(&leaf).await;
            if baseline.iter().any(|p| chain.contains(p)) { return Err(format!("a chain without any marker has origins inside it: {baseline:?}")); }
            let place = |dir: &Path, name: &str, as_dir: bool| { let p = dir.join(name); if as_dir { std::fs::create_dir_all(&p).unwrap(); } else { std::fs::write(&p, "x").unwrap(); } };
            let is_marker = |name: &str, as_dir: bool| markers.iter().any(|(n, d, _)| *n == name && *d == as_dir);
            let types_of = |placed: &[(&str, bool)]| -> HashSet<T> { placed.iter().flat_map(|(n, d)| markers.iter().filter(move |(mn, md, _)| mn == n && md == d).filter_map(|(_, _, t)| *t)).collect() };
            let mut cases = 0usize;
            let names: Vec<&str> = { let mut v: Vec<&str> = markers.iter().map(|m| m.0).collect(); v.dedup(); v };
            for name in &names { for as_dir in [false, true] { for level in 0..4 {
                reset(&chain);
                place(&chain[level], name, as_dir);
                let got = origins(&leaf).await;
                let mut want = baseline.clone(); if is_marker(name, as_dir) { want.insert(chain[level].clone()); }
                cases += 1;
                if got != want { return Err(format!("a {} named {name} in {}: origins({}) = {:?}, expected {:?}", if as_dir { "directory" } else { "file" }, chain[level].display(), leaf.display(), got, want)); }
                // started higher up, a marker below the start is never reported
                if level > 0 { let got = origins(&chain[level - 1]).await; if got != baseline { return Err(format!("a marker {name} below the start directory was reported: {got:?}")); } }
                let gt = types(&chain[level]).await; let wt = types_of(&[(name, as_dir)]);
                if gt != wt { return Err(format!("a {} named {name}: types() = {gt:?}, expected {wt:?}", if as_dir { "directory" } else { "file" })); }
            }}}
            // pairs: several markers in one directory and markers at two levels
            let some = [(".git", true), (".git", false), ("Cargo.toml", false), ("Cargo.toml", true), (".hgtags", false), ("go.sum", false), (".svn", true), ("LICENSE", false)];
            for a in some { for b in some { if a.0 == b.0 { continue; }
                reset(&chain);
                place(&chain[1], a.0, a.1); place(&chain[1], b.0, b.1); place(&chain[3], b.0, b.1);
                let got = origins(&leaf).await;
                let mut want = baseline.clone();
                if is_marker(a.0, a.1) || is_marker(b.0, b.1) { want.insert(chain[1].clone()); }
                if is_marker(b.0, b.1) { want.insert(chain[3].clone()); }
                cases += 1;
                if got != want { return Err(format!("{a:?} and {b:?} in c1, {b:?} in c3: origins = {got:?}, expected {want:?}")); }
                let gt = types(&chain[1]).await; let wt = types_of(&[a, b]);
                if gt != wt { return Err(format!("{a:?} and {b:?} in one directory: types() = {gt:?}, expected {wt:?}")); }
            }}
            // a third wrong node type: a symbolic link named like a marker (to a file or to a directory) is itself neither a file nor a directory, so it
            // marks nothing -- the listing records each entry's own type, it does not follow links
            #[cfg(unix)]
            {
                let store = root.join("store"); std::fs::create_dir_all(store.join("adir")).unwrap(); std::fs::write(store.join("afile"), "x").unwrap();
                for (name, _) in some { for to_dir in [false, true] { for level in 0..4 {
                    reset(&chain);
                    std::os::unix::fs::symlink(if to_dir { store.join("adir") } else { store.join("afile") }, chain[level].join(name)).unwrap();
                    let got = origins(&leaf).await;
                    cases += 1;
                    if got != baseline { return Err(format!("a symbolic link named {name} (to a {}) in {}: origins = {got:?}, expected none in the chain", if to_dir { "directory" } else { "file" }, chain[level].display())); }
                    let gt = types(&chain[level]).await;
                    if !gt.is_empty() { return Err(format!("a symbolic link named {name} (to a {}): types() = {gt:?}, expected none", if to_dir { "directory" } else { "file" })); }
                }}}
            }
            for t in [T::Bazaar, T::Darcs, T::Fossil, T::Git, T::Mercurial, T::Pijul, T::Subversion, T::Bundler, T::C, T::Cargo, T::Docker, T::Elixir, T::Gradle, T::JavaScript, T::Leiningen, T::Maven, T::Perl, T::PHP, T::Pip, T::V, T::Zig, T::Go] {
                if t.is_vcs() == t.is_soft() { return Err(format!("{t:?}: is_vcs = {}, is_soft = {}", t.is_vcs(), t.is_soft())); }
            }
            println!("INFO origins_markers_bounded: {cases} placements");
            Ok(())
        }
        // C14: a negation in a directory's own ignore file re-includes a DIRECT child directory that a file further up ignores: the child must be
        // searched (its ignore file found)
        "negation_reincludes_a_direct_child" => {
            let w = |rel: &str, content: &str| { let p = root.join(rel); std::fs::create_dir_all(p.parent().unwrap()).unwrap(); std::fs::write(p, content).unwrap(); };
            w(".gitignore", "out\n");
            w("pkg/.gitignore", "!out\n");
            w("pkg/out/.gitignore", "x\n");
            w("lib/out/.gitignore", "y\n");      // control: ignored by the origin's file, not re-included: must not be found
            let (files, errors) = ignore_files::from_origin(root.as_path()).await;
            if !errors.is_empty() { return Err(format!("discovery reported errors: {errors:?}")); }
            let got: Vec<PathBuf> = files.iter().map(|f| f.path.strip_prefix(&root).unwrap_or(&f.path).to_owned()).collect();
            let has = |p: &str| got.iter().any(|g| g == Path::new(p));
            if has("lib/out/.gitignore") { return Err(format!("lib/out is ignored by the origin's .gitignore and not re-included, yet its ignore file was returned: {got:?}")); }
            if has("pkg/out/.gitignore") { Ok(()) } else { Err(format!("origin/.gitignore `out`, pkg/.gitignore `!out`: pkg/out is re-included by the nearer file, but discovery did not search it: pkg/out/.gitignore is missing from {got:?}")) }
        }
        // C14 (BOUNDED: 150 ignore-file configurations on one tree with nested directories and a prefix-named sibling): from_origin returns exactly the
        // ignore files of the directories reachable without entering an ignored one, judged by an independent evaluation (nearest file first, the
        // ignore crate's matcher one file at a time), each tagged with its directory
        "discovery_rule_bounded" => {
            use ignore::gitignore::GitignoreBuilder;
            use std::collections::BTreeSet;
            let dirs = ["a", "a/b", "a/b/c", "a/b/c/d", "ab", "ab/c", "x", "x/c"];
            let leaves = ["a/b/c", "a/b/c/d", "ab", "ab/c", "x", "x/c"];        // each holds a fixed `.ignore`, so that being searched is observable
            let cand: [(&str, Vec<Option<&str>>); 3] = [
                ("", vec![None, Some("c\n"), Some("c/\n"), Some("/a/b/\n"), Some("ab/\n"), Some("!c\n")]),
                ("a", vec![None, Some("c\n"), Some("!c\n"), Some("b/\n"), Some("/b/c/\n")]),
                ("a/b", vec![None, Some("!c\n"), Some("c\n"), Some("d/\n"), Some("!d\n")]),
            ];
            let mut configs = 0usize;
            for i0 in 0..cand[0].1.len() { for i1 in 0..cand[1].1.len() { for i2 in 0..cand[2].1.len() {
                let _ = std::fs::remove_dir_all(root.join("a")); let _ = std::fs::remove_dir_all(root.join("ab")); let _ = std::fs::remove_dir_all(root.join("x")); let _ = std::fs::remove_file(root.join(".gitignore"));
                let _ = std::fs::remove_dir_all(root.join("test")); let _ = std::fs::remove_dir_all(root.join("tests"));
                for d in dirs { std::fs::create_dir_all(root.join(d)).unwrap(); }
                for l in leaves { std::fs::write(root.join(l).join(".ignore"), "leaf\n").unwrap(); }
                let pick = [i0, i1, i2];
                let mut gitignores: Vec<(PathBuf, String)> = vec![];
                for (k, (d, cs)) in cand.iter().enumerate() { if let Some(c) = cs[pick[k]] { std::fs::write(root.join(d).join(".gitignore"), c).unwrap(); gitignores.push((root.join(d), c.to_string())); } }
                configs += 1;
                // independent evaluation
                let ignored_dir = |p: &Path| -> bool {
                    let mut anc: Vec<&(PathBuf, String)> = gitignores.iter().filter(|(d, _)| p.starts_with(d) && p != d.as_path()).collect();
                    anc.sort_by_key(|(d, _)| std::cmp::Reverse(d.components().count()));
                    for (d, content) in anc {
                        let mut b = GitignoreBuilder::new(d);
                        for line in content.lines() { b.add_line(None, line).unwrap(); }
                        let gi = b.build().unwrap();
                        let m = gi.matched_path_or_any_parents(p, true);
                        if m.is_ignore() { return true; }
                        if m.is_whitelist() { return false; }
                    }
                    false
                };
                let mut reach: Vec<PathBuf> = vec![root.clone()];
                for d in dirs {      // parents come before children in `dirs`
                    let p = root.join(d);
                    if reach.iter().any(|r| Some(r.as_path()) == p.parent()) && !ignored_dir(&p) { reach.push(p); }
                }
                let mut want: BTreeSet<(PathBuf, PathBuf)> = BTreeSet::new();
                for r in &reach { for n in [".gitignore", ".ignore"] { let f = r.join(n); if f.is_file() && std::fs::metadata(&f).unwrap().len() > 0 { want.insert((f.strip_prefix(&root).unwrap().to_owned(), r.strip_prefix(&root).unwrap().to_owned())); } } }
                // with explicit watch paths: only directories beneath a watched path, or above one, are searched
                if configs % 5 == 1 {
                    // (the third list names only paths OUTSIDE the origin: no directory of the walk is related to it, not even the origin)
                    for watches in [vec![root.join("a/b")], vec![root.join("x"), root.join("a/b/c")], vec![root.with_file_name("vx-outside-a"), root.with_file_name("vx-outside-b").join("deep")]] {
                        let related = |p: &Path| watches.iter().any(|w| p.starts_with(w) || w.starts_with(p));
                        let mut reach_w: Vec<PathBuf> = if related(&root) { vec![root.clone()] } else { vec![] };
                        for d in dirs { let p = root.join(d); if reach_w.iter().any(|r| Some(r.as_path()) == p.parent()) && !ignored_dir(&p) && related(&p) { reach_w.push(p); } }
                        let mut want_w: BTreeSet<(PathBuf, PathBuf)> = BTreeSet::new();
                        for r in &reach_w { for n in [".gitignore", ".ignore"] { let f = r.join(n); if f.is_file() && std::fs::metadata(&f).unwrap().len() > 0 { want_w.insert((f.strip_prefix(&root).unwrap().to_owned(), r.strip_prefix(&root).unwrap().to_owned())); } } }
                        let args = ignore_files::IgnoreFilesFromOriginArgs::new(&root, watches.clone(), vec![]).map_err(|e| e.to_string())?;
                        let (files, errors) = ignore_files::from_origin(args).await;
                        if !errors.is_empty() { return Err(format!("discovery reported errors: {errors:?}")); }
                        let got_w: BTreeSet<(PathBuf, PathBuf)> = files.iter().map(|f| (f.path.strip_prefix(&root).unwrap_or(&f.path).to_owned(), f.applies_in.as_ref().map(|a| a.strip_prefix(&root).unwrap_or(a).to_owned()).unwrap_or_default())).collect();
                        if got_w != want_w {
                            return Err(format!("ignore files {:?}, explicit watches {:?}: discovery returned (file, applies in) with unexpected {:?} and missing {:?}", gitignores.iter().map(|(d, c)| (d.strip_prefix(&root).unwrap().join(".gitignore"), c.as_str())).collect::<Vec<_>>(),
                                watches.iter().map(|w| w.strip_prefix(&root).unwrap_or(w)).collect::<Vec<_>>(), got_w.difference(&want_w).collect::<Vec<_>>(), want_w.difference(&got_w).collect::<Vec<_>>()));
                        }
                    }
                }
                let (files, errors) = ignore_files::from_origin(root.as_path()).await;
                if !errors.is_empty() { return Err(format!("discovery reported errors: {errors:?}")); }
                let got: BTreeSet<(PathBuf, PathBuf)> = files.iter().map(|f| (f.path.strip_prefix(&root).unwrap_or(&f.path).to_owned(), f.applies_in.as_ref().map(|a| a.strip_prefix(&root).unwrap_or(a).to_owned()).unwrap_or_default())).collect();
                if files.len() != got.len() { return Err(format!("a file was returned more than once: {:?}", files.iter().map(|f| &f.path).collect::<Vec<_>>())); }
                if got != want {
                    return Err(format!("ignore files {:?}: discovery returned (file, applies in) with unexpected {:?} and missing {:?}", gitignores.iter().map(|(d, c)| (d.strip_prefix(&root).unwrap().join(".gitignore"), c.as_str())).collect::<Vec<_>>(),
                        got.difference(&want).collect::<Vec<_>>(), want.difference(&got).collect::<Vec<_>>()));
                }
            }}}
            println!("INFO discovery_rule_bounded: {configs} configurations");
            Ok(())
        }
        // test/.gitignore re-includes *.rs; that negation must not leak into the sibling tests/ whose name has test as a textual prefix
        "prefix_sibling_negation" => {
            std::fs::write(root.join(".gitignore"), "*.rs\n").unwrap();
            std::fs::write(root.join("test/.gitignore"), "!*.rs\n").unwrap();
            let filter = IgnoreFilter::new(&root, &[file(&root.join(".gitignore"), Some(&root)), file(&root.join("test/.gitignore"), Some(&root.join("test")))]).await.map_err(|e| e.to_string())?;
            let f = IgnoreFilterer(filter);
            let inside = passes(&f, &root.join("test/a.rs"));
            let sibling = passes(&f, &root.join("tests/a.rs"));
            if inside && !sibling { Ok(()) } else { Err(format!("root `*.rs`, test/.gitignore `!*.rs`: test/a.rs passes={inside} (want true), tests/a.rs passes={sibling} (want false: tests/ is not inside test/)")) }
        }
        // an ignore file in test/ must not shadow the root file for paths in tests/
        "prefix_sibling_shadow" => {
            std::fs::write(root.join(".gitignore"), "x.*\n").unwrap();
            std::fs::write(root.join("test/.gitignore"), "*.tmp\n").unwrap();
            let filter = IgnoreFilter::new(&root, &[file(&root.join(".gitignore"), Some(&root)), file(&root.join("test/.gitignore"), Some(&root.join("test")))]).await.map_err(|e| e.to_string())?;
            let f = IgnoreFilterer(filter);
            let sibling = passes(&f, &root.join("tests/x.tmp"));
            let control = passes(&f, &root.join("tests/y.txt"));
            if !sibling && control { Ok(()) } else { Err(format!("root `x.*`, test/.gitignore `*.tmp`: tests/x.tmp passes={sibling} (want false: ignored by the root file), tests/y.txt passes={control} (want true)")) }
        }
        _ => Err(format!("unknown scenario {name}")),
    }
}
#[tokio::main]
async fn main() {
    let name = std::env::args().nth(1).unwrap_or_default();
    match run(&name).await {
        Ok(()) => println!("RESULT {name} ok"),
        Err(e) => { println!("RESULT {name} VIOLATED {e}"); std::process::exit(1); }
    }
}
