//! Exhaustive / sampled JSON round trips through the REAL watchexec-events crate (serde feature, real serde_json).
use watchexec_events::{filekind::*, Event, FileType, Keyboard, ProcessEnd, Source, Tag};

fn access_modes() -> Vec<AccessMode> {
    // exhaustive by construction: a new variant makes this match fail to compile (=> tool error, not a silent gap)
    let all = vec![AccessMode::Any, AccessMode::Execute, AccessMode::Read, AccessMode::Write, AccessMode::Other];
    for m in &all { match m { AccessMode::Any | AccessMode::Execute | AccessMode::Read | AccessMode::Write | AccessMode::Other => {} } }
    all
}
fn all_kinds() -> Vec<FileEventKind> {
    let mut v = vec![FileEventKind::Any, FileEventKind::Other];
    let mut access = vec![AccessKind::Any, AccessKind::Read, AccessKind::Other];
    for m in access_modes() { access.push(AccessKind::Open(m)); access.push(AccessKind::Close(m)); }
    for a in &access { match a { AccessKind::Any | AccessKind::Read | AccessKind::Open(_) | AccessKind::Close(_) | AccessKind::Other => {} } }
    v.extend(access.into_iter().map(FileEventKind::Access));
    let create = vec![CreateKind::Any, CreateKind::File, CreateKind::Folder, CreateKind::Other];
    for c in &create { match c { CreateKind::Any | CreateKind::File | CreateKind::Folder | CreateKind::Other => {} } }
    v.extend(create.into_iter().map(FileEventKind::Create));
    let data = vec![DataChange::Any, DataChange::Size, DataChange::Content, DataChange::Other];
    for d in &data { match d { DataChange::Any | DataChange::Size | DataChange::Content | DataChange::Other => {} } }
    let meta = vec![MetadataKind::Any, MetadataKind::AccessTime, MetadataKind::WriteTime, MetadataKind::Permissions, MetadataKind::Ownership, MetadataKind::Extended, MetadataKind::Other];
    for d in &meta { match d { MetadataKind::Any | MetadataKind::AccessTime | MetadataKind::WriteTime | MetadataKind::Permissions | MetadataKind::Ownership | MetadataKind::Extended | MetadataKind::Other => {} } }
    let ren = vec![RenameMode::Any, RenameMode::To, RenameMode::From, RenameMode::Both, RenameMode::Other];
    for d in &ren { match d { RenameMode::Any | RenameMode::To | RenameMode::From | RenameMode::Both | RenameMode::Other => {} } }
    let mut modify = vec![ModifyKind::Any, ModifyKind::Other];
    modify.extend(data.into_iter().map(ModifyKind::Data));
    modify.extend(meta.into_iter().map(ModifyKind::Metadata));
    modify.extend(ren.into_iter().map(ModifyKind::Name));
    for d in &modify { match d { ModifyKind::Any | ModifyKind::Data(_) | ModifyKind::Metadata(_) | ModifyKind::Name(_) | ModifyKind::Other => {} } }
    v.extend(modify.into_iter().map(FileEventKind::Modify));
    let remove = vec![RemoveKind::Any, RemoveKind::File, RemoveKind::Folder, RemoveKind::Other];
    for d in &remove { match d { RemoveKind::Any | RemoveKind::File | RemoveKind::Folder | RemoveKind::Other => {} } }
    v.extend(remove.into_iter().map(FileEventKind::Remove));
    for k in &v { match k { FileEventKind::Any | FileEventKind::Access(_) | FileEventKind::Create(_) | FileEventKind::Modify(_) | FileEventKind::Remove(_) | FileEventKind::Other => {} } }
    v
}
fn roundtrip(ev: &Event) -> Result<(String, Event), String> {
    let js = serde_json::to_string(ev).map_err(|e| format!("serialise: {e}"))?;
    let back: Event = serde_json::from_str(&js).map_err(|e| format!("parse {js}: {e}"))?;
    Ok((js, back))
}
fn run(name: &str) -> Result<String, String> {
    match name {
        // C16: every filesystem event kind survives Event -> JSON -> Event, and the JSON carries the documented fields
        "fs_kind_json_roundtrip_exhaustive" => {
            let kinds = all_kinds();
            for k in &kinds {
                let ev = Event { tags: vec![Tag::FileEventKind(*k)], metadata: Default::default() };
                let (js, back) = roundtrip(&ev)?;
                if back != ev { return Err(format!("kind {k:?}: serialised as {js}, parsed back as {:?}", back.tags)); }
                let v: serde_json::Value = serde_json::from_str(&js).unwrap();
                let t = &v["tags"][0];
                if t["kind"] != "fs" || !t["simple"].is_string() || t["full"] != format!("{k:?}") {
                    return Err(format!("kind {k:?}: JSON {js} lacks the documented fields kind=\"fs\", simple, full"));
                }
            }
            Ok(format!("{} filesystem event kinds", kinds.len()))
        }
        // C16: the finite tag payloads (sources, keyboard, file types) through real JSON
        "finite_tags_json_roundtrip_exhaustive" => {
            let mut n = 0;
            let sources = [Source::Filesystem, Source::Keyboard, Source::Mouse, Source::Os, Source::Time, Source::Internal];
            for s in sources { match s { Source::Filesystem | Source::Keyboard | Source::Mouse | Source::Os | Source::Time | Source::Internal => {} _ => {} }
                let ev = Event { tags: vec![Tag::Source(s)], metadata: Default::default() };
                let (js, back) = roundtrip(&ev)?; n += 1;
                if back != ev { return Err(format!("source {s:?}: {js} parsed back as {:?}", back.tags)); } }
            let ev = Event { tags: vec![Tag::Keyboard(Keyboard::Eof)], metadata: Default::default() };
            let (js, back) = roundtrip(&ev)?; n += 1;
            if back != ev { return Err(format!("keyboard eof: {js} parsed back as {:?}", back.tags)); }
            for ft in [None, Some(FileType::File), Some(FileType::Dir), Some(FileType::Symlink), Some(FileType::Other)] {
                let ev = Event { tags: vec![Tag::Path { path: "/tmp/a b/\u{e9}".into(), file_type: ft }], metadata: Default::default() };
                let (js, back) = roundtrip(&ev)?; n += 1;
                if back != ev { return Err(format!("path tag with file type {ft:?}: {js} parsed back as {:?}", back.tags)); } }
            for end in [None, Some(ProcessEnd::Success), Some(ProcessEnd::Continued)] {
                let ev = Event { tags: vec![Tag::ProcessCompletion(end)], metadata: Default::default() };
                let (js, back) = roundtrip(&ev)?; n += 1;
                if back != ev { return Err(format!("completion {end:?}: {js} parsed back as {:?}", back.tags)); } }
            Ok(format!("{n} tag values"))
        }
        // C16 (BOUNDED): metadata maps over 3 keys x 6 value lists (absent, empty, empty string, one, two, awkward characters), with and without tags,
        // and whole events combining several tags: Event -> JSON -> Event is the identity
        "metadata_and_whole_events_json_roundtrip" => {
            use std::collections::HashMap;
            let keys = ["", "k", "file-event-info"];
            let vals: [Option<Vec<&str>>; 6] = [None, Some(vec![]), Some(vec![""]), Some(vec!["a"]), Some(vec!["a", "b"]), Some(vec!["\u{fc} \"q\"\n\\", "a"])];
            let tagsets: Vec<Vec<Tag>> = vec![vec![], vec![Tag::Source(Source::Filesystem)],
                vec![Tag::Source(Source::Os), Tag::Path { path: "/x/y".into(), file_type: Some(FileType::File) }, Tag::Path { path: "/x/z".into(), file_type: None }, Tag::Process(42), Tag::ProcessCompletion(Some(ProcessEnd::Success)), Tag::Keyboard(Keyboard::Eof)]];
            let mut n = 0;
            for a in 0..6 { for b in 0..6 { for c in 0..6 { for tags in &tagsets {
                let mut metadata: HashMap<String, Vec<String>> = HashMap::new();
                for (k, i) in keys.iter().zip([a, b, c]) { if let Some(v) = &vals[i] { metadata.insert(k.to_string(), v.iter().map(|s| s.to_string()).collect()); } }
                let ev = Event { tags: tags.clone(), metadata };
                let (js, back) = roundtrip(&ev)?; n += 1;
                if back != ev { return Err(format!("event {ev:?} serialised as {js} parsed back as {back:?}")); }
            }}}}
            // arrays of events keep their order and length
            let evs: Vec<Event> = (0..5u32).map(|i| Event { tags: vec![Tag::Process(i)], metadata: Default::default() }).collect();
            let js = serde_json::to_string(&evs).map_err(|e| e.to_string())?;
            let back: Vec<Event> = serde_json::from_str(&js).map_err(|e| e.to_string())?;
            if back != evs { return Err(format!("an array of 5 events serialised as {js} parsed back as {back:?}")); }
            Ok(format!("{n} events"))
        }
        _ => Err(format!("unknown scenario {name}")),
    }
}
fn main() {
    let mut rc = 0;
    for name in std::env::args().skip(1) {
        match run(&name) {
            Ok(info) => println!("RESULT {name} ok ({info})"),
            Err(e) => { println!("RESULT {name} VIOLATED {e}"); rc = 1; }
        }
    }
    std::process::exit(rc);
}
