#!/bin/sh
# usage: replay/cli_explicit_ignore.sh <flags...>   (REPO from $VERIF_REPO, default /repo)
# Real-code scenario for C12: an explicit --ignore-file must be honoured whatever ignore-discovery flags are given.
# Builds the real watchexec binary, watches a temp dir with `--ignore-file ign` (pattern *.tmp) plus the given flags, touches a.tmp and
# then b.txt; only b.txt may trigger the command. Prints RESULT ... ok|VIOLATED.
REPO="${VERIF_REPO:-/repo}"
FLAGS="$*"
BIN="$REPO/target/debug/watchexec"
( cd "$REPO" && CARGO_NET_OFFLINE=true cargo build -q --offline -p watchexec-cli 2>/dev/null ) || { echo "build failed"; exit 2; }
D="$(mktemp -d /tmp/vx_cli_XXXXXX)"
trap 'kill $PID 2>/dev/null; rm -rf "$D"' EXIT
mkdir -p "$D/proj" && cd "$D/proj" && printf '*.tmp\n' > "$D/ign" && : > "$D/out"
"$BIN" --postpone --ignore-file "$D/ign" $FLAGS -w . -n -- sh -c "echo RUN >> $D/out" >/dev/null 2>&1 &
PID=$!
sleep 1.5
echo 1 > a.tmp; sleep 1.2
N1=$(grep -c RUN "$D/out")
echo 1 > b.txt; sleep 1.2
N2=$(grep -c RUN "$D/out")
if [ "$N1" = "0" ] && [ "$N2" -ge 1 ]; then echo "RESULT explicit_ignore_file[$FLAGS] ok"; exit 0
else echo "RESULT explicit_ignore_file[$FLAGS] VIOLATED runs after touching a.tmp (ignored by --ignore-file): $N1 (want 0); after b.txt: $N2 (want >= 1)"; exit 1; fi
