#!/bin/sh
# usage: replay/run.sh <crate-dir-name> <scenario>...   (REPO from $VERIF_REPO, default /repo); builds in a scratch dir
set -e
REPO="${VERIF_REPO:-/repo}"
HERE="$(cd "$(dirname "$0")" && pwd)"
NAME="$1"; shift
WORK="$(mktemp -d /tmp/vx_replay_XXXXXX)"
# build cache (rebuilt from $REPO's current sources by cargo on every run; safe to delete)
CACHE="$HERE/../.cache/replay_target_$NAME"
# a scratch copy of the repository (self-tests, seeded changes in worktrees) gets a throw-away build directory: its path changes every time
[ "$REPO" = "/repo" ] || CACHE="$WORK/target"
mkdir -p "$CACHE"
trap 'rm -rf "$WORK"' EXIT
cp -r "$HERE/$NAME/src" "$WORK/src"
sed "s#@REPO@#$REPO#g" "$HERE/$NAME/Cargo.toml.in" > "$WORK/Cargo.toml"
cp "$REPO/Cargo.lock" "$WORK/Cargo.lock"
cd "$WORK"
CARGO_TARGET_DIR="${VX_REPLAY_TARGET:-$CACHE}" CARGO_NET_OFFLINE=true cargo build --offline -q 2>"$WORK/build.log" || { cat "$WORK/build.log" | tail -30; exit 2; }
BIN="$(ls ${VX_REPLAY_TARGET:-$CACHE}/debug/vx-replay-$NAME* | grep -v '\.d$' | head -1)"
rc=0
for s in "$@"; do "$BIN" "$s" || rc=1; done
exit $rc
