//! Validates by execution the ASSUMED contract of nix::sys::signal::Signal used by the Verus unit `names` (prelude/names_env.rs):
//! from_str accepts exactly the upper-case SIG-prefixed names, try_from(i32) the numbers; short names and numbers are not names;
//! the first-class signals carry their POSIX numbers and names.
use std::str::FromStr;
use nix::sys::signal::Signal as Nix;
fn main() {
    let arg = std::env::args().nth(1).unwrap_or_default();
    let mut bad = Vec::new();
    let mut valid = 0;
    for n in -2i32..=130 {
        if let Ok(sig) = Nix::try_from(n) {
            valid += 1;
            let name = sig.as_str();
            if sig as i32 != n { bad.push(format!("{n}: try_from gives a signal numbered {}", sig as i32)); }
            if Nix::from_str(name) != Ok(sig) { bad.push(format!("{n}: from_str({name}) != it")); }
            if name.to_ascii_uppercase() != name || !name.starts_with("SIG") { bad.push(format!("{n}: name {name} is not an upper-case SIG name")); }
            let short = &name[3..];
            if Nix::from_str(short).is_ok() { bad.push(format!("{n}: short name {short} is accepted by nix")); }
            if Nix::from_str(&name.to_ascii_lowercase()).is_ok() { bad.push(format!("{n}: lower-case name accepted by nix")); }
            if i32::from_str(name).is_ok() || i32::from_str(short).is_ok() { bad.push(format!("{n}: a name parses as a number")); }
            if i32::from_str(&n.to_string()) != Ok(n) { bad.push(format!("{n}: number string does not parse back")); }
        }
    }
    for (n, name) in [(1, "SIGHUP"), (2, "SIGINT"), (3, "SIGQUIT"), (9, "SIGKILL"), (10, "SIGUSR1"), (12, "SIGUSR2"), (15, "SIGTERM")] {
        match Nix::try_from(n) { Ok(s) if s.as_str() == name => {}, other => bad.push(format!("first-class {n} is not {name}: {other:?}")) }
    }
    // the real parser on the spellings of every nix signal (a sample of the statement itself, on the real code)
    if arg == "table" {
        for n in 1i32..=64 { if let Ok(sig) = Nix::try_from(n) {
            let name = sig.as_str();
            let a = watchexec_signals::Signal::from_str(name).ok(); let b = watchexec_signals::Signal::from_str(&name[3..]).ok();
            let c = watchexec_signals::Signal::from_str(&n.to_string()).ok(); let d = watchexec_signals::Signal::from_str(&name.to_ascii_lowercase()).ok();
            println!("{n} {name}: long={a:?} short={b:?} number={c:?} lower={d:?}");
        } }
    }
    if bad.is_empty() { println!("RESULT nix_table ok ({valid} signals)"); } else { println!("RESULT nix_table VIOLATED {}", bad.join("; ")); std::process::exit(1); }
}
