//! Validates by execution the ASSUMED contract of nix::sys::signal::Signal used by the Verus unit `names` (prelude/names_env.rs):
//! from_str accepts exactly the upper-case SIG-prefixed names, try_from(i32) the numbers; short names and numbers are not names;
//! the first-class signals carry their POSIX numbers and names.
use std::str::FromStr;
use nix::sys::signal::Signal as Nix;
fn main() {
    let arg = std::env::args().nth(1).unwrap_or_default();
    let mut bad = Vec::new();
    let mut valid = 0;
    for n in -2i32..=130 {
        if let Ok(sig) = Nix::try_from(n) {
            valid += 1;
            let name = sig.as_str();
            if sig as i32 != n { bad.push(format!("{n}: try_from gives a signal numbered {}", sig as i32)); }
            if Nix::from_str(name) != Ok(sig) { bad.push(format!("{n}: from_str({name}) != it")); }
            if name.to_ascii_uppercase() != name || !name.starts_with("SIG") { bad.push(format!("{n}: name {name} is not an upper-case SIG name")); }
            let short = &name[3..];
            if Nix::from_str(short).is_ok() { bad.push(format!("{n}: short name {short} is accepted by nix")); }
            if Nix::from_str(&name.to_ascii_lowercase()).is_ok() { bad.push(format!("{n}: lower-case name accepted by nix")); }
            if i32::from_str(name).is_ok() || i32::from_str(short).is_ok() { bad.push(format!("{n}: a name parses as a number")); }
            if i32::from_str(&n.to_string()) != Ok(n) { bad.push(format!("{n}: number string does not parse back")); }
        }
    }
    for (n, name) in [(1, "SIGHUP"), (2, "SIGINT"), (3, "SIGQUIT"), (9, "SIGKILL"), (10, "SIGUSR1"), (12, "SIGUSR2"), (15, "SIGTERM")] {
        match Nix::try_from(n) { Ok(s) if s.as_str() == name => {}, other => bad.push(format!("first-class {n} is not {name}: {other:?}")) }
    }
    // the real parser on the spellings of every nix signal (a sample of the statement itself, on the real code)
    if arg == "table" {
        for n in 1i32..=64 { if let Ok(sig) = Nix::try_from(n) {
            let name = sig.as_str();
            let a = watchexec_signals::Signal::from_str(name).ok(); let b = watchexec_signals::Signal::from_str(&name[3..]).ok();
            let c = watchexec_signals::Signal::from_str(&n.to_string()).ok(); let d = watchexec_signals::Signal::from_str(&name.to_ascii_lowercase()).ok();
            println!("{n} {name}: long={a:?} short={b:?} number={c:?} lower={d:?}");
        } }
    }
    // C19 (exhaustive over every signal number nix knows, three spellings x three letter cases, plus the documented Windows control names), on the
    // REAL parser and printer: display form parses back to the same OS signal; number, SIG name and short name agree (the documented control names
    // take precedence over the unix SHORT name only)
    if arg == "names" {
        use watchexec_signals::Signal as S;
        let mut n_checked = 0;
        let control_shorts = ["STOP", "KILL", "C", "CLOSE", "BREAK"];
        let mixed = |s: &str| s.chars().enumerate().map(|(i, c)| if i % 2 == 0 { c.to_ascii_lowercase() } else { c.to_ascii_uppercase() }).collect::<String>();
        for n in 1i32..=64 { if let Ok(sig) = Nix::try_from(n) {
            let name = sig.as_str();
            let by_number = S::from_str(&n.to_string()).ok();
            match by_number.and_then(|s| s.to_nix()) { Some(x) if x == sig => {}, other => bad.push(format!("number {n} parses to {by_number:?} whose OS signal is {other:?}, not {name}")) }
            for spelling in [name.to_string(), name.to_ascii_lowercase(), mixed(name)] {
                let got = S::from_str(&spelling).ok(); n_checked += 1;
                if got.and_then(|s| s.to_nix()) != Some(sig) { bad.push(format!("`{spelling}` parses to {got:?}, but `{n}` parses to {by_number:?} ({name})")); }
            }
            let short = &name[3..];
            if !control_shorts.contains(&short) {
                for spelling in [short.to_string(), short.to_ascii_lowercase(), mixed(short)] {
                    let got = S::from_str(&spelling).ok(); n_checked += 1;
                    if got.and_then(|s| s.to_nix()) != Some(sig) { bad.push(format!("short name `{spelling}` parses to {got:?}, but `{n}` parses to {by_number:?} ({name})")); }
                }
            }
            // display round trip for the value the number parses to, and for Custom(n)
            for v in [by_number, Some(S::Custom(n))].into_iter().flatten() {
                let shown = v.to_string(); let back = S::from_str(&shown).ok(); n_checked += 1;
                if back.and_then(|s| s.to_nix()) != v.to_nix() { bad.push(format!("{v:?} is displayed as `{shown}`, which parses back to {back:?}")); }
            }
        } }
        for (v, num) in [(S::Hangup, 1), (S::Interrupt, 2), (S::Quit, 3), (S::ForceStop, 9), (S::User1, 10), (S::User2, 12), (S::Terminate, 15)] {
            if v.to_nix().map(|x| x as i32) != Some(num) { bad.push(format!("{v:?} does not map to POSIX number {num}")); }
            let shown = v.to_string(); if S::from_str(&shown).ok() != Some(v) { bad.push(format!("{v:?} is displayed as `{shown}`, which does not parse back to it")); }
        }
        for (text, want) in [("CTRL-CLOSE", S::Hangup), ("ctrl+close", S::Hangup), ("Close", S::Hangup), ("CTRL-BREAK", S::Terminate), ("ctrl+break", S::Terminate), ("break", S::Terminate),
                             ("CTRL-C", S::Interrupt), ("ctrl+c", S::Interrupt), ("c", S::Interrupt), ("KILL", S::ForceStop), ("sigkill", S::ForceStop), ("FORCE-STOP", S::ForceStop), ("stop", S::ForceStop)] {
            let got = S::from_str(text).ok(); n_checked += 1;
            if got != Some(want) { bad.push(format!("control name `{text}` parses to {got:?}, documented: {want:?}")); }
        }
        if bad.is_empty() { println!("RESULT names ok ({n_checked} spellings)"); } else { println!("RESULT names VIOLATED {}", bad[..bad.len().min(4)].join("; ")); std::process::exit(1); }
        return;
    }
    if bad.is_empty() { println!("RESULT nix_table ok ({valid} signals)"); } else { println!("RESULT nix_table VIOLATED {}", bad.join("; ")); std::process::exit(1); }
}
