#!/usr/bin/env python3
"""Bounded end-to-end check of C18 on the REAL watchexec binary: what argv the child (or the shell) actually receives.
Builds the binary from $VERIF_REPO (default /repo). The child is a tiny script that writes its arguments, NUL-separated, to a file.
Prints `RESULT cli_argv ok|VIOLATED <detail>`; exit 0 / 1 (2 = harness problem)."""
import os, subprocess, sys, tempfile, time, shutil, signal, stat
REPO = os.environ.get("VERIF_REPO", "/repo")
here = os.path.dirname(os.path.abspath(__file__))
target = os.path.join(here, "..", ".cache", "cli_target") if REPO == "/repo" else tempfile.mkdtemp(prefix="vx_cli_target_")
env = dict(os.environ, CARGO_NET_OFFLINE="true", CARGO_TARGET_DIR=target)
b = subprocess.run(["cargo", "build", "-q", "--offline", "-p", "watchexec-cli"], cwd=REPO, env=env, capture_output=True, text=True)
if b.returncode != 0:
    print("build failed:", b.stderr[-800:]); sys.exit(2)
BIN = os.path.join(target, "debug", "watchexec")
d = tempfile.mkdtemp(prefix="vx_c18_")
bad = []
try:
    out = os.path.join(d, "argv.bin")
    rec = os.path.join(d, "rec")            # records "$0-less" argv, NUL separated, then a final marker
    open(rec, "w").write('#!/bin/sh\nfor a in "$@"; do printf \'%s\\0\' "$a"; done > "$VX_OUT.tmp"; mv "$VX_OUT.tmp" "$VX_OUT"\n')
    os.chmod(rec, os.stat(rec).st_mode | stat.S_IXUSR)
    home = os.path.join(d, "home"); os.makedirs(home); watch = os.path.join(d, "w"); os.makedirs(watch)
    rec2 = os.path.join(d, "rec2")          # the same recorder under another name, used as $SHELL: it marks what it records
    open(rec2, "w").write('#!/bin/sh\n{ printf \'%s\\0\' "<<invoked as $SHELL>>"; for a in "$@"; do printf \'%s\\0\' "$a"; done; } > "$VX_OUT.tmp"; mv "$VX_OUT.tmp" "$VX_OUT"\n')
    os.chmod(rec2, os.stat(rec2).st_mode | stat.S_IXUSR)
    def run(flags, command, shell_env=None):
        if os.path.exists(out): os.remove(out)
        e2 = dict(os.environ, HOME=home, XDG_CONFIG_HOME=os.path.join(home, ".config"), VX_OUT=out)
        e2.pop("SHELL", None)
        if shell_env: e2["SHELL"] = shell_env
        p = subprocess.Popen([BIN, "-w", watch, "--project-origin", watch] + flags + ["--"] + command, cwd=d, env=e2, stdout=subprocess.DEVNULL, stderr=subprocess.DEVNULL)
        t = time.time() + 20
        while time.time() < t and not os.path.exists(out): time.sleep(0.05)
        p.send_signal(signal.SIGKILL); p.wait()
        if not os.path.exists(out): return None
        raw = open(out, "rb").read()
        return [x.decode("utf-8", "surrogateescape") for x in raw.split(b"\0")[:-1]]
    awkward = ["", " ", "a b", "'q'", '"dq"', "$HOME", "*", "a\nb", "héllo wörld", "-n", "--", "\\", "$(id)", ";", "a  b", "@x", "@", "@two words", "mid@dle"]
    # 1. no shell: every argument byte for byte, for every list of up to 2 awkward arguments and the whole list at once
    lists = [[]] + [[a] for a in awkward] + [[a, b] for a in awkward[:6] for b in awkward[:6]] + [awkward]
    for flags in (["-n"], ["--shell=none"]):
        for l in (lists if flags == ["-n"] else [[], awkward]):
            got = run(flags, [rec] + l)
            if got is None: print("harness: the command never ran (%s %r)" % (flags, l)); sys.exit(2)
            if got != l: bad.append("%s -- rec %r: the child received %r" % (" ".join(flags), l, got)); break
        if bad: break
    # 1b. an explicit --shell (none, or a program) is not overridden by $SHELL
    if not bad:
        got = run(["--shell=none"], [rec] + awkward, shell_env=rec2)
        if got is None: print("harness: the command never ran (--shell=none with $SHELL set)"); sys.exit(2)
        if got != awkward: bad.append("--shell=none with $SHELL set -- rec %r: the child received %r" % (awkward, got))
        got = run(["--shell=%s -x" % rec], ["echo", "a b"], shell_env=rec2)
        if got is None: print("harness: the shell never ran (--shell with $SHELL set)"); sys.exit(2)
        if got != ["-x", "-c", "echo a b"]: bad.append("--shell=<rec> -x with $SHELL set: the shell was invoked with %r, expected ['-x', '-c', 'echo a b']" % (got,))
    # 2. with a shell: <shell> <options..> -c "<command words joined by one space>"
    if not bad:
        for shellflag, want_opts in (("--shell=%s" % rec, []), ("--shell=%s -x  -y" % rec, ["-x", "-y"])):
            for words in (["echo"], ["echo", "a b", "$X", "*"], ["x", "", "y"]):
                got = run([shellflag], words)
                want = want_opts + ["-c", " ".join(words)]
                if got is None: print("harness: the shell never ran (%s %r)" % (shellflag, words)); sys.exit(2)
                if got != want: bad.append("%s -- %r: the shell was invoked with %r, expected %r" % (shellflag, words, got, want))
finally:
    shutil.rmtree(d, ignore_errors=True)
if REPO != "/repo": shutil.rmtree(target, ignore_errors=True)
if bad:
    print("RESULT cli_argv VIOLATED " + "; ".join(bad[:3])); sys.exit(1)
print("RESULT cli_argv ok"); sys.exit(0)
