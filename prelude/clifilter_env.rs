// Environment stand-ins for unit `clifilter` (crates/cli/src/dirs.rs::ignores tail, crates/cli/src/filterer.rs head, args normalise head).
#[derive(Clone, Copy, PartialEq, Eq, Structural)]
pub struct PathS { pub id: int }
pub uninterp spec fn under(p: PathS, origin: PathS) -> bool;    // Path::starts_with
impl PathS {
    #[verifier::external_body]
    pub fn starts_with(&self, base: &PathS) -> (r: bool) ensures r == under(*self, *base) { unimplemented!() }
    pub fn clone(&self) -> (r: PathS) ensures r == *self { *self }
}
// args (only the fields the code under contract reads)
pub struct FilteringArgs {
    pub ignore_files: Vec<PathS>,
    pub no_project_ignore: bool, pub no_global_ignore: bool, pub no_vcs_ignore: bool,
    pub no_default_ignore: bool, pub no_discover_ignore: bool, pub ignore_nothing: bool,
}
pub struct Args { pub filtering: FilteringArgs }
pub struct Report;   // miette::Report
// R10d stand-ins: sequence-level specs for the iterator adapter idioms; closures come with a ghost twin (spec_fn) spliced by the overlay
#[verifier::external_body]
pub fn vfilter<F: Fn(&IgnoreFile) -> bool>(xs: Vec<IgnoreFile>, c: F, Ghost(p): Ghost<spec_fn(IgnoreFile) -> bool>) -> (r: Vec<IgnoreFile>)
    requires forall|x: IgnoreFile| c.requires((&x,)), forall|x: IgnoreFile, b: bool| c.ensures((&x,), b) ==> b == p(x),
    ensures r@ == xs@.filter(p), forall|x: IgnoreFile| #[trigger] r@.contains(x) <==> (xs@.contains(x) && p(x)),
{ unimplemented!() }
pub struct FilterIter { pub v: Ghost<Seq<IgnoreFile>> }
#[verifier::external_body]
pub fn vfilter_iter<F: Fn(&IgnoreFile) -> bool>(xs: Vec<IgnoreFile>, c: F, Ghost(p): Ghost<spec_fn(IgnoreFile) -> bool>) -> (r: FilterIter)
    requires forall|x: IgnoreFile| c.requires((&x,)), forall|x: IgnoreFile, b: bool| c.ensures((&x,), b) ==> b == p(x),
    ensures r.v@ == xs@.filter(p), forall|x: IgnoreFile| #[trigger] r.v@.contains(x) <==> (xs@.contains(x) && p(x)),
{ unimplemented!() }
#[verifier::external_body]
pub fn vmap<F: Fn(&PathS) -> IgnoreFile>(xs: &Vec<PathS>, c: F, Ghost(f): Ghost<spec_fn(PathS) -> IgnoreFile>) -> (r: FilterIter)
    requires forall|x: PathS| c.requires((&x,)), forall|x: PathS, y: IgnoreFile| c.ensures((&x,), y) ==> y == f(x),
    ensures r.v@ == xs@.map_values(f),
{ unimplemented!() }
pub trait IntoSeq { spec fn items(&self) -> Seq<IgnoreFile>; }
impl IntoSeq for FilterIter { open spec fn items(&self) -> Seq<IgnoreFile> { self.v@ } }
impl IntoSeq for Vec<IgnoreFile> { open spec fn items(&self) -> Seq<IgnoreFile> { self@ } }
#[verifier::external_body]
pub fn vextend_raw<I: IntoSeq>(xs: &mut Vec<IgnoreFile>, it: I)
    ensures final(xs)@ == old(xs)@ + it.items(),
{ unimplemented!() }
// proved wrapper: membership characterisation of the concatenation
pub fn vextend<I: IntoSeq>(xs: &mut Vec<IgnoreFile>, it: I)
    ensures final(xs)@ == old(xs)@ + it.items(),
        forall|x: IgnoreFile| #[trigger] final(xs)@.contains(x) <==> (old(xs)@.contains(x) || it.items().contains(x)),
{
    let ghost items = it.items();
    vextend_raw(xs, it);
    proof {
        assert forall|x: IgnoreFile| #[trigger] xs@.contains(x) <==> (old(xs)@.contains(x) || items.contains(x)) by {
            if xs@.contains(x) {
                let i = choose|i: int| 0 <= i < xs@.len() && xs@[i] == x;
                if i < old(xs)@.len() { assert(old(xs)@[i] == x); } else { assert(items[i - old(xs)@.len()] == x); }
            }
            if old(xs)@.contains(x) { let i = choose|i: int| 0 <= i < old(xs)@.len() && old(xs)@[i] == x; assert(xs@[i] == x); }
            if items.contains(x) { let i = choose|i: int| 0 <= i < items.len() && items[i] == x; assert(xs@[old(xs)@.len() + i] == x); }
        }
    }
}
// slice::contains on the effective VCS types
pub assume_specification<T: PartialEq> [<[T]>::contains] (s: &[T], x: &T) -> (r: bool)
    ensures r == s@.contains(*x);

impl FilterIter {
    #[verifier::external_body]
    pub fn collect(self) -> (r: Vec<IgnoreFile>) ensures r@ == self.v@ { unimplemented!() }
}
pub fn vx_id<T>(x: T) -> (r: T) ensures r == x { x }
// crate::dirs::vcs_types(origin): project_origins::types filtered by is_vcs (C20); its value does not matter here
#[verifier::external_body]
pub fn vcs_types(origin: &PathS) -> (r: Vec<ProjectType>) { unimplemented!() }
// crate::dirs::ignores(args, vcs_types): head (discovery: ignore_files::from_origin / from_environment, not extracted) followed by the tail
// verified as `ignores_tail`; the function's result is the tail's result, so the tail's guarantee about explicit files is the function's
#[verifier::external_body]
pub fn ignores(args: &Args, vcs_types: &Vec<ProjectType>) -> (r: Result<Vec<IgnoreFile>, Report>)
    ensures r is Ok ==> forall|x: IgnoreFile| explicit_files(args).contains(x) ==> #[trigger] r->Ok_0@.contains(x),
{ unimplemented!() }
// ProjectType::is_vcs (crates/project-origins; proved against the documented table in unit origins, C20): an arbitrary fixed classification here
impl ProjectType {
    #[verifier::external_body]
    pub fn is_vcs(self) -> (r: bool) ensures r == doc_is_vcs(self) { unimplemented!() }
}
