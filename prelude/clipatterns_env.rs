// Environment stand-ins for unit `clipatterns` (crates/cli/src/filterer.rs: the pattern lists WatchexecFilterer::new hands to GlobsetFilterer::new).
#[derive(Clone, Copy, PartialEq, Eq, Structural)]
pub struct PathS { pub id: int }
impl PathS { pub fn clone(&self) -> (r: PathS) ensures r == *self { *self } }
// a String, identified by its text
#[derive(Clone, Copy, PartialEq, Eq, Structural)]
pub struct StrS { pub id: int }
impl StrS { pub fn to_owned(&self) -> (r: StrS) ensures r == *self { *self } }
pub uninterp spec fn lit_of(s: Seq<char>) -> StrS;   // String::from("...")
pub uninterp spec fn fmt_of(s: Seq<char>) -> StrS;   // format!("...") with MAIN_SEPARATOR spliced in
#[verifier::external_body]
pub fn vx_str(s: &str) -> (r: StrS) ensures r == lit_of(s@) { unimplemented!() }
#[verifier::external_body]
pub fn vx_fmt(s: &str) -> (r: StrS) ensures r == fmt_of(s@) { unimplemented!() }
// args (only the fields the code under contract reads)
pub struct FilteringArgs {
    pub filter_patterns: Vec<StrS>, pub ignore_patterns: Vec<StrS>, pub filter_files: Vec<PathS>,
    pub no_project_ignore: bool, pub no_global_ignore: bool, pub no_vcs_ignore: bool,
    pub no_default_ignore: bool, pub no_discover_ignore: bool, pub ignore_nothing: bool,
}
pub struct Args { pub filtering: FilteringArgs }
pub struct Report;   // miette::Report
// a pattern with the directory it is relative to
pub type Pat = (StrS, Option<PathS>);
pub struct MapIter { pub v: Ghost<Seq<Pat>> }
#[verifier::external_body]
pub fn vmap<F: Fn(&StrS) -> Pat>(xs: &Vec<StrS>, c: F, Ghost(f): Ghost<spec_fn(StrS) -> Pat>) -> (r: MapIter)
    requires forall|x: StrS| c.requires((&x,)), forall|x: StrS, y: Pat| c.ensures((&x,), y) ==> y == f(x),
    ensures r.v@ == xs@.map_values(f),
{ unimplemented!() }
impl MapIter {
    #[verifier::external_body]
    pub fn collect(self) -> (r: Vec<Pat>) ensures r@ == self.v@ { unimplemented!() }
}
pub trait IntoSeq { spec fn items(&self) -> Seq<Pat>; }
impl IntoSeq for MapIter { open spec fn items(&self) -> Seq<Pat> { self.v@ } }
impl IntoSeq for Vec<Pat> { open spec fn items(&self) -> Seq<Pat> { self@ } }
impl<const N: usize> IntoSeq for [Pat; N] { open spec fn items(&self) -> Seq<Pat> { self@ } }
#[verifier::external_body]
pub fn vextend<I: IntoSeq>(xs: &mut Vec<Pat>, it: I)
    ensures final(xs)@ == old(xs)@ + it.items(),
{ unimplemented!() }
// read_filter_file(path): the patterns of one --filter-file (the file system is a fixed function during construction; reading may fail)
pub uninterp spec fn file_patterns(p: PathS) -> Seq<Pat>;
#[verifier::external_body]
pub fn read_filter_file(path: &PathS) -> (r: Result<Vec<Pat>, Report>)
    ensures r is Ok ==> r->Ok_0@ == file_patterns(*path),
{ unimplemented!() }
pub fn vx_id<T>(x: T) -> (r: T) ensures r == x { x }
// `for x in &v` desugared (R16): the elements of the vector in order
pub struct VxIter<T> { pub v: Ghost<Seq<T>>, pub pos: Ghost<int> }
#[verifier::external_body]
pub fn vx_into_iter<T: Copy>(v: &Vec<T>) -> (r: VxIter<T>) ensures r.v@ == v@, r.pos@ == 0 { unimplemented!() }
impl<T: Copy> VxIter<T> {
    #[verifier::external_body]
    pub fn vx_next(&mut self) -> (r: Option<&T>)
        requires 0 <= old(self).pos@ <= old(self).v@.len(),
        ensures final(self).v == old(self).v,
            old(self).pos@ < old(self).v@.len() ==> r is Some && *r->Some_0 == old(self).v@[old(self).pos@] && final(self).pos@ == old(self).pos@ + 1,
            old(self).pos@ >= old(self).v@.len() ==> r is None && final(self).pos == old(self).pos,
    { unimplemented!() }
}
