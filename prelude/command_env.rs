// Environment stand-ins for unit `command` (crates/supervisor/src/command/conversions.rs). TRUSTED BASE.
// Every string-like value (PathBuf, String, Cow<OsStr>) is an opaque OsS: the code under contract never inspects string contents,
// so "byte for byte" is identity of these values.
pub struct OsS { pub id: int }
impl Clone for OsS {
    #[verifier::external_body]
    fn clone(&self) -> (r: OsS) ensures r.id == self.id { unimplemented!() }
}
pub open spec fn ids(s: Seq<OsS>) -> Seq<int> { s.map_values(|x: OsS| x.id) }
// anything accepted where tokio::process::Command takes `impl AsRef<OsStr>` / an iterator of such
pub trait AsOs { spec fn os(&self) -> int; }
impl AsOs for OsS { open spec fn os(&self) -> int { self.id } }
impl AsOs for &OsS { open spec fn os(&self) -> int { self.id } }
pub trait AsOsSeq { spec fn oss(&self) -> Seq<int>; }
impl AsOsSeq for Vec<OsS> { open spec fn oss(&self) -> Seq<int> { ids(self@) } }
impl AsOsSeq for &Vec<OsS> { open spec fn oss(&self) -> Seq<int> { ids(self@) } }
// tokio::process::Command: records the argument vector handed to execvp (ASSUMED: passed byte for byte, argv[0] = program)
pub struct TokioCommand { pub argv: Ghost<Seq<int>> }
impl TokioCommand {
    #[verifier::external_body]
    pub fn new<P: AsOs>(program: P) -> (r: TokioCommand) ensures r.argv@ == seq![program.os()] { unimplemented!() }
    #[verifier::external_body]
    pub fn arg<A: AsOs>(&mut self, a: A) ensures final(self).argv@ == old(self).argv@.push(a.os()) { unimplemented!() }
    #[verifier::external_body]
    pub fn args<A: AsOsSeq>(&mut self, a: A) ensures final(self).argv@ == old(self).argv@ + a.oss() { unimplemented!() }
}
// process-wrap: wrappers are applied in the order they are added (ASSUMED: each does what its name says)
#[derive(PartialEq, Eq, Structural)]
pub enum WrapKind { KillOnDrop, ProcessSession, ProcessGroupLeader, ResetSigmask }
pub trait Wrapper { spec fn kind(&self) -> WrapKind; }
pub struct KillOnDrop;
pub struct ProcessSession;
pub struct ProcessGroup;
pub struct ResetSigmask;
impl Wrapper for KillOnDrop { open spec fn kind(&self) -> WrapKind { WrapKind::KillOnDrop } }
impl Wrapper for ProcessSession { open spec fn kind(&self) -> WrapKind { WrapKind::ProcessSession } }
impl Wrapper for ProcessGroup { open spec fn kind(&self) -> WrapKind { WrapKind::ProcessGroupLeader } }
impl Wrapper for ResetSigmask { open spec fn kind(&self) -> WrapKind { WrapKind::ResetSigmask } }
impl ProcessGroup {
    #[verifier::external_body]
    pub fn leader() -> ProcessGroup { unimplemented!() }
}
pub struct TokioCommandWrap { pub argv: Ghost<Seq<int>>, pub wrappers: Ghost<Seq<WrapKind>> }
impl TokioCommandWrap {
    #[verifier::external_body]
    pub fn from(c: TokioCommand) -> (r: TokioCommandWrap) ensures r.argv@ == c.argv@, r.wrappers@ == Seq::<WrapKind>::empty() { unimplemented!() }
    #[verifier::external_body]
    pub fn wrap<W: Wrapper>(&mut self, w: W) ensures final(self).argv == old(self).argv, final(self).wrappers@ == old(self).wrappers@.push(w.kind()) { unimplemented!() }
}

// ---- CLI side (crates/cli/src/config.rs::interpret_command_args, tail) ----
pub struct CommandArgs { pub wrap_process: WrapMode, pub no_shell: bool }
pub struct Args { pub command: CommandArgs }
pub uninterp spec fn joined_with_space(parts: Seq<int>) -> int;     // Vec<String>::join(" ")
#[verifier::external_body]
pub fn vx_join_space(v: &Vec<OsS>) -> (r: OsS) ensures r.id == joined_with_space(ids(v@)) { unimplemented!() }
pub fn vx_arc<T>(x: T) -> (r: T) ensures r == x { x }   // Arc::new
