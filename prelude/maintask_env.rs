// Environment stand-ins for unit `maintask` (crates/lib/src/watchexec.rs: the main task's supervision loop). TRUSTED BASE.
pub enum CriticalError { Exit, Other { id: int } }
pub struct JoinError;
// the name a worker future resolves to (`.map_ok(|()| "action")` etc.)
pub struct TaskName { pub action: bool }
impl TaskName { pub fn is_action(&self) -> (r: bool) ensures r == self.action { self.action } }
pub enum MAct { Joined(Result<TaskName, CriticalError>), CloseEvents, Shutdown }
pub struct MEnv { pub log: Ghost<Seq<MAct>>, pub action_ended: Ghost<bool>, pub events_closed: Ghost<bool>, pub shut_down: Ghost<bool>,
    pub crit_seen: Ghost<bool>,      // a worker has ended with a critical error other than the graceful-exit request
    pub exit_seen: Ghost<bool> }     // a worker has ended with the graceful-exit request (CriticalError::Exit)
// tokio::task::JoinSet of the five workers
pub struct JoinSetS;
impl JoinSetS {
    // join_next().await: the next worker to end (its result), None when none is left, Some(Err) if a worker panicked
    #[verifier::external_body]
    pub fn join_next(&mut self, env: &mut MEnv) -> (r: Option<Result<Result<TaskName, CriticalError>, JoinError>>)
        ensures final(env).events_closed == old(env).events_closed, final(env).shut_down == old(env).shut_down,
            r matches Some(Ok(res)) ==> final(env).action_ended@ == (old(env).action_ended@ || (res is Ok && res->Ok_0.action)),
            r matches Some(Ok(res)) ==> final(env).crit_seen@ == (old(env).crit_seen@ || (res is Err && !(res->Err_0 is Exit))),
            r matches Some(Ok(res)) ==> final(env).exit_seen@ == (old(env).exit_seen@ || (res is Err && res->Err_0 is Exit)),
            !(r matches Some(Ok(_))) ==> final(env).exit_seen == old(env).exit_seen,
            !(r matches Some(Ok(_))) ==> final(env).crit_seen == old(env).crit_seen,
            !(r matches Some(Ok(_))) ==> final(env).action_ended == old(env).action_ended,
    { unimplemented!() }
    // shutdown().await: aborts every remaining worker and waits for them
    #[verifier::external_body]
    pub fn shutdown(&mut self, env: &mut MEnv)
        ensures final(env).shut_down@, final(env).action_ended == old(env).action_ended, final(env).events_closed == old(env).events_closed, final(env).crit_seen == old(env).crit_seen, final(env).exit_seen == old(env).exit_seen { unimplemented!() }
}
pub struct EvTx;
impl EvTx {
    // closing the event queue makes throttle_collect return Ok(None): the action worker ends
    #[verifier::external_body]
    pub fn close(&self, env: &mut MEnv) -> (r: bool)
        ensures final(env).events_closed@, final(env).action_ended == old(env).action_ended, final(env).shut_down == old(env).shut_down, final(env).crit_seen == old(env).crit_seen, final(env).exit_seen == old(env).exit_seen { unimplemented!() }
}
