// Environment stand-ins for unit `worker` (crates/lib/src/action/worker.rs). TRUSTED BASE.
pub struct Event { pub id: int, pub empty: bool }   // Event::is_empty() == tags.is_empty()
impl Event {
    #[verifier::external_body]
    pub fn is_empty(&self) -> (r: bool) ensures r == self.empty { unimplemented!() }
}
pub struct RuntimeError { pub id: int }
pub struct SendErr;
pub struct RecvErr;
pub struct Elapsed;
pub enum CriticalError { Exit, ErrorChannelSend, Other }
// `?` on errors.send(..): CriticalError: From<mpsc::error::SendError<RuntimeError>> (thiserror #[from])
#[verifier::external_body]
pub fn vx_from(e: SendErr) -> (r: CriticalError) ensures r is ErrorChannelSend { unimplemented!() }

pub enum Verdict { Pass, Reject, Fail { err: int } }
pub struct Msg { pub ev: Event, pub prio: Priority, pub t: nat }   // t: when the worker received it

pub struct WEnv {
    pub now: Ghost<nat>,                       // virtual clock; only blocking operations let time pass
    pub recvd: Ghost<Seq<Msg>>,                // messages popped from the event queue, in order
    pub verdicts: Ghost<Map<int, Verdict>>,    // index into recvd -> what the (arbitrary, possibly changing) filterer answered
    pub filter_calls: Ghost<Seq<int>>,         // indices into recvd for which the filterer was called, in order
    pub errs: Ghost<Seq<int>>,                 // runtime errors sent to the error channel, in order
    pub throttle_const: Ghost<Option<nat>>,    // Some(T) if the configured throttle does not change during the call
    pub closed: Ghost<bool>,                   // event channel observed closed
    pub last_now: Ghost<nat>,                  // value returned by the latest Instant::now()
    pub mark: Ghost<int>,                      // recvd length when the current batch collection started
    pub slack: Ghost<nat>,                     // time spent so far inside the filterer, in error-channel sends and in timers firing late
    pub slack_mark: Ghost<nat>,                // value of `slack` when the current batch collection started (set like `mark`)
}
pub open spec fn same_but_time(a: &WEnv, b: &WEnv) -> bool {
    &&& b.now@ >= a.now@
    &&& b.recvd == a.recvd && b.verdicts == a.verdicts && b.filter_calls == a.filter_calls && b.errs == a.errs
    &&& b.throttle_const == a.throttle_const && b.last_now == a.last_now && b.mark == a.mark
    &&& b.slack_mark == a.slack_mark && b.slack@ == a.slack@ + (b.now@ - a.now@)
}
pub open spec fn same_now(a: &WEnv, b: &WEnv) -> bool { same_but_time(a, b) && b.now == a.now && b.closed == a.closed }

#[derive(Clone, Copy)]
pub struct Instant { pub t: nat }
// Duration::from_secs(u64::MAX) is used as "forever": modelled as an infinite duration
#[derive(Clone, Copy)]
pub struct Duration { pub ns: nat, pub inf: bool }
impl Instant {
    #[verifier::external_body]
    pub fn now(env: &mut WEnv) -> (r: Instant)
        ensures r.t == old(env).now@, final(env).last_now@ == old(env).now@, final(env).now == old(env).now, final(env).closed == old(env).closed,
            final(env).recvd == old(env).recvd && final(env).verdicts == old(env).verdicts && final(env).filter_calls == old(env).filter_calls && final(env).errs == old(env).errs
            && final(env).throttle_const == old(env).throttle_const && final(env).mark == old(env).mark,
            final(env).slack == old(env).slack, final(env).slack_mark == old(env).slack_mark,
    { unimplemented!() }
    #[verifier::external_body]
    pub fn elapsed(&self, env: &mut WEnv) -> (r: Duration)
        requires self.t <= old(env).now@,
        ensures same_now(old(env), final(env)), !r.inf, r.ns == old(env).now@ - self.t
    { unimplemented!() }
}
pub spec const U64_MAX_SECS: u64 = u64::MAX;
impl Duration {
    #[verifier::external_body]
    pub fn from_secs(s: u64) -> (r: Duration) ensures s == u64::MAX ==> r.inf, s != u64::MAX ==> !r.inf && r.ns == s as nat * 1_000_000_000 { unimplemented!() }
    pub open spec fn is_zero_spec(&self) -> bool { !self.inf && self.ns == 0 }
    #[verifier::external_body]
    pub fn is_zero(&self) -> (r: bool) ensures r == self.is_zero_spec() { unimplemented!() }
    // whole milliseconds / microseconds, rounded down (std); the infinite stand-in for Duration::from_secs(u64::MAX) is never zero
    #[verifier::external_body]
    pub fn as_millis(&self) -> (r: u128) ensures !self.inf ==> r as nat == self.ns / 1_000_000, self.inf ==> r > 0 { unimplemented!() }
    #[verifier::external_body]
    pub fn as_micros(&self) -> (r: u128) ensures !self.inf ==> r as nat == self.ns / 1_000, self.inf ==> r > 0 { unimplemented!() }
    #[verifier::external_body]
    pub fn as_secs(&self) -> (r: u64) ensures !self.inf ==> r as nat == self.ns / 1_000_000_000, self.inf ==> r > 0 { unimplemented!() }
    #[verifier::external_body]
    pub fn saturating_sub(self, o: Duration) -> (r: Duration)
        requires !self.inf, !o.inf
        ensures !r.inf, r.ns == (if self.ns >= o.ns { self.ns - o.ns } else { 0 }) as nat
    { unimplemented!() }
}
impl vstd::std_specs::cmp::PartialOrdSpecImpl for Duration {
    open spec fn obeys_partial_cmp_spec() -> bool { true }
    open spec fn partial_cmp_spec(&self, other: &Duration) -> Option<core::cmp::Ordering> {
        if self.inf || other.inf { None } else if self.ns < other.ns { Some(core::cmp::Ordering::Less) } else if self.ns == other.ns { Some(core::cmp::Ordering::Equal) } else { Some(core::cmp::Ordering::Greater) }
    }
}
impl vstd::std_specs::cmp::PartialEqSpecImpl for Duration {
    open spec fn obeys_eq_spec() -> bool { true }
    open spec fn eq_spec(&self, other: &Duration) -> bool { self.inf == other.inf && self.ns == other.ns }
}
impl PartialEq for Duration { #[verifier::external_body] fn eq(&self, o: &Duration) -> bool { unimplemented!() } }
impl PartialOrd for Duration { #[verifier::external_body] fn partial_cmp(&self, o: &Duration) -> Option<core::cmp::Ordering> { unimplemented!() } }

// config.throttle: Changeable<Duration>
pub struct Throttle;
impl Throttle {
    #[verifier::external_body]
    pub fn get(&self, env: &mut WEnv) -> (r: Duration)
        ensures same_now(old(env), final(env)), !r.inf, old(env).throttle_const@ is Some ==> r.ns == old(env).throttle_const@->Some_0,
    { unimplemented!() }
}
// config.filterer: arbitrary user code, may take time, may change between calls; its answer is recorded
pub struct FiltererS;
impl FiltererS {
    #[verifier::external_body]
    pub fn check_event_raw(&self, event: &Event, priority: Priority, env: &mut WEnv) -> (r: Result<bool, RuntimeError>)
        requires old(env).recvd@.len() > 0, old(env).recvd@.last().ev.id == event.id,
        ensures
            final(env).now@ >= old(env).now@, final(env).recvd == old(env).recvd, final(env).errs == old(env).errs,
            final(env).throttle_const == old(env).throttle_const, final(env).closed == old(env).closed, final(env).last_now == old(env).last_now, final(env).mark == old(env).mark,
            final(env).slack_mark == old(env).slack_mark, final(env).slack@ == old(env).slack@ + (final(env).now@ - old(env).now@),
            final(env).filter_calls@ == old(env).filter_calls@.push(old(env).recvd@.len() - 1),
            final(env).verdicts@ == old(env).verdicts@.insert(old(env).recvd@.len() - 1,
                match r { Ok(true) => Verdict::Pass, Ok(false) => Verdict::Reject, Err(e) => Verdict::Fail { err: e.id } }),
    { unimplemented!() }
}
pub struct Config { pub throttle: Throttle, pub filterer: FiltererS }

// async_priority_channel::Receiver<Event, Priority>: ASSUMED highest-priority-first then FIFO, each message delivered once
pub struct EvRx;
pub struct RecvFut;
impl EvRx {
    #[verifier::external_body]
    pub fn is_closed(&self, env: &mut WEnv) -> (r: bool)
        ensures same_but_time(old(env), final(env)), final(env).now == old(env).now, r == final(env).closed@, old(env).closed@ ==> final(env).closed@
    { unimplemented!() }
    pub fn recv(&self) -> (r: RecvFut) { RecvFut }
}
// mpsc::Sender<RuntimeError>
pub struct ErrTx;
impl ErrTx {
    #[verifier::external_body]
    pub fn send(&self, e: RuntimeError, env: &mut WEnv) -> (r: Result<(), SendErr>)
        ensures final(env).now@ >= old(env).now@, final(env).recvd == old(env).recvd, final(env).verdicts == old(env).verdicts,
            final(env).slack_mark == old(env).slack_mark, final(env).slack@ == old(env).slack@ + (final(env).now@ - old(env).now@),
            final(env).filter_calls == old(env).filter_calls, final(env).throttle_const == old(env).throttle_const, final(env).closed == old(env).closed,
            final(env).last_now == old(env).last_now, final(env).mark == old(env).mark,
            r is Ok ==> final(env).errs@ == old(env).errs@.push(e.id),
            r is Err ==> final(env).errs == old(env).errs,
    { unimplemented!() }
}
// mpsc::error::{TrySendError, SendError} and Sender::try_send: not used by the worker today; present so that a change to a non-blocking send is
// decided (an error refused because the queue is full is NOT delivered) instead of falling outside the subset
pub enum TrySendError<T> { Full(T), Closed(T) }
pub struct SendError<T>(pub T);
impl<T> SendError<T> {
    #[verifier::external_body]
    pub fn into(self) -> (r: CriticalError) ensures r is ErrorChannelSend { unimplemented!() }
}
impl ErrTx {
    #[verifier::external_body]
    pub fn try_send(&self, e: RuntimeError, env: &mut WEnv) -> (r: Result<(), TrySendError<RuntimeError>>)
        ensures final(env).now == old(env).now, final(env).recvd == old(env).recvd, final(env).verdicts == old(env).verdicts,
            final(env).slack_mark == old(env).slack_mark, final(env).slack == old(env).slack,
            final(env).filter_calls == old(env).filter_calls, final(env).throttle_const == old(env).throttle_const, final(env).closed == old(env).closed,
            final(env).last_now == old(env).last_now, final(env).mark == old(env).mark,
            r is Ok ==> final(env).errs@ == old(env).errs@.push(e.id),
            r is Err ==> final(env).errs == old(env).errs,
    { unimplemented!() }
}
// tokio::time::timeout(maxtime, events.recv()): Ok(Ok(msg)) = a message was received at the return time, no later than maxtime after the
// call; Err(Elapsed) = maxtime passed without a message; Ok(Err) = channel closed and empty
#[verifier::external_body]
pub fn timeout_raw(maxtime: Duration, fut: RecvFut, env: &mut WEnv) -> (r: Result<Result<(Event, Priority), RecvErr>, Elapsed>)
    ensures
        final(env).now@ >= old(env).now@, final(env).verdicts == old(env).verdicts, final(env).filter_calls == old(env).filter_calls,
        final(env).errs == old(env).errs, final(env).throttle_const == old(env).throttle_const, final(env).last_now == old(env).last_now, final(env).mark == old(env).mark,
        match r {
            Ok(Ok((e, p))) => final(env).recvd@ == old(env).recvd@.push(Msg { ev: e, prio: p, t: final(env).now@ })
                               && (!maxtime.inf ==> final(env).now@ <= old(env).now@ + maxtime.ns) && final(env).slack == old(env).slack,
            // (async_priority_channel: recv fails only on a closed, drained channel)
            Ok(Err(_)) => final(env).recvd == old(env).recvd && final(env).closed@,
            // the timer fires no earlier than asked; how much later is counted as slack
            Err(_) => final(env).recvd == old(env).recvd && !maxtime.inf && final(env).now@ >= old(env).now@ + maxtime.ns
                      && final(env).slack@ == old(env).slack@ + (final(env).now@ - (old(env).now@ + maxtime.ns)),
        },
        final(env).slack_mark == old(env).slack_mark,
{ unimplemented!() }
#[verifier::external_body]
pub fn vx_unreachable<T>() -> T requires false { unimplemented!() }
