// Environment stand-ins for unit `names` (crates/signals/src/lib.rs: name parsing and display). TRUSTED BASE.
// Strings are abstract values; only the operations the code uses are modelled: comparison with interned literals, ASCII upper-casing,
// the "SIG" prefix, decimal parsing/printing. STRING THEORY axioms below are about those operations.
#[derive(Clone, Copy, PartialEq, Eq, Structural)]
pub struct StrS { pub id: int }
pub uninterp spec fn upper(s: StrS) -> StrS;                 // str::to_ascii_uppercase
pub uninterp spec fn sig_prefixed(s: StrS) -> StrS;          // format!("SIG{}", s)
pub uninterp spec fn strip_sig(s: StrS) -> Option<StrS>;     // str::strip_prefix("SIG") (case-sensitive)
pub uninterp spec fn parse_i32(s: StrS) -> Option<i32>;      // i32::from_str
pub uninterp spec fn num_str(n: i32) -> StrS;                // format!("{n}")
pub uninterp spec fn lit(id: int) -> StrS;                   // a string literal (interned by the extractor, R9)
// distinct string literals are distinct strings (their interned ids are the hashes of their contents)
#[verifier::external_body]
pub broadcast proof fn axiom_lit_injective(a: int, b: int) ensures #[trigger] lit(a) == #[trigger] lit(b) ==> a == b {}
#[verifier::external_body]
pub broadcast proof fn axiom_upper_idempotent(s: StrS) ensures #[trigger] upper(upper(s)) == upper(s) {}
#[verifier::external_body]
pub broadcast proof fn axiom_upper_keeps_numbers(s: StrS) ensures #[trigger] parse_i32(upper(s)) == parse_i32(s), parse_i32(s) is Some ==> upper(s) == s {}
#[verifier::external_body]
pub broadcast proof fn axiom_num_str(n: i32) ensures #[trigger] parse_i32(num_str(n)) == Some(n) {}
#[verifier::external_body]
pub broadcast proof fn axiom_strip_sig(s: StrS) ensures #[trigger] strip_sig(sig_prefixed(s)) == Some(s) {}
impl StrS {
    #[verifier::external_body]
    pub fn lit(id: u64) -> (r: StrS) ensures r == lit(id as int) { unimplemented!() }
    #[verifier::external_body]
    pub fn to_ascii_uppercase(&self) -> (r: StrS) ensures r == upper(*self) { unimplemented!() }
    #[verifier::external_body]
    pub fn is_lit(&self, id: u64) -> (r: bool) ensures r == (*self == lit(id as int)) { unimplemented!() }
    #[verifier::external_body]
    pub fn vx_strip_sig(&self) -> (r: Option<StrS>) ensures r == strip_sig(*self) { unimplemented!() }
}
#[verifier::external_body]
pub fn vx_parse_i32(s: &StrS) -> (r: Result<i32, ()>) ensures (r is Ok) == (parse_i32(*s) is Some), r is Ok ==> r->Ok_0 == parse_i32(*s)->Some_0 { unimplemented!() }
#[verifier::external_body]
pub fn vx_sig_prefix(s: &StrS) -> (r: StrS) ensures r == sig_prefixed(*s) { unimplemented!() }
// nix::sys::signal::Signal: an abstract finite table. ASSUMED contract (validated by execution on every run, replay/nixtable):
// from_str accepts exactly the upper-case SIG-prefixed names; try_from(i32) accepts exactly the numbers; names and numbers are unique
#[derive(Clone, Copy, PartialEq, Eq, Structural)]
pub struct NixSignal { pub n: i32 }
pub uninterp spec fn nix_valid(n: i32) -> bool;              // is the number of a nix signal
pub uninterp spec fn nix_name(n: i32) -> StrS;               // "SIGHUP", ... for valid n
pub uninterp spec fn nix_short(n: i32) -> StrS;              // "HUP", ...
pub uninterp spec fn nix_from_name(s: StrS) -> Option<i32>;
#[verifier::external_body]
pub broadcast proof fn axiom_nix_names(n: i32)
    ensures #[trigger] nix_valid(n) ==> nix_from_name(nix_name(n)) == Some(n) && upper(nix_name(n)) == nix_name(n) && parse_i32(nix_name(n)) is None
        && sig_prefixed(nix_short(n)) == nix_name(n) && upper(nix_short(n)) == nix_short(n) && nix_from_name(nix_short(n)) is None && parse_i32(nix_short(n)) is None
{}
#[verifier::external_body]
pub broadcast proof fn axiom_nix_from_name(s: StrS)
    ensures (#[trigger] nix_from_name(s)) is Some ==> nix_valid(nix_from_name(s)->Some_0) && s == nix_name(nix_from_name(s)->Some_0)
{}
impl NixSignal {
    #[verifier::external_body]
    pub fn from_str(s: &StrS) -> (r: Result<NixSignal, ()>) ensures (r is Ok) == (nix_from_name(*s) is Some), r is Ok ==> r->Ok_0.n == nix_from_name(*s)->Some_0 { unimplemented!() }
    #[verifier::external_body]
    pub fn try_from(n: i32) -> (r: Result<NixSignal, ()>) ensures (r is Ok) == nix_valid(n), r is Ok ==> r->Ok_0.n == n { unimplemented!() }
}
pub struct SignalParseError;
impl SignalParseError {
    #[verifier::external_body]
    pub fn new(src: &StrS, err: StrS) -> SignalParseError { unimplemented!() }
}
// std::fmt::Formatter: records what is written
pub struct Formatter { pub out: Ghost<Seq<StrS>> }
pub struct FmtError;
impl Formatter {
    #[verifier::external_body]
    pub fn vx_write_str(&mut self, s: StrS) -> (r: Result<(), FmtError>) ensures final(self).out@ == old(self).out@.push(s), r is Ok { unimplemented!() }
    #[verifier::external_body]
    pub fn vx_write_num(&mut self, n: i32) -> (r: Result<(), FmtError>) ensures final(self).out@ == old(self).out@.push(num_str(n)), r is Ok { unimplemented!() }
}

// write!(f, "{}", s): the value is evaluated first, then written
pub fn vx_write_str_to(s: StrS, f: &mut Formatter) -> (r: Result<(), FmtError>) ensures final(f).out@ == old(f).out@.push(s), r is Ok { f.vx_write_str(s) }
