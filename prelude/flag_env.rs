// Environment stand-ins for unit `flag` (crates/supervisor/src/flag.rs). TRUSTED BASE.
// Flag::poll and Flag::raise are each treated as ATOMIC (no interleaving inside one call): the register-then-recheck race argument
// and the memory orderings are NOT verified.
pub struct FEnv {
    pub set: Ghost<bool>,                // value of Inner.set
    pub registered: Ghost<Seq<int>>,     // tasks whose wakers are in the mutex-protected list (in registration order)
    pub woken: Ghost<Set<int>>,          // tasks that have been woken
}
pub open spec fn reg_contains(s: Seq<int>, t: int) -> bool { exists|i: int| 0 <= i < s.len() && #[trigger] s[i] == t }

pub struct Ordering;
pub fn Relaxed() -> Ordering { Ordering }
pub struct AtomicBool;
impl AtomicBool {
    #[verifier::external_body]
    pub fn load(&self, o: Ordering, env: &mut FEnv) -> (r: bool) ensures r == old(env).set@, *final(env) == *old(env) { unimplemented!() }
    #[verifier::external_body]
    pub fn store(&self, v: bool, o: Ordering, env: &mut FEnv)
        ensures final(env).set@ == v, final(env).registered == old(env).registered, final(env).woken == old(env).woken { unimplemented!() }
}
// std::task::Waker / Context: a waker belongs to one task
pub struct Waker { pub task: int }
pub struct Context { pub task: int }
impl Waker {
    // will_wake may conservatively answer false for wakers of the same task
    #[verifier::external_body]
    pub fn will_wake(&self, other: &Waker) -> (r: bool) ensures r ==> self.task == other.task { unimplemented!() }
    #[verifier::external_body]
    pub fn wake(self, env: &mut FEnv)
        ensures final(env).woken@ == old(env).woken@.insert(self.task), final(env).set == old(env).set, final(env).registered == old(env).registered { unimplemented!() }
}
impl Clone for Waker {
    #[verifier::external_body]
    fn clone(&self) -> (r: Waker) ensures r.task == self.task { unimplemented!() }
}
impl Context {
    #[verifier::external_body]
    pub fn waker(&self) -> (r: &Waker) ensures r.task == self.task { unimplemented!() }
}
// Mutex<Vec<Waker>>: lock() gives exclusive access to the list; the guard's operations act on the protected list
pub struct WakerMutex;
pub struct WakerGuard;
impl WakerMutex {
    // `.lock().expect(..)`: poisoning (a panic while the lock is held) is not modelled
    #[verifier::external_body]
    pub fn vx_lock(&self, env: &mut FEnv) -> (r: WakerGuard) ensures *final(env) == *old(env) { unimplemented!() }
}
impl WakerGuard {
    // `guard.iter().any(|w| c(w))` with c's ghost twin p
    #[verifier::external_body]
    pub fn vx_iter_any<F: Fn(&Waker) -> bool>(&self, c: F, Ghost(p): Ghost<spec_fn(int) -> bool>, env: &mut FEnv) -> (r: bool)
        requires forall|w: Waker| c.requires((&w,)), forall|w: Waker, b: bool| c.ensures((&w,), b) && b ==> p(w.task),
        ensures *final(env) == *old(env), r ==> exists|i: int| 0 <= i < old(env).registered@.len() && p(#[trigger] old(env).registered@[i]),
    { unimplemented!() }
    #[verifier::external_body]
    pub fn push_raw(&mut self, w: Waker, env: &mut FEnv)
        ensures final(env).registered@ == old(env).registered@.push(w.task), final(env).set == old(env).set, final(env).woken == old(env).woken { unimplemented!() }
    // proved wrapper: membership facts about the pushed list (verified, not assumed)
    pub fn push(&mut self, w: Waker, env: &mut FEnv)
        ensures final(env).registered@ == old(env).registered@.push(w.task), final(env).set == old(env).set, final(env).woken == old(env).woken,
            reg_contains(final(env).registered@, w.task),
            forall|t: int| reg_contains(old(env).registered@, t) ==> reg_contains(final(env).registered@, t),
    {
        let ghost pre = env.registered@;
        let ghost wt = w.task;
        self.push_raw(w, env);
        proof {
            assert(env.registered@[pre.len() as int] == wt);
            assert forall|t: int| reg_contains(pre, t) implies reg_contains(env.registered@, t) by {
                let i = choose|i: int| 0 <= i < pre.len() && pre[i] == t;
                assert(env.registered@[i] == t);
            }
        }
    }
}
// `std::mem::take(&mut *guard)`: the whole list is moved out, the protected list is left empty
#[verifier::external_body]
pub fn vx_take_guard(g: WakerGuard, env: &mut FEnv) -> (r: Vec<Waker>)
    ensures r@.len() == old(env).registered@.len(), forall|i: int| #![trigger r@[i]] #![trigger old(env).registered@[i]] 0 <= i < r@.len() ==> r@[i].task == old(env).registered@[i],
        final(env).registered@.len() == 0, final(env).set == old(env).set, final(env).woken == old(env).woken,
{ unimplemented!() }
pub enum Poll<T> { Ready(T), Pending }
