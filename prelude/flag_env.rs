// Environment stand-ins for unit `flag` (crates/supervisor/src/flag.rs, Ticket::poll in job/messages.rs). TRUSTED BASE.
// Flag::poll and Flag::raise are each treated as ATOMIC (no interleaving inside one call): the register-then-recheck race argument
// and the memory orderings are NOT verified.
pub struct FEnv {
    pub set: Ghost<Map<int, bool>>,                // per flag (identity of the shared Inner): value of Inner.set
    pub registered: Ghost<Map<int, Seq<int>>>,     // per flag: tasks whose wakers are in the mutex-protected list (registration order)
    pub woken: Ghost<Set<int>>,                    // tasks that have been woken
}
pub open spec fn reg_contains(s: Seq<int>, t: int) -> bool { exists|i: int| 0 <= i < s.len() && #[trigger] s[i] == t }
pub open spec fn known(env: &FEnv, f: int) -> bool { env.set@.contains_key(f) && env.registered@.contains_key(f) }
pub open spec fn others_same(a: &FEnv, b: &FEnv, f: int) -> bool {
    forall|g: int| g != f ==> (#[trigger] a.set@.contains_key(g) == b.set@.contains_key(g)) && (a.registered@.contains_key(g) == b.registered@.contains_key(g))
        && (a.set@.contains_key(g) ==> a.set@[g] == b.set@[g]) && (a.registered@.contains_key(g) ==> a.registered@[g] == b.registered@[g])
}

pub struct Ordering;
pub fn Relaxed() -> Ordering { Ordering }
pub struct AtomicBool { pub id: int }
impl AtomicBool {
    #[verifier::external_body]
    pub fn load(&self, o: Ordering, env: &mut FEnv) -> (r: bool) requires known(old(env), self.id) ensures r == old(env).set@[self.id], *final(env) == *old(env) { unimplemented!() }
    #[verifier::external_body]
    pub fn store(&self, v: bool, o: Ordering, env: &mut FEnv)
        requires known(old(env), self.id)
        ensures final(env).set@ == old(env).set@.insert(self.id, v), final(env).registered == old(env).registered, final(env).woken == old(env).woken { unimplemented!() }
}
// std::task::Waker / Context: a waker belongs to one task
pub struct Waker { pub task: int }
pub struct Context { pub task: int }
impl Waker {
    // will_wake may conservatively answer false for wakers of the same task
    #[verifier::external_body]
    pub fn will_wake(&self, other: &Waker) -> (r: bool) ensures r ==> self.task == other.task { unimplemented!() }
    #[verifier::external_body]
    pub fn wake(self, env: &mut FEnv)
        ensures final(env).woken@ == old(env).woken@.insert(self.task), final(env).set == old(env).set, final(env).registered == old(env).registered { unimplemented!() }
}
impl Clone for Waker {
    #[verifier::external_body]
    fn clone(&self) -> (r: Waker) ensures r.task == self.task { unimplemented!() }
}
impl Context {
    #[verifier::external_body]
    pub fn waker(&self) -> (r: &Waker) ensures r.task == self.task { unimplemented!() }
}
// Mutex<Vec<Waker>>: lock() gives exclusive access to the list; the guard's operations act on the protected list
pub struct WakerMutex { pub id: int }
pub struct WakerGuard { pub id: int }
impl WakerMutex {
    // `.lock().expect(..)`: poisoning (a panic while the lock is held) is not modelled
    #[verifier::external_body]
    pub fn vx_lock(&self, env: &mut FEnv) -> (r: WakerGuard) ensures r.id == self.id, *final(env) == *old(env) { unimplemented!() }
}
impl WakerGuard {
    // `guard.iter().any(|w| c(w))` with c's ghost twin p
    #[verifier::external_body]
    pub fn vx_iter_any<F: Fn(&Waker) -> bool>(&self, c: F, Ghost(p): Ghost<spec_fn(int) -> bool>, env: &mut FEnv) -> (r: bool)
        requires known(old(env), self.id), forall|w: Waker| c.requires((&w,)), forall|w: Waker, b: bool| c.ensures((&w,), b) && b ==> p(w.task),
        ensures *final(env) == *old(env), r ==> exists|i: int| 0 <= i < old(env).registered@[self.id].len() && p(#[trigger] old(env).registered@[self.id][i]),
    { unimplemented!() }
    // `guard.iter().all(|w| c(w))` with c's ghost twin p (true on an empty list; nothing is promised when it is false)
    #[verifier::external_body]
    pub fn vx_iter_all<F: Fn(&Waker) -> bool>(&self, c: F, Ghost(p): Ghost<spec_fn(int) -> bool>, env: &mut FEnv) -> (r: bool)
        requires known(old(env), self.id), forall|w: Waker| c.requires((&w,)), forall|w: Waker, b: bool| c.ensures((&w,), b) && b ==> p(w.task),
        ensures *final(env) == *old(env), r ==> forall|i: int| 0 <= i < old(env).registered@[self.id].len() ==> p(#[trigger] old(env).registered@[self.id][i]),
    { unimplemented!() }
    #[verifier::external_body]
    pub fn push_raw(&mut self, w: Waker, env: &mut FEnv)
        requires known(old(env), old(self).id)
        ensures final(self).id == old(self).id, final(env).registered@ == old(env).registered@.insert(old(self).id, old(env).registered@[old(self).id].push(w.task)),
            final(env).set == old(env).set, final(env).woken == old(env).woken { unimplemented!() }
    // proved wrapper: membership facts about the pushed list (verified, not assumed)
    pub fn push(&mut self, w: Waker, env: &mut FEnv)
        requires known(old(env), old(self).id)
        ensures final(self).id == old(self).id, known(final(env), old(self).id), final(env).set == old(env).set, final(env).woken == old(env).woken,
            final(env).registered@ == old(env).registered@.insert(old(self).id, old(env).registered@[old(self).id].push(w.task)),
            reg_contains(final(env).registered@[old(self).id], w.task),
            forall|t: int| reg_contains(old(env).registered@[old(self).id], t) ==> reg_contains(final(env).registered@[old(self).id], t),
    {
        let ghost pre = env.registered@[self.id];
        let ghost wt = w.task;
        self.push_raw(w, env);
        proof {
            let post = env.registered@[self.id];
            assert(post[pre.len() as int] == wt);
            assert forall|t: int| reg_contains(pre, t) implies reg_contains(post, t) by {
                let i = choose|i: int| 0 <= i < pre.len() && pre[i] == t;
                assert(post[i] == t);
            }
        }
    }
}
// `std::mem::take(&mut *guard)`: the whole list is moved out, the protected list is left empty
#[verifier::external_body]
pub fn vx_take_guard(g: WakerGuard, env: &mut FEnv) -> (r: Vec<Waker>)
    requires known(old(env), g.id)
    ensures r@.len() == old(env).registered@[g.id].len(),
        forall|i: int| #![trigger r@[i]] #![trigger old(env).registered@[g.id][i]] 0 <= i < r@.len() ==> r@[i].task == old(env).registered@[g.id][i],
        final(env).registered@ == old(env).registered@.insert(g.id, Seq::<int>::empty()), final(env).set == old(env).set, final(env).woken == old(env).woken,
{ unimplemented!() }
pub enum Poll<T> { Ready(T), Pending }
