// Environment stand-ins for unit `task` (crates/supervisor/src/job). TRUSTED BASE: every external_body /
// assume_specification here is an assumed contract of code that is NOT under contract in this unit.

pub enum Act {
    Hook { inp: int, out: int, cur: CsV, prev: Option<CsV> },   // spawn hook invoked on spawnable version inp, left it as out
    Spawn { ok: bool, cid: int, ver: int },                     // spawnable version `ver` was spawned
    Kill { cid: int, ok: bool },
    Wait { cid: int, ok: bool },                                // ok: exit status collected (child reaped)
    Signal { cid: int, nix: int, ok: bool },
    ErrH,                                                       // error handler invoked
    Func { cur: CsV, prev: Option<CsV> },                       // user function invoked with this context
}

// abstract view of a CommandState
pub enum CsV { Pending, Running { cid: int, started: Instant }, Finished { status: ProcessEnd, started: Instant, finished: Instant } }

pub struct Env {
    pub now: Ghost<nat>,             // virtual monotonic clock
    pub log: Ghost<Seq<Act>>,        // effects on the outside world, in order
    pub live: Ghost<Set<int>>,       // children spawned and not yet reaped
    pub raised: Ghost<Set<int>>,     // flags raised
    pub urgent: Ghost<Seq<ControlMessage>>,     // the control messages waiting in the three queues (head = oldest)
    pub high: Ghost<Seq<ControlMessage>>,
    pub normal: Ghost<Seq<ControlMessage>>,
    pub picked: Ghost<int>,          // the queue the latest message was taken from (0 urgent 1 high 2 normal); meaningful right after a successful receive
    pub closed: Ghost<bool>,         // every sender (every Job handle) has been dropped: the three queues are closed, nothing arrives any more
}
// ASSUMPTION (tokio mpsc): once every sender is dropped the queues stay closed and nothing is appended to them
pub open spec fn closure_kept(a: &Env, b: &Env) -> bool { a.closed@ ==> b.closed@ && b.urgent@ == a.urgent@ && b.high@ == a.high@ && b.normal@ == a.normal@ }

// frame: what an environment call that only lets time pass / lets other tasks send may change
pub open spec fn is_prefix_grown(a: Seq<ControlMessage>, b: Seq<ControlMessage>) -> bool { a.len() <= b.len() && b.subrange(0, a.len() as int) == a }
pub open spec fn grows(a: &Env, b: &Env) -> bool {
    is_prefix_grown(a.urgent@, b.urgent@) && is_prefix_grown(a.high@, b.high@) && is_prefix_grown(a.normal@, b.normal@)
    && senders_kept(a, b)
}
// ASSUMPTION about the other tasks: controls reach the queues only through the `Job` methods, which send only Stop/Delete with urgent and
// only NextEnding with high priority (proved for every Job method: C10.job_*; call sites enumerated: C10.structure.*)
pub open spec fn urgent_class(c: Control) -> bool { c is Stop || c is Delete }
pub open spec fn high_class(c: Control) -> bool { c is NextEnding }
pub open spec fn senders_ok(urgent: Seq<ControlMessage>, high: Seq<ControlMessage>) -> bool {
    (forall|i: int| 0 <= i < urgent.len() ==> urgent_class(#[trigger] urgent[i].control))
    && (forall|i: int| 0 <= i < high.len() ==> high_class(#[trigger] high[i].control))
}
pub open spec fn senders_kept(a: &Env, b: &Env) -> bool { senders_ok(a.urgent@, a.high@) ==> senders_ok(b.urgent@, b.high@) }
// blocking operations (await points, syscalls, user callbacks) let time pass; non-blocking ones (Instant::now, try_recv, raise) do not
pub open spec fn arrivals_only(a: &Env, b: &Env) -> bool { b.now@ >= a.now@ && grows(a, b) }
pub open spec fn same_world(a: &Env, b: &Env) -> bool { a.log == b.log && a.live == b.live && a.raised == b.raised }
pub broadcast proof fn prefix_trans(a: Seq<ControlMessage>, b: Seq<ControlMessage>, c: Seq<ControlMessage>)
    requires #[trigger] is_prefix_grown(a, b), #[trigger] is_prefix_grown(b, c)
    ensures is_prefix_grown(a, c)
{
    assert(c.subrange(0, a.len() as int) =~= b.subrange(0, a.len() as int)) by {
        assert(c.subrange(0, b.len() as int) == b);
    }
}
pub broadcast proof fn prefix_refl(a: Seq<ControlMessage>)
    ensures #[trigger] is_prefix_grown(a, a)
{ assert(a.subrange(0, a.len() as int) =~= a); }

// ---- time -------------------------------------------------------------------------------------
// Instant/Duration arithmetic is treated as mathematical (nat nanoseconds): ASSUMPTION
#[derive(Clone, Copy)]
pub struct Instant { pub t: nat }
#[derive(Clone, Copy)]
pub struct Duration { pub d: nat }
impl Duration {
    #[verifier::external_body]
    pub fn from_secs(secs: u64) -> (r: Duration) ensures r.d == secs as nat * 1_000_000_000 { unimplemented!() }
    #[verifier::external_body]
    pub fn is_zero(&self) -> (r: bool) ensures r == (self.d == 0) { unimplemented!() }
}
impl vstd::std_specs::ops::AddSpecImpl<Duration> for Instant {
    open spec fn obeys_add_spec() -> bool { true }
    open spec fn add_req(self, rhs: Duration) -> bool { true }
    open spec fn add_spec(self, rhs: Duration) -> Instant { Instant { t: self.t + rhs.d } }
}
impl core::ops::Add<Duration> for Instant {
    type Output = Instant;
    #[verifier::external_body]
    fn add(self, rhs: Duration) -> Instant { unimplemented!() }
}
impl vstd::std_specs::cmp::PartialOrdSpecImpl for Instant {
    open spec fn obeys_partial_cmp_spec() -> bool { true }
    open spec fn partial_cmp_spec(&self, other: &Instant) -> Option<core::cmp::Ordering> {
        if self.t < other.t { Some(core::cmp::Ordering::Less) } else if self.t == other.t { Some(core::cmp::Ordering::Equal) } else { Some(core::cmp::Ordering::Greater) }
    }
}
impl vstd::std_specs::cmp::PartialEqSpecImpl for Instant {
    open spec fn obeys_eq_spec() -> bool { true }
    open spec fn eq_spec(&self, other: &Instant) -> bool { self.t == other.t }
}
impl PartialEq for Instant { #[verifier::external_body] fn eq(&self, o: &Instant) -> bool { unimplemented!() } }
impl PartialOrd for Instant { #[verifier::external_body] fn partial_cmp(&self, o: &Instant) -> Option<core::cmp::Ordering> { unimplemented!() } }
impl Instant {
    // Instant::checked_add: None only on overflow, which the mathematical model of time does not have (ASSUMPTION: machine arithmetic of Instant/Duration)
    #[verifier::external_body]
    pub fn checked_add(&self, d: Duration) -> (r: Option<Instant>) ensures r == Some(Instant { t: self.t + d.d }) { unimplemented!() }
    #[verifier::external_body]
    pub fn now(env: &mut Env) -> (r: Instant)
        ensures grows(old(env), final(env)), final(env).now == old(env).now, same_world(old(env), final(env)), r.t == final(env).now@,
    { unimplemented!() }
}

// ---- flags ------------------------------------------------------------------------------------
pub struct Flag { pub id: int }
impl Clone for Flag {
    #[verifier::external_body]
    fn clone(&self) -> (r: Flag) ensures r.id == self.id { unimplemented!() }
}
impl Flag {
    #[verifier::external_body]
    pub fn raise(&self, env: &mut Env)
        ensures final(env).raised@ == old(env).raised@.insert(self.id), final(env).log == old(env).log, final(env).live == old(env).live,
            final(env).now == old(env).now, final(env).urgent == old(env).urgent, final(env).high == old(env).high, final(env).normal == old(env).normal,
    { unimplemented!() }
    #[verifier::external_body]
    pub fn raised(&self, env: &mut Env) -> (r: bool)
        ensures r == old(env).raised@.contains(self.id), *final(env) == *old(env)
    { unimplemented!() }
    // Flag::new(value)
    #[verifier::external_body]
    pub fn new(value: bool, env: &mut Env) -> (r: Flag)
        ensures value ==> final(env).raised@ == old(env).raised@.insert(r.id), !value ==> !old(env).raised@.contains(r.id) && final(env).raised == old(env).raised,
            final(env).log == old(env).log, final(env).live == old(env).live, final(env).now == old(env).now,
            final(env).urgent == old(env).urgent, final(env).high == old(env).high, final(env).normal == old(env).normal,
    { unimplemented!() }
    // Flag::default(): a fresh, unraised flag
    #[verifier::external_body]
    pub fn default(env: &mut Env) -> (r: Flag)
        ensures !old(env).raised@.contains(r.id), *final(env) == *old(env)
    { unimplemented!() }
}

// ---- signals, exit statuses -------------------------------------------------------------------
#[derive(Clone, Copy)]
pub struct Signal { pub s: int }
#[derive(Clone, Copy)]
pub struct NixSignal { pub n: int }
pub spec const SIGTERM: int = 15;
pub uninterp spec fn nix_of(s: Signal) -> Option<int>;   // contract of Signal::to_nix (decided in unit signals/C19)
pub spec const SIGNAL_TERMINATE: Signal = Signal { s: 15 };
#[verifier::external_body]
pub broadcast proof fn axiom_terminate_to_nix()
    ensures #[trigger] nix_of(SIGNAL_TERMINATE) == Some(SIGTERM)
{}
impl Signal {
    #[verifier::external_body]
    pub fn to_nix(self) -> (r: Option<NixSignal>)
        ensures (r is Some) == (nix_of(self) is Some), r is Some ==> r->Some_0.n == nix_of(self)->Some_0
    { unimplemented!() }
    #[verifier::external_body]
    pub fn terminate() -> (r: Signal) ensures r == SIGNAL_TERMINATE { unimplemented!() }
}
impl NixSignal {
    pub fn as_i32(self) -> (r: NixSignal) ensures r == self { self }
}
pub struct IoError;
pub struct SyncIoError;
#[verifier::external_body]
pub fn sync_io_error(e: IoError) -> SyncIoError { unimplemented!() }
pub struct ExitStatus { pub raw: int }
// std::process::ExitStatus::default(): a made-up status (exit code 0), NOT the status of any reaped child
impl Default for ExitStatus { #[verifier::external_body] fn default() -> ExitStatus { unimplemented!() } }
#[derive(Clone, Copy)]
pub struct ProcessEnd { pub v: int }
pub spec const PROCESS_END_CONTINUED: ProcessEnd = ProcessEnd { v: -1 };
pub uninterp spec fn end_of(e: ExitStatus) -> ProcessEnd;   // contract of ProcessEnd::from(ExitStatus) (unit events/C19)
impl ExitStatus {
    #[verifier::external_body]
    pub fn into(self) -> (r: ProcessEnd) ensures r == end_of(self) { unimplemented!() }
}
impl ProcessEnd {
    #[verifier::external_body]
    pub fn continued() -> (r: ProcessEnd) ensures r == PROCESS_END_CONTINUED { unimplemented!() }
}

// ---- child processes (process-wrap): ASSUMED CONTRACT -----------------------------------------
pub struct Child { pub cid: int }
impl Child {
    #[verifier::external_body]
    pub fn kill(&mut self, env: &mut Env) -> (r: Result<(), IoError>)
        ensures final(self).cid == old(self).cid, final(env).now@ >= old(env).now@, senders_kept(old(env), final(env)),
            final(env).log@ == old(env).log@.push(Act::Kill { cid: old(self).cid, ok: r is Ok }),
            final(env).live == old(env).live, final(env).raised == old(env).raised,
    { unimplemented!() }
    #[verifier::external_body]
    pub fn wait(&mut self, env: &mut Env) -> (r: Result<ExitStatus, IoError>)
        ensures final(self).cid == old(self).cid, final(env).now@ >= old(env).now@, senders_kept(old(env), final(env)),
            final(env).log@ == old(env).log@.push(Act::Wait { cid: old(self).cid, ok: r is Ok }),
            r is Ok ==> final(env).live@ == old(env).live@.remove(old(self).cid),
            r is Err ==> final(env).live == old(env).live,
            final(env).raised == old(env).raised,
    { unimplemented!() }
    #[verifier::external_body]
    pub fn signal(&mut self, sig: NixSignal, env: &mut Env) -> (r: Result<(), IoError>)
        ensures final(self).cid == old(self).cid, final(env).now@ >= old(env).now@, senders_kept(old(env), final(env)),
            final(env).log@ == old(env).log@.push(Act::Signal { cid: old(self).cid, nix: sig.n, ok: r is Ok }),
            final(env).live == old(env).live, final(env).raised == old(env).raised,
    { unimplemented!() }
}

// ---- commands ---------------------------------------------------------------------------------
pub struct Spawnable { pub ver: int }      // ver: ghost version of the prepared command (changed only by the spawn hook)
pub struct ArcCommand;
pub uninterp spec fn base_ver(c: &ArcCommand) -> int;
impl ArcCommand {
    // Command::to_spawnable is under contract in unit `command` (C18); here only its identity matters
    #[verifier::external_body]
    pub fn to_spawnable(&self) -> (r: Spawnable) ensures r.ver == base_ver(self) { unimplemented!() }
    #[verifier::external_body]
    pub fn clone(&self) -> (r: ArcCommand) ensures r == *self { unimplemented!() }
}
impl Spawnable {
    // TokioCommandWrap::spawn
    #[verifier::external_body]
    pub fn spawn(&mut self, env: &mut Env) -> (r: Result<Child, IoError>)
        ensures final(env).now@ >= old(env).now@, senders_kept(old(env), final(env)), final(env).raised == old(env).raised, final(self).ver == old(self).ver,
            r is Ok ==> !old(env).live@.contains(r->Ok_0.cid) && final(env).live@ == old(env).live@.insert(r->Ok_0.cid)
                && final(env).log@ == old(env).log@.push(Act::Spawn { ok: true, cid: r->Ok_0.cid, ver: old(self).ver }),
            r is Err ==> final(env).live == old(env).live
                && final(env).log@ == old(env).log@.push(Act::Spawn { ok: false, cid: 0, ver: old(self).ver }),
    { unimplemented!() }
}

// ---- user callbacks: arbitrary code, arbitrary duration; cannot touch task-local state ----------
pub struct JobTaskContext<'task> {
    pub command: ArcCommand,
    pub current: &'task CommandState,
    pub previous: Option<&'task CommandState>,
}
pub open spec fn opt_view(o: Option<&CommandState>) -> Option<CsV> {
    match o { Some(c) => Some(cs_view(c)), None => None }
}
// boxed/arc'ed user closures (type aliases in task.rs)
pub struct SyncFunc;
pub struct AsyncFunc;
pub struct SyncSpawnHook;
pub struct AsyncSpawnHook;
pub struct SyncErrorHandler;
pub struct AsyncErrorHandler;
// generated by `sync_async_callbox!` in task.rs (macro-generated, not extracted)
pub enum SpawnHook { None, Sync(SyncSpawnHook), Async(AsyncSpawnHook) }
pub enum ErrorHandler { None, Sync(SyncErrorHandler), Async(AsyncErrorHandler) }
impl SpawnHook {
    // generated by the `sync_async_callbox!` macro in task.rs (not extracted): calls the stored closure once
    #[verifier::external_body]
    pub fn call(&self, command: &mut Spawnable, context: &JobTaskContext<'_>, env: &mut Env)
        ensures final(env).now@ >= old(env).now@, senders_kept(old(env), final(env)), final(env).live == old(env).live, final(env).raised == old(env).raised,
            final(env).log@ == old(env).log@.push(Act::Hook { inp: old(command).ver, out: final(command).ver, cur: cs_view(context.current), prev: opt_view(context.previous) }),
    { unimplemented!() }
}
impl ErrorHandler {
    #[verifier::external_body]
    pub fn call(&self, error: SyncIoError, env: &mut Env)
        ensures final(env).now@ >= old(env).now@, senders_kept(old(env), final(env)), final(env).live == old(env).live, final(env).raised == old(env).raised,
            final(env).log@ == old(env).log@.push(Act::ErrH),
    { unimplemented!() }
}
impl SyncFunc {
    #[verifier::external_body]
    pub fn call_once(self, context: &JobTaskContext<'_>, env: &mut Env)
        ensures final(env).now@ >= old(env).now@, senders_kept(old(env), final(env)), final(env).live == old(env).live, final(env).raised == old(env).raised,
            final(env).log@ == old(env).log@.push(Act::Func { cur: cs_view(context.current), prev: opt_view(context.previous) }),
    { unimplemented!() }
}
impl AsyncFunc {
    // returns the boxed future, awaited by the caller (R1 drops the await): call + completion are one step
    #[verifier::external_body]
    pub fn call_once(self, context: &JobTaskContext<'_>, env: &mut Env)
        ensures final(env).now@ >= old(env).now@, senders_kept(old(env), final(env)), final(env).live == old(env).live, final(env).raised == old(env).raised,
            final(env).log@ == old(env).log@.push(Act::Func { cur: cs_view(context.current), prev: opt_view(context.previous) }),
    { unimplemented!() }
}

// ---- std ----------------------------------------------------------------------------------------
#[verifier::external_body]
pub fn take(v: &mut Vec<Flag>) -> (r: Vec<Flag>) ensures r@ == old(v)@, final(v)@.len() == 0 { unimplemented!() }   // std::mem::take
pub assume_specification<T> [std::option::Option::<T>::replace] (o: &mut std::option::Option<T>, v: T) -> (r: std::option::Option<T>)
    ensures r == *old(o), *final(o) == Some(v);
pub assume_specification<T, F: FnOnce() -> Option<T>> [Option::<T>::or_else] (o: Option<T>, f: F) -> (r: Option<T>)
    requires o is None ==> f.requires(()),
    ensures o is Some ==> r == o, o is None ==> f.ensures((), r);

// ---- tokio mpsc unbounded channels carrying ControlMessage: ASSUMED CONTRACT (FIFO, exactly once) ------
pub struct Rx { pub which: u8 }  // 0 urgent 1 high 2 normal
#[derive(Clone)]
pub struct Tx { pub which: u8 }
// std::mem::replace
pub assume_specification<T> [core::mem::replace::<T>] (dest: &mut T, src: T) -> (r: T)
    ensures *final(dest) == src, r == *old(dest);
// tokio::sync::mpsc::unbounded_channel(): the two ends of one new queue (that successive calls make different queues is not expressible without
// global state: a structural obligation counts the three calls of priority::new)
#[verifier::external_body]
pub fn unbounded_channel() -> (r: (Tx, Rx)) ensures r.0.which == r.1.which { unimplemented!() }
pub open spec fn q(env: &Env, w: u8) -> Seq<ControlMessage> { if w == 0 { env.urgent@ } else if w == 1 { env.high@ } else { env.normal@ } }
pub open spec fn others_same(a: &Env, b: &Env, w: u8) -> bool {
    (w != 0 ==> b.urgent == a.urgent) && (w != 1 ==> b.high == a.high) && (w != 2 ==> b.normal == a.normal) && b.now == a.now && same_world(a, b) && b.closed == a.closed
}
impl Rx {
    #[verifier::external_body]
    pub fn try_recv(&mut self, env: &mut Env) -> (r: Result<ControlMessage, ()>)
        ensures final(self).which == old(self).which, others_same(old(env), final(env), old(self).which),
            q(old(env), old(self).which).len() > 0 ==> r is Ok && r->Ok_0 == q(old(env), old(self).which)[0]
                && q(final(env), old(self).which) == q(old(env), old(self).which).subrange(1, q(old(env), old(self).which).len() as int),
            r is Ok ==> final(env).picked@ == old(self).which,
            q(old(env), old(self).which).len() == 0 ==> r is Err && q(final(env), old(self).which) == q(old(env), old(self).which),
    { unimplemented!() }
    // completion of a `recv()` future that `select!` reported ready
    #[verifier::external_body]
    pub fn recv_ready(&mut self, env: &mut Env) -> (r: Option<ControlMessage>)
        requires q(old(env), old(self).which).len() > 0,
        ensures final(self).which == old(self).which, others_same(old(env), final(env), old(self).which),
            r is Some && r->Some_0 == q(old(env), old(self).which)[0]
                && q(final(env), old(self).which) == q(old(env), old(self).which).subrange(1, q(old(env), old(self).which).len() as int),
    { unimplemented!() }
}
impl Tx {
    // UnboundedSender::send: enqueue at the tail (Err iff the receiver is gone: not modelled, the result is dropped by the caller)
    #[verifier::external_body]
    pub fn send(&self, message: ControlMessage, env: &mut Env) -> (r: Result<(), ()>)
        ensures others_same(old(env), final(env), self.which),
            q(final(env), self.which) == q(old(env), self.which).push(message),
    { unimplemented!() }
}

// R6: `select!` over branch descriptors. vx_selectN returns the index of a branch that is ready, after letting time
// pass and other tasks send. A queue branch is ready only if that queue is non-empty; a sleep branch only once its
// deadline has passed; if a sleep branch is present the call returns no later than max(deadline, entry).
// Fairness/randomisation of tokio's select is abstracted to "any ready branch"; cancelling the other branches has no effect
// (true for mpsc recv and sleep_until).
pub struct Branch { pub kind: u8, pub until: Option<Instant>, pub refutable: bool }   // kind: 0 urgent 1 high 2 normal 3 sleep; refutable: the arm's pattern is `Some(..)`
// `Some(x) = fut => ..`: a branch whose future completes with None is disabled and the select! goes on with the others (else arm when none is left)
pub fn vx_refutable(b: Branch) -> (r: Branch) ensures r.kind == b.kind, r.until == b.until, r.refutable { Branch { kind: b.kind, until: b.until, refutable: true } }
// the stand-in hands out a refutable branch only with a value its pattern matches: the other match arm is proved unreachable
#[verifier::external_body]
pub fn vx_select_refuted<T>() -> (r: T) requires false { unimplemented!() }
// every branch disabled and no else arm: tokio panics. Reaching this is a failed obligation
#[verifier::external_body]
pub fn vx_select_all_disabled<T>() -> (r: T)
    requires false, // OBL:C07+C06.recv.select_never_panics
{ unimplemented!() }
pub struct Sleep { pub until: Instant }
pub fn sleep_until(i: Instant) -> (r: Sleep) ensures r.until == i { Sleep { until: i } }
impl Sleep {
    pub fn vx_branch(&self) -> (b: Branch) ensures b.kind == 3, b.until == Some(self.until), !b.refutable { Branch { kind: 3, until: Some(self.until), refutable: false } }
    #[verifier::external_body]
    pub fn vx_complete(self, env: &mut Env) requires old(env).now@ >= self.until.t ensures *final(env) == *old(env) { unimplemented!() }
}
pub struct RecvFut { pub which: u8 }
impl Rx {
    pub fn recv(&mut self) -> (r: RecvFut) ensures r.which == old(self).which, final(self).which == old(self).which { RecvFut { which: self.which } }
}
impl RecvFut {
    pub fn vx_branch(&self) -> (b: Branch) ensures b.kind == self.which, b.until is None, !b.refutable { Branch { kind: self.which, until: None, refutable: false } }
    #[verifier::external_body]
    // UnboundedReceiver::recv completes with the oldest message, or with None once the queue is closed (every sender dropped) and empty
    pub fn vx_complete(self, env: &mut Env) -> (r: Option<ControlMessage>)
        requires q(old(env), self.which).len() > 0 || old(env).closed@, self.which <= 2,
        ensures others_same(old(env), final(env), self.which),
            q(old(env), self.which).len() > 0 ==> r is Some && r->Some_0 == q(old(env), self.which)[0]
                && q(final(env), self.which) == q(old(env), self.which).subrange(1, q(old(env), self.which).len() as int)
                && final(env).picked@ == self.which,
            q(old(env), self.which).len() == 0 ==> r is None && q(final(env), self.which) == q(old(env), self.which),
    { unimplemented!() }
}
pub open spec fn select_post(bs: Seq<Branch>, i: int, pre: &Env, post: &Env) -> bool {
    0 <= i <= bs.len() && arrivals_only(pre, post) && same_world(pre, post) && closure_kept(pre, post)
    && (i < bs.len() ==> branch_ready(bs[i], post))
    // index == number of branches: every branch is disabled, i.e. each is a `Some(..)` arm on a queue that is closed and empty
    && (i == bs.len() ==> forall|j: int| 0 <= j < bs.len() ==> (#[trigger] bs[j]).kind <= 2 && bs[j].refutable && post.closed@ && q(post, bs[j].kind).len() == 0)
    && (forall|j: int| 0 <= j < bs.len() && #[trigger] bs[j].kind == 3 && bs[j].until is Some ==>
            post.now@ <= (if pre.now@ >= bs[j].until->Some_0.t { pre.now@ } else { bs[j].until->Some_0.t }))
}
// `select! { biased; ... }`: the branches are polled in the order written, so the one taken is the FIRST that is ready at that moment
pub open spec fn branch_ready(b: Branch, e: &Env) -> bool {
    (b.kind <= 2 && (q(e, b.kind).len() > 0 || (!b.refutable && e.closed@))) || (b.kind == 3 && b.until is Some && e.now@ >= b.until->Some_0.t)
}
#[verifier::external_body]
pub fn vx_select_biased3(b0: Branch, b1: Branch, b2: Branch, env: &mut Env) -> (i: usize)
    ensures select_post(seq![b0, b1, b2], i as int, old(env), final(env)),
        i >= 1 ==> !branch_ready(b0, final(env)), i >= 2 ==> !branch_ready(b1, final(env)), i >= 3 ==> !branch_ready(b2, final(env)),
{ unimplemented!() }
#[verifier::external_body]
pub fn vx_select3(b0: Branch, b1: Branch, b2: Branch, env: &mut Env) -> (i: usize)
    ensures select_post(seq![b0, b1, b2], i as int, old(env), final(env)),
{ unimplemented!() }

// a select! arm whose `if` guard is false is never run
#[verifier::external_body]
pub fn vx_branch_disabled<T>() -> (r: T) ensures false { unimplemented!() }

// `controls.into_iter().next().expect(..)` / `for control in controls` on a by-value array (R8 type map: array -> its element sequence)
#[verifier::external_body]
pub fn vx_array_first<const N: usize>(a: [Control; N]) -> (r: Control) requires N > 0 ensures r == a@[0] { unimplemented!() }
#[verifier::external_body]
pub fn vx_array_to_vec<const N: usize>(a: [Control; N]) -> (r: Vec<Control>) ensures r@ == a@ { unimplemented!() }

// R6b: which enabled branch of a two-branch select! completes first (arbitrary); 2 if none is enabled
#[verifier::external_body]
pub fn vx_select_order(g0: bool, g1: bool) -> (r: usize)
    ensures r <= 2, r == 0 ==> g0, r == 1 ==> g1, r == 2 ==> !g0 && !g1,
{ unimplemented!() }
// a select! without else arm panics when every branch is disabled: reaching this is a failed obligation
#[verifier::external_body]
pub fn vx_select_panics()
    requires false, // OBL:C07.job_task.select_never_panics
{ unimplemented!() }

// R18: `tokio::spawn(async move { .. })` inside an extracted body: the detached block runs later or never, none of its effects is visible here
pub fn vx_spawn_detached() {}
