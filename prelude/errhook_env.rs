// Environment stand-ins for unit `errhook` (crates/lib/src/watchexec.rs: error_hook, ErrorHook, main task loop). TRUSTED BASE.
pub enum RuntimeError { Exit, Other { id: int } }
impl RuntimeError {
    // error.help().map(|h| h.to_string()) (miette Diagnostic help text): irrelevant to routing
    #[verifier::external_body]
    pub fn help_string(&self) -> (r: Option<HelpString>) { unimplemented!() }
}
pub struct HelpString;
pub enum CriticalError { Exit, Elevated { err: RuntimeError, help: Option<HelpString> }, Other { id: int } }
pub open spec fn vx_from_spec(e: CriticalError) -> CriticalError { e }
pub fn vx_from(e: CriticalError) -> (r: CriticalError) ensures r == e { e }

pub struct EEnv {
    pub received: Ghost<Seq<RuntimeError>>,        // runtime errors taken from the error channel, in order
    pub handled: Ghost<Seq<RuntimeError>>,         // runtime errors passed to the error handler, in order
    pub cell: Ghost<Map<int, Option<CriticalError>>>,   // OnceLock contents per payload cell
    pub refs: Ghost<Map<int, nat>>,                // Arc strong count per payload cell
    pub chan_closed: Ghost<bool>,
    pub event_chan_closed: Ghost<bool>,
}
// Arc<OnceLock<CriticalError>>
pub struct CritCell { pub id: int }
pub struct OnceLockS { pub id: int }
impl CritCell {
    // Default::default(): a fresh, empty cell with one owner
    #[verifier::external_body]
    pub fn new(env: &mut EEnv) -> (r: CritCell)
        ensures !old(env).cell@.contains_key(r.id), final(env).cell@ == old(env).cell@.insert(r.id, None), final(env).refs@ == old(env).refs@.insert(r.id, 1),
            final(env).received == old(env).received, final(env).handled == old(env).handled, final(env).chan_closed == old(env).chan_closed, final(env).event_chan_closed == old(env).event_chan_closed,
    { unimplemented!() }
    #[verifier::external_body]
    pub fn clone(&self, env: &mut EEnv) -> (r: CritCell)
        requires old(env).refs@.contains_key(self.id),
        ensures r.id == self.id, final(env).refs@ == old(env).refs@.insert(self.id, old(env).refs@[self.id] + 1), final(env).cell == old(env).cell,
            final(env).received == old(env).received, final(env).handled == old(env).handled, final(env).chan_closed == old(env).chan_closed, final(env).event_chan_closed == old(env).event_chan_closed,
    { unimplemented!() }
    // OnceLock::set through the Arc: the first set wins
    #[verifier::external_body]
    pub fn set(&self, c: CriticalError, env: &mut EEnv) -> (r: Result<(), CriticalError>)
        requires old(env).cell@.contains_key(self.id),
        ensures (old(env).cell@[self.id] is None) == (r is Ok),
            r is Ok ==> final(env).cell@ == old(env).cell@.insert(self.id, Some(c)), r is Err ==> final(env).cell == old(env).cell,
            final(env).refs == old(env).refs, final(env).received == old(env).received, final(env).handled == old(env).handled,
            final(env).chan_closed == old(env).chan_closed, final(env).event_chan_closed == old(env).event_chan_closed,
    { unimplemented!() }
    // Arc::try_unwrap: succeeds iff this is the only owner
    #[verifier::external_body]
    pub fn try_unwrap(this: CritCell, env: &mut EEnv) -> (r: Result<OnceLockS, CritCell>)
        requires old(env).refs@.contains_key(this.id),
        ensures (r is Ok) == (old(env).refs@[this.id] == 1), r is Ok ==> r->Ok_0.id == this.id, r is Err ==> r->Err_0.id == this.id, *final(env) == *old(env),
    { unimplemented!() }
    // dropping an owner (end of ErrorHook::critical / elevate, which consume self)
    #[verifier::external_body]
    pub fn vx_drop(self, env: &mut EEnv)
        requires old(env).refs@.contains_key(self.id), old(env).refs@[self.id] >= 1,
        ensures final(env).refs@ == old(env).refs@.insert(self.id, (old(env).refs@[self.id] - 1) as nat), final(env).cell == old(env).cell,
            final(env).received == old(env).received, final(env).handled == old(env).handled, final(env).chan_closed == old(env).chan_closed, final(env).event_chan_closed == old(env).event_chan_closed,
    { unimplemented!() }
}
impl OnceLockS {
    #[verifier::external_body]
    pub fn into_inner(self, env: &mut EEnv) -> (r: Option<CriticalError>)
        requires old(env).cell@.contains_key(self.id),
        ensures r == old(env).cell@[self.id], *final(env) == *old(env),
    { unimplemented!() }
}
// mpsc::Receiver<RuntimeError>
pub struct ErrRx;
impl ErrRx {
    #[verifier::external_body]
    pub fn recv_raw(&mut self, env: &mut EEnv) -> (r: Option<RuntimeError>)
        ensures r is Some ==> final(env).received@ == old(env).received@.push(r->Some_0), r is None ==> final(env).received == old(env).received && final(env).chan_closed@,
            final(env).handled == old(env).handled, final(env).cell == old(env).cell, final(env).refs == old(env).refs, final(env).event_chan_closed == old(env).event_chan_closed,
    { unimplemented!() }
}
// ChangeableFn<ErrorHook, ()>: the configured error handler. Arbitrary user code holding the payload: it may call payload.critical(c) /
// payload.elevate() (both under contract below: first set wins, payload consumed), drop the payload, or keep it alive.
pub struct ErrHandlerFn;
impl ErrHandlerFn {
    #[verifier::external_body]
    pub fn call(&self, payload: ErrorHook, env: &mut EEnv)
        requires old(env).cell@.contains_key(payload.critical.id), old(env).refs@.contains_key(payload.critical.id), old(env).refs@[payload.critical.id] >= 1,
        ensures final(env).handled@ == old(env).handled@.push(payload.error), final(env).received == old(env).received,
            final(env).chan_closed == old(env).chan_closed, final(env).event_chan_closed == old(env).event_chan_closed,
            forall|k: int| k != payload.critical.id ==> (#[trigger] final(env).cell@.contains_key(k) == old(env).cell@.contains_key(k)) && (old(env).cell@.contains_key(k) ==> final(env).cell@[k] == old(env).cell@[k]),
            forall|k: int| k != payload.critical.id ==> (#[trigger] final(env).refs@.contains_key(k) == old(env).refs@.contains_key(k)) && (old(env).refs@.contains_key(k) ==> final(env).refs@[k] == old(env).refs@[k]),
            final(env).cell@.contains_key(payload.critical.id), final(env).refs@.contains_key(payload.critical.id),
            // the payload was consumed/dropped (one owner fewer) or is still held somewhere
            final(env).refs@[payload.critical.id] == old(env).refs@[payload.critical.id] - 1 || final(env).refs@[payload.critical.id] >= old(env).refs@[payload.critical.id],
            // a set critical stays set (OnceLock)
            old(env).cell@[payload.critical.id] is Some ==> final(env).cell@[payload.critical.id] == old(env).cell@[payload.critical.id],
    { unimplemented!() }
}
