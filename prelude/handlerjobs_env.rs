// Environment stand-ins for unit `handlerjobs` (crates/lib/src/action/handler.rs: the job-creating methods of the action Handler).
#[derive(Clone, Copy, PartialEq, Eq, Structural)]
pub struct Id { pub id: int }
pub struct IdEnv { pub issued: Ghost<Set<Id>> }
impl Id {
    // Id::default(): a process-unique id (thread id + counter): never one that was handed out before
    #[verifier::external_body]
    pub fn default(env: &mut HEnv) -> (r: Id)
        ensures !old(env).issued@.contains(r), final(env).issued@ == old(env).issued@.insert(r), final(env).started == old(env).started,
    { unimplemented!() }
}
#[derive(Clone, Copy, PartialEq, Eq, Structural)]
pub struct Job { pub id: int }
impl Job { pub fn clone(&self) -> (r: Job) ensures r == *self { *self } }
#[derive(Clone, Copy, PartialEq, Eq, Structural)]
pub struct TaskH { pub id: int }
#[derive(Clone, Copy, PartialEq, Eq, Structural)]
pub struct ArcCommand { pub id: int }
// the world: ids handed out so far, and the job tasks started so far (in order)
pub struct HEnv { pub issued: Ghost<Set<Id>>, pub started: Ghost<Seq<(ArcCommand, Job, TaskH)>> }
// watchexec_supervisor::job::start_job: starts one supervising task for the command and returns its handle
#[verifier::external_body]
pub fn start_job(command: ArcCommand, env: &mut HEnv) -> (r: (Job, TaskH))
    ensures final(env).started@ == old(env).started@.push((command, r.0, r.1)), final(env).issued == old(env).issued,
        forall|i: int| 0 <= i < old(env).started@.len() ==> (#[trigger] old(env).started@[i]).1 != r.0,
{ unimplemented!() }
// HashMap<Id, Job> / HashMap<Id, (Job, JoinHandle<()>)>
pub struct ExtantMap { pub m: Ghost<Map<Id, Job>> }
impl ExtantMap {
    #[verifier::external_body]
    pub fn get(&self, id: &Id) -> (r: Option<&Job>) ensures (r is Some) == self.m@.contains_key(*id), r is Some ==> *r->Some_0 == self.m@[*id] { unimplemented!() }
}
pub struct NewMap { pub m: Ghost<Map<Id, (Job, TaskH)>> }
impl NewMap {
    #[verifier::external_body]
    pub fn get(&self, id: &Id) -> (r: Option<&(Job, TaskH)>) ensures (r is Some) == self.m@.contains_key(*id), r is Some ==> *r->Some_0 == self.m@[*id] { unimplemented!() }
    #[verifier::external_body]
    pub fn insert(&mut self, id: Id, v: (Job, TaskH)) -> (r: Option<(Job, TaskH)>) ensures final(self).m@ == old(self).m@.insert(id, v) { unimplemented!() }
}
pub struct Handler { pub extant: ExtantMap, pub new: NewMap }
// Option<&Job>::cloned()
pub fn vx_cloned(o: Option<&Job>) -> (r: Option<Job>) ensures (r is Some) == (o is Some), o is Some ==> r->Some_0 == *o->Some_0 { match o { Some(j) => Some(*j), None => None } }
// the `impl Fn() -> Arc<Command>` argument of get_or_create_job: called only when a job has to be created
pub struct CommandFn { pub yields: ArcCommand }
impl CommandFn { pub fn call(&self) -> (r: ArcCommand) ensures r == self.yields { self.yields } }
