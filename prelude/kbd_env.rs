// Environment stand-ins for unit `kbd` (crates/lib/src/sources/keyboard.rs::worker). TRUSTED BASE.
pub struct KEnv {
    pub want: Ghost<bool>,          // config.keyboard_events as read by the current iteration
    pub watching: Ghost<bool>,      // a stdin watcher task is running
    pub round: Ghost<nat>,
    pub spawned: Ghost<nat>,        // stdin watcher tasks started so far
}
pub struct CriticalError;
pub struct ErrTx; impl ErrTx { pub fn clone(&self) -> ErrTx { ErrTx } }
pub struct EvTx; impl EvTx { pub fn clone(&self) -> EvTx { EvTx } }
pub struct ConfigWatched;
impl ConfigWatched {
    // unit cfgwatch: returns at once the first time, then after every configuration change
    #[verifier::external_body]
    pub fn next(&mut self, env: &mut KEnv) ensures final(env).round@ == old(env).round@ + 1, final(env).watching == old(env).watching, final(env).spawned == old(env).spawned { unimplemented!() }
}
pub struct KbCfg;
impl KbCfg {
    #[verifier::external_body]
    pub fn get(&self, env: &mut KEnv) -> (r: bool) ensures r == old(env).want@, *final(env) == *old(env) { unimplemented!() }
}
pub struct Config { pub keyboard_events: KbCfg }
pub struct ArcConfig { pub c: Config }
impl std::ops::Deref for ArcConfig { type Target = Config; fn deref(&self) -> &Config { &self.c } }
impl ArcConfig { pub fn watch(&self) -> ConfigWatched { ConfigWatched } }
// tokio::sync::oneshot::channel::<()>(): the close signal of one stdin watcher task
pub struct CloseTx; pub struct CloseRx;
pub struct CloseRes;
impl CloseRes { pub fn ok(self) {} }
impl CloseTx {
    // sending the close signal ends the stdin watcher task (watch_stdin selects on it)
    #[verifier::external_body]
    pub fn send(self, x: (), env: &mut KEnv) -> (r: CloseRes) ensures !final(env).watching@, final(env).want == old(env).want, final(env).round == old(env).round, final(env).spawned == old(env).spawned { unimplemented!() }
}
#[verifier::external_body]
pub fn vx_oneshot() -> (r: (CloseTx, CloseRx)) { unimplemented!() }
pub struct StdinTask;
// watch_stdin(errors, events, close_r): the task that reads stdin and sends keyboard events (its send_event is proved in unit sources)
pub fn watch_stdin(errors: ErrTx, events: EvTx, close_r: CloseRx) -> StdinTask { StdinTask }
#[verifier::external_body]
pub fn spawn(t: StdinTask, env: &mut KEnv) ensures final(env).watching@, final(env).spawned@ == old(env).spawned@ + 1, final(env).want == old(env).want, final(env).round == old(env).round { unimplemented!() }
