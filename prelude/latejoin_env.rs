// Environment stand-ins for unit `latejoin` (crates/lib/src/late_join_set.rs). TRUSTED BASE.
#[derive(Clone, Copy, PartialEq, Eq, Structural)]
pub struct JoinHandle { pub t: int }          // tokio::task::JoinHandle<()> of one task
pub struct JoinError;
pub struct JEnv {
    pub joined: Ghost<Set<int>>,              // tasks whose completion has been awaited
    pub aborted: Ghost<Set<int>>,             // tasks that were told to abort
}
// a task handed to tokio::spawn
pub struct TaskS { pub t: int }
pub mod tokio {
    // tokio::spawn: the task runs; its handle identifies it
    #[verifier::external_body]
    pub fn spawn(task: super::TaskS) -> (r: super::JoinHandle) ensures r.t == task.t { unimplemented!() }
}
// futures::stream::FuturesUnordered<JoinHandle<()>>: an unordered bag of handles; next() yields each completed one once
pub struct FuturesUnordered { pub s: Ghost<Set<int>> }
impl FuturesUnordered {
    #[verifier::external_body]
    pub fn push(&self, h: JoinHandle) -> (r: FuturesUnordered) { unimplemented!() }
}
pub struct BagS { pub s: Ghost<Set<int>> }
impl BagS {
    // FuturesUnordered::push takes &self
    #[verifier::external_body]
    pub fn push(&mut self, h: JoinHandle) ensures final(self).s@ == old(self).s@.insert(h.t) { unimplemented!() }
    // StreamExt::next().await: waits for one of the remaining tasks to end and removes it; None when none is left
    #[verifier::external_body]
    pub fn next(&mut self, env: &mut JEnv) -> (r: Option<Result<(), JoinError>>)
        ensures final(env).aborted == old(env).aborted,
            old(self).s@.len() == 0 || !old(self).s@.finite() ==> true,
            r is None ==> old(self).s@ =~= Set::<int>::empty() && final(self).s@ == old(self).s@ && final(env).joined == old(env).joined,
            r is Some ==> exists|t: int| #[trigger] old(self).s@.contains(t) && final(self).s@ == old(self).s@.remove(t) && final(env).joined@ == old(env).joined@.insert(t),
    { unimplemented!() }
    #[verifier::external_body]
    pub fn clear(&mut self) ensures final(self).s@ =~= Set::<int>::empty() { unimplemented!() }
    // `self.tasks.iter().for_each(JoinHandle::abort)` (replaced by exact token match): every handle in the bag is told to abort
    #[verifier::external_body]
    pub fn vx_abort_each(&self, env: &mut JEnv)
        ensures final(env).aborted@ == old(env).aborted@.union(self.s@), final(env).joined == old(env).joined { unimplemented!() }
}
