// Environment stand-ins for unit `globset` (crates/filterer/globset/src/lib.rs). TRUSTED BASE.
#[derive(Clone, Copy, PartialEq, Eq, Structural)]
pub struct PathS { pub id: int }
#[derive(Clone, Copy, PartialEq, Eq, Structural)]
pub struct OsS { pub id: int }     // OsString / &OsStr (extensions)
pub uninterp spec fn under(p: PathS, origin: PathS) -> bool;
pub uninterp spec fn rebased_of(origin: PathS, p: PathS) -> PathS;    // origin + "//" + (p relative to origin): watchexec 1.x compat (#258)
pub uninterp spec fn ext_of(p: PathS) -> Option<OsS>;
pub struct Based { pub of: PathS }
impl PathS {
    #[verifier::external_body]
    pub fn strip_prefix(&self, origin: &PathS) -> (r: Result<Based, ()>) ensures (r is Ok) == under(*self, *origin), r is Ok ==> r->Ok_0.of == *self { unimplemented!() }
    #[verifier::external_body]
    pub fn extension(&self) -> (r: Option<OsS>) ensures r == ext_of(*self) { unimplemented!() }
}
#[verifier::external_body]
pub fn vx_rebase(origin: &PathS, based: Based) -> (r: PathS) ensures r == rebased_of(*origin, based.of) { unimplemented!() }
// ignore::gitignore::Gitignore compiled from the --filter / --ignore patterns: glob semantics NOT decided (uninterpreted)
pub struct Gitignore { pub id: int }
pub struct MatchR { pub ign: bool, pub wl: bool }   // Match::{Ignore, Whitelist, None}: at most one of the two
pub uninterp spec fn g_ign(g: Gitignore, p: PathS, is_dir: bool) -> bool;     // matched(p, is_dir).is_ignore()
pub uninterp spec fn g_count(g: Gitignore) -> nat;                            // num_ignores(): number of non-negated patterns
impl Gitignore {
    #[verifier::external_body]
    pub fn matched(&self, p: PathS, is_dir: bool) -> (r: MatchR) ensures r.ign == g_ign(*self, p, is_dir), !(r.ign && r.wl) { unimplemented!() }
    #[verifier::external_body]
    pub fn num_ignores(&self) -> (r: u64) ensures r as nat == g_count(*self) { unimplemented!() }
}
impl MatchR {
    pub fn is_ignore(&self) -> (r: bool) ensures r == self.ign { self.ign }
    pub fn is_whitelist(&self) -> (r: bool) ensures r == self.wl { self.wl }
    pub fn is_none(&self) -> (r: bool) ensures r == (!self.ign && !self.wl) { !self.ign && !self.wl }
}
// the event as seen by the filterer: its (path, file type) pairs, by value (both are Copy stand-ins)
pub struct Event { pub path_tags: Vec<(PathS, Option<FileType>)> }
pub struct Priority;
#[derive(Debug)]
pub struct RuntimeError;
pub struct PathsIter { pub v: Ghost<Seq<(PathS, Option<FileType>)>> }
pub struct Peeked;
impl Event {
    #[verifier::external_body]
    pub fn paths(&self) -> (r: PathsIter) ensures r.v@ == self.path_tags@ { unimplemented!() }
}
impl PathsIter {
    pub fn peekable(self) -> (r: PathsIter) ensures r.v@ == self.v@ { self }
    #[verifier::external_body]
    pub fn peek(&mut self) -> (r: Option<Peeked>) ensures (r is Some) == (old(self).v@.len() > 0), final(self).v@ == old(self).v@ { unimplemented!() }
    // Iterator::any over (path, file type) pairs; c comes with its ghost twin p
    #[verifier::external_body]
    pub fn vany<F: Fn((PathS, Option<FileType>)) -> bool>(self, c: F, Ghost(p): Ghost<spec_fn((PathS, Option<FileType>)) -> bool>) -> (r: bool)
        requires forall|a: (PathS, Option<FileType>)| c.requires((a,)), forall|a: (PathS, Option<FileType>), o: bool| c.ensures((a,), o) ==> o == p(a),
        ensures r == exists|i: int| 0 <= i < self.v@.len() && p(#[trigger] self.v@[i]),
    { unimplemented!() }
    // Iterator::all
    #[verifier::external_body]
    pub fn vall<F: Fn((PathS, Option<FileType>)) -> bool>(self, c: F, Ghost(p): Ghost<spec_fn((PathS, Option<FileType>)) -> bool>) -> (r: bool)
        requires forall|a: (PathS, Option<FileType>)| c.requires((a,)), forall|a: (PathS, Option<FileType>), o: bool| c.ensures((a,), o) ==> o == p(a),
        ensures r == forall|i: int| 0 <= i < self.v@.len() ==> p(#[trigger] self.v@[i]),
    { unimplemented!() }
}
#[verifier::external_body]
pub fn vall_ref<T: Copy, F: Fn(T) -> bool>(xs: &Vec<T>, c: F, Ghost(p): Ghost<spec_fn(T) -> bool>) -> (r: bool)
    requires forall|a: T| c.requires((a,)), forall|a: T, o: bool| c.ensures((a,), o) ==> o == p(a),
    ensures r == forall|i: int| 0 <= i < xs@.len() ==> p(#[trigger] xs@[i]),
{ unimplemented!() }
#[verifier::external_body]
pub fn vany_ref<T: Copy, F: Fn(T) -> bool>(xs: &Vec<T>, c: F, Ghost(p): Ghost<spec_fn(T) -> bool>) -> (r: bool)
    requires forall|a: T| c.requires((a,)), forall|a: T, o: bool| c.ensures((a,), o) ==> o == p(a),
    ensures r == exists|i: int| 0 <= i < xs@.len() && p(#[trigger] xs@[i]),
{ unimplemented!() }
// the backing ignore-files filterer (C03): never errors; its verdict is an uninterpreted function of the event here
pub struct IgnoreFilterer { pub id: int }
pub uninterp spec fn ignfiles_pass(f: IgnoreFilterer, tags: Seq<(PathS, Option<FileType>)>) -> bool;
impl IgnoreFilterer {
    #[verifier::external_body]
    pub fn check_event(&self, event: &Event, priority: Priority) -> (r: Result<bool, RuntimeError>)
        ensures r is Ok, r->Ok_0 == ignfiles_pass(*self, event.path_tags@),
    { unimplemented!() }
}

// ---- CLI layer (crates/cli/src/filterer.rs::WatchexecFilterer::check_event) ----
// notify's event kind enums are extracted from crates/events/src/sans_notify.rs, the crate's own mirror of notify-types
// (ASSUMED identical to notify-types 2.x, which is what the default feature set uses)
pub enum CliTag { FileEventKind(EventKind), Other }      // the only tag kind the CLI filter looks at
pub struct CliEvent { pub tags: Vec<CliTag> }
pub struct TagIter { pub v: Ghost<Seq<CliTag>>, pub pos: Ghost<int> }
#[verifier::external_body]
pub fn vx_into_iter(v: &Vec<CliTag>) -> (r: TagIter) ensures r.v@ == v@, r.pos@ == 0 { unimplemented!() }
impl TagIter {
    #[verifier::external_body]
    pub fn vx_next(&mut self) -> (r: Option<&CliTag>)
        requires 0 <= old(self).pos@ <= old(self).v@.len(),
        ensures final(self).v == old(self).v,
            old(self).pos@ < old(self).v@.len() ==> r is Some && *r->Some_0 == old(self).v@[old(self).pos@] && final(self).pos@ == old(self).pos@ + 1,
            old(self).pos@ >= old(self).v@.len() ==> r is None && final(self).pos == old(self).pos,
    { unimplemented!() }
}
pub fn vx_id<T>(x: T) -> (r: T) ensures r == x { x }
pub struct FilterProgs;
// the inner filterer (GlobsetFilterer, under contract above) and the optional jaq filter programs: uninterpreted verdicts here
pub struct InnerFilterer { pub id: int }
pub uninterp spec fn inner_pass(f: InnerFilterer, e: Seq<CliTag>) -> Result<bool, RuntimeError>;
pub uninterp spec fn progs_pass(e: Seq<CliTag>) -> Result<bool, RuntimeError>;
impl InnerFilterer {
    #[verifier::external_body]
    pub fn check_event(&self, event: &CliEvent, priority: Priority) -> (r: Result<bool, RuntimeError>) ensures r == inner_pass(*self, event.tags@) { unimplemented!() }
}
impl FilterProgs {
    #[verifier::external_body]
    pub fn check(&self, event: &CliEvent) -> (r: Result<bool, RuntimeError>) ensures r == progs_pass(event.tags@) { unimplemented!() }
}
pub struct WatchexecFilterer { pub inner: InnerFilterer, pub fs_events: Vec<FsEvent>, pub progs: Option<FilterProgs> }
pub assume_specification<T: PartialEq> [<[T]>::contains] (s: &[T], x: &T) -> (r: bool)
    ensures r == s@.contains(*x);
