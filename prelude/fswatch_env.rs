// Environment stand-ins for unit `fswatch` (crates/lib/src/sources/fs.rs::worker). TRUSTED BASE.
#[derive(Clone, Copy, PartialEq, Eq, Structural)]
pub struct PathS { pub id: int }
impl PathS { pub fn as_ref(&self) -> (r: &PathS) ensures *r == *self { self } }
#[derive(Clone, Copy, PartialEq, Eq, Structural)]
pub struct Duration { pub ns: int }
impl Duration { #[verifier::external_body] pub fn is_zero(&self) -> (r: bool) ensures r == (self.ns == 0) { unimplemented!() } }
pub enum RecursiveMode { Recursive, NonRecursive }
pub struct NotifyError { pub paths: Vec<PathS> }       // notify::Error: the paths it names (kind and message not modelled)
pub struct StrS;
impl NotifyError {
    #[verifier::external_body]
    pub fn to_string(&self) -> StrS { unimplemented!() }
}
pub open spec fn n_paths(e: NotifyError) -> nat { e.paths@.len() }
// std::mem::take(&mut err.paths)
#[verifier::external_body]
pub fn vx_take_paths(err: &mut NotifyError) -> (r: Vec<PathS>) ensures r@ == old(err).paths@, final(err).paths@.len() == 0 { unimplemented!() }
// `err.take().unwrap_or_else(|| notify::Error::generic(&generic)).add_path(path.clone())`: the original error the first time, a generic copy of its
// message afterwards, naming exactly this path
#[verifier::external_body]
pub fn vx_next_error(err: &mut Option<NotifyError>, generic: &StrS, path: PathS) -> (r: NotifyError)
    requires *old(err) is Some ==> (*old(err))->Some_0.paths@.len() == 0,
    ensures *final(err) is None, r.paths@ == seq![path] { unimplemented!() }
pub enum FsWatcherError { PathAdd { path: PathS, err: NotifyError }, PathRemove { path: PathS, err: NotifyError }, Other }
pub enum RuntimeError { FsWatcher { kind: Watcher, err: FsWatcherError }, Other }
impl WatchedPath {
    // From<WatchedPath> for PathBuf
    pub fn into(self) -> (r: PathS) ensures r == self.path { self.path }
}
pub enum CriticalError { ErrorChannelSend, FsWatcherInit, Other }
pub struct ErrSendErr;
// `?`: From::from on the error (CriticalError from itself or from the channel's SendError)
#[verifier::external_body]
pub fn vx_from<E>(e: E) -> (r: CriticalError) { unimplemented!() }
// `for x in v` desugared (R16): the elements of the vector in order
pub struct VxIter<T> { pub v: Ghost<Seq<T>>, pub pos: Ghost<int> }
#[verifier::external_body]
pub fn vx_into_iter<T>(v: Vec<T>) -> (r: VxIter<T>) ensures r.v@ == v@, r.pos@ == 0 { unimplemented!() }
impl<T> VxIter<T> {
    #[verifier::external_body]
    pub fn vx_next(&mut self) -> (r: Option<T>)
        requires 0 <= old(self).pos@ <= old(self).v@.len(),
        ensures final(self).v == old(self).v,
            old(self).pos@ < old(self).v@.len() ==> r is Some && r->Some_0 == old(self).v@[old(self).pos@] && final(self).pos@ == old(self).pos@ + 1,
            old(self).pos@ >= old(self).v@.len() ==> r is None && final(self).pos == old(self).pos,
    { unimplemented!() }
}
pub fn vx_id<T>(x: T) -> (r: T) ensures r == x { x }

pub struct FEnv {
    // the configuration as seen by this iteration (ASSUMPTION: it does not change between ConfigWatched::next() calls; a change made
    // meanwhile is picked up by the next iteration, whose start depends on Notify wake-ups: NOT decided)
    pub cfg_paths: Ghost<Seq<WatchedPath>>,
    pub cfg_kind: Ghost<Watcher>,
    pub round: Ghost<nat>,            // iterations started
    pub fails: Ghost<nat>,            // watch/unwatch calls that failed in the current iteration
    pub err_due: Ghost<nat>,          // runtime errors owed for failed calls (max(1, paths named by the notify error) each)
    pub err_sent: Ghost<nat>,         // runtime errors accepted by the error channel
}
// ConfigWatched
pub struct ConfigWatched;
impl ConfigWatched {
    // waits for the next configuration change (returns at once the first time); the configuration may be anything afterwards
    #[verifier::external_body]
    pub fn next(&mut self, env: &mut FEnv)
        ensures final(env).round@ == old(env).round@ + 1, final(env).fails@ == 0, final(env).err_due == old(env).err_due, final(env).err_sent == old(env).err_sent,
            distinct_paths(final(env).cfg_paths@),
    { unimplemented!() }
}
// ASSUMPTION: a configured path set names each path once (with one recursion mode)
pub open spec fn distinct_paths(s: Seq<WatchedPath>) -> bool { forall|i: int, j: int| 0 <= i < j < s.len() ==> (#[trigger] s[i]).path != (#[trigger] s[j]).path }
pub struct PathsCfg;       // config.pathset: Changeable<Vec<WatchedPath>>
pub struct KindCfg;        // config.file_watcher: Changeable<Watcher>
impl PathsCfg {
    #[verifier::external_body]
    pub fn get(&self, env: &mut FEnv) -> (r: Vec<WatchedPath>) ensures r@ == old(env).cfg_paths@, *final(env) == *old(env) { unimplemented!() }
}
impl KindCfg {
    #[verifier::external_body]
    pub fn get(&self, env: &mut FEnv) -> (r: Watcher) ensures r == old(env).cfg_kind@, *final(env) == *old(env) { unimplemented!() }
}
pub struct Config { pub pathset: PathsCfg, pub file_watcher: KindCfg }
impl Config { pub fn watch(&self, env: &mut FEnv) -> (r: ConfigWatched) ensures *final(env) == *old(env) { ConfigWatched } }
// channels
pub struct ErrTx;
pub struct EvTx;
impl ErrTx {
    #[verifier::external_body]
    pub fn clone(&self) -> ErrTx { unimplemented!() }
    #[verifier::external_body]
    pub fn send(&self, e: RuntimeError, env: &mut FEnv) -> (r: Result<(), ErrSendErr>)
        ensures r is Ok ==> final(env).err_sent@ == old(env).err_sent@ + 1, r is Err ==> final(env).err_sent == old(env).err_sent,
            final(env).cfg_paths == old(env).cfg_paths, final(env).cfg_kind == old(env).cfg_kind, final(env).round == old(env).round, final(env).fails == old(env).fails, final(env).err_due == old(env).err_due,
    { unimplemented!() }
}
pub struct TrySendRes;
impl TrySendRes { pub fn ok(self) {} }
impl ErrTx {
    // Sender::try_send (not used by the worker today; present so that such a change is decided): it does not wait for room, so the error may be refused
    #[verifier::external_body]
    pub fn try_send(&self, e: RuntimeError, env: &mut FEnv) -> (r: TrySendRes)
        ensures final(env).err_sent@ == old(env).err_sent@ || final(env).err_sent@ == old(env).err_sent@ + 1,
            final(env).cfg_paths == old(env).cfg_paths, final(env).cfg_kind == old(env).cfg_kind, final(env).round == old(env).round, final(env).fails == old(env).fails, final(env).err_due == old(env).err_due,
    { unimplemented!() }
}
impl EvTx { #[verifier::external_body] pub fn clone(&self) -> EvTx { unimplemented!() } }
// the notify watcher (Box<dyn notify::Watcher>): records what is registered. watch()/unwatch() may fail arbitrarily
pub struct WatcherS { pub kind: Watcher, pub registered: Ghost<Map<PathS, bool>> }    // path -> recursive?
pub struct Callback;
// the event-handler closure handed to notify (under contract in unit `sources` as watcher_callback)
pub fn vx_callback(n_errors: ErrTx, n_events: EvTx, kind: Watcher) -> Callback { Callback }
impl Watcher {
    // #[derive(Default)]; which kind is the default does not matter to the worker: no watcher exists yet
    #[verifier::external_body]
    pub fn default() -> Watcher { unimplemented!() }
}
pub struct CreateRes { pub r: Result<WatcherS, CriticalError> }
// notify::RecommendedWatcher::new(f, Config::default()) / notify::PollWatcher::new(f, Config::default().with_poll_interval(delay)) (replaced by exact
// token match): a fresh watcher of that back end with nothing registered, or an error
pub struct NewRes { pub r: Result<WatcherS, NotifyError> }
#[verifier::external_body]
pub fn vx_native_watcher(f: Callback) -> (r: NewRes) ensures r.r is Ok ==> r.r->Ok_0.kind == Watcher::Native && r.r->Ok_0.registered@ =~= Map::<PathS, bool>::empty() { unimplemented!() }
#[verifier::external_body]
pub fn vx_poll_watcher(f: Callback, delay: Duration) -> (r: NewRes) ensures r.r is Ok ==> r.r->Ok_0.kind == Watcher::Poll(delay) && r.r->Ok_0.registered@ =~= Map::<PathS, bool>::empty() { unimplemented!() }
impl NewRes {
    // .map_err(|err| CriticalError::FsWatcherInit { kind, err: <classification of the notify error> }): the classification is not decided
    #[verifier::external_body]
    pub fn vx_init_err(self, kind: Watcher) -> (r: Result<WatcherS, CriticalError>) ensures self.r is Ok ==> r == Ok::<WatcherS, CriticalError>(self.r->Ok_0), self.r is Err ==> r is Err { unimplemented!() }
}
// (Watcher::create is an item of the unit: extracted and proved)
impl CreateRes {
    // Result::map(Some)
    pub fn vx_map_some(self) -> (o: Result<Option<WatcherS>, CriticalError>)
        ensures self.r is Ok ==> o == Ok::<Option<WatcherS>, CriticalError>(Some(self.r->Ok_0)), self.r is Err ==> o is Err
    { match self.r { Ok(w) => Ok(Some(w)), Err(e) => Err(e) } }
}
impl WatcherS {
    #[verifier::external_body]
    pub fn watch(&mut self, p: &PathS, mode: RecursiveMode, env: &mut FEnv) -> (r: Result<(), NotifyError>)
        ensures final(self).kind == old(self).kind,
            r is Ok ==> final(self).registered@ == old(self).registered@.insert(*p, mode is Recursive) && *final(env) == *old(env),
            r is Err ==> final(self).registered == old(self).registered && final(env).fails@ == old(env).fails@ + 1
                && final(env).err_due@ == old(env).err_due@ + (if n_paths(r->Err_0) == 0 { 1nat } else { n_paths(r->Err_0) })
                && final(env).cfg_paths == old(env).cfg_paths && final(env).cfg_kind == old(env).cfg_kind && final(env).round == old(env).round && final(env).err_sent == old(env).err_sent,
    { unimplemented!() }
    #[verifier::external_body]
    pub fn unwatch(&mut self, p: &PathS, env: &mut FEnv) -> (r: Result<(), NotifyError>)
        ensures final(self).kind == old(self).kind,
            r is Ok ==> final(self).registered@ == old(self).registered@.remove(*p) && *final(env) == *old(env),
            r is Err ==> final(self).registered == old(self).registered && final(env).fails@ == old(env).fails@ + 1
                && final(env).err_due@ == old(env).err_due@ + (if n_paths(r->Err_0) == 0 { 1nat } else { n_paths(r->Err_0) })
                && final(env).cfg_paths == old(env).cfg_paths && final(env).cfg_kind == old(env).cfg_kind && final(env).round == old(env).round && final(env).err_sent == old(env).err_sent,
    { unimplemented!() }
}
// notify_multi_path_errors is an item of the unit (extracted and proved); fs::worker is checked against its contract
// HashSet<WatchedPath>: the worker's own record of what it registered
pub struct PathSetS { pub v: Ghost<Set<WatchedPath>> }
impl PathSetS {
    #[verifier::external_body]
    pub fn new() -> (r: PathSetS) ensures r.v@ =~= Set::<WatchedPath>::empty() { unimplemented!() }
    #[verifier::external_body]
    pub fn is_empty(&self) -> (r: bool) ensures r == (self.v@ =~= Set::<WatchedPath>::empty()) { unimplemented!() }
    #[verifier::external_body]
    pub fn len(&self) -> (r: usize) { unimplemented!() }
    #[verifier::external_body]
    pub fn clear(&mut self) ensures final(self).v@ =~= Set::<WatchedPath>::empty() { unimplemented!() }
    #[verifier::external_body]
    pub fn contains(&self, p: &WatchedPath) -> (r: bool) ensures r == self.v@.contains(*p) { unimplemented!() }
    #[verifier::external_body]
    pub fn remove(&mut self, p: &WatchedPath) -> (r: bool) ensures final(self).v@ =~= old(self).v@.remove(*p) { unimplemented!() }
    #[verifier::external_body]
    pub fn insert(&mut self, p: WatchedPath) -> (r: bool) ensures final(self).v@ =~= old(self).v@.insert(p) { unimplemented!() }
    // `for path in &pathset`: the elements in some order
    #[verifier::external_body]
    pub fn vx_elems(&self) -> (r: Vec<&WatchedPath>)
        ensures forall|i: int| 0 <= i < r@.len() ==> self.v@.contains(*(#[trigger] r@[i])),
            forall|x: WatchedPath| #[trigger] self.v@.contains(x) ==> 0 <= vx_idx(r@, x) < r@.len() && *r@[vx_idx(r@, x)] == x,
    { unimplemented!() }
}
pub uninterp spec fn vx_idx(s: Seq<&WatchedPath>, x: WatchedPath) -> int;
pub assume_specification<T: PartialEq> [<[T]>::contains] (s: &[T], x: &T) -> (r: bool)
    ensures r == s@.contains(*x);
#[verifier::external_body]
pub fn vx_unreachable() -> !
    requires false, // OBL:C13+C01.fs_worker.a_watcher_exists_whenever_paths_are_applied
{ unimplemented!() }
// std::mem::discriminant on the watcher kind: which variant, not its payload
pub open spec fn watcher_variant(w: Watcher) -> int { match w { Watcher::Native => 0, Watcher::Poll(_) => 1 } }
pub fn discriminant(w: &Watcher) -> (r: u8) ensures r as int == watcher_variant(*w) { match w { Watcher::Native => 0, Watcher::Poll(_) => 1 } }
