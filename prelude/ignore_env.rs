// Environment stand-ins for unit `ignore` (crates/ignore-files/src/filter.rs, crates/filterer/ignore/src/lib.rs). TRUSTED BASE.
// Paths are simplified absolute paths (dunce + normalize ASSUMED idempotent); only ancestry and display length matter.
#[derive(Clone, Copy, PartialEq, Eq, Structural)]
pub struct PathS { pub id: int }
pub uninterp spec fn parent_of(p: PathS) -> Option<PathS>;
pub uninterp spec fn depth(p: PathS) -> nat;
pub uninterp spec fn disp_len(p: PathS) -> nat;                    // length of p.display().to_string()
pub uninterp spec fn str_prefix(a: PathS, b: PathS) -> bool;       // a's display string is a textual prefix of b's (test/ vs tests/!)
// a is p or one of its ancestors (component-wise: Path::starts_with)
pub open spec fn path_anc(a: PathS, p: PathS) -> bool decreases depth(p) {
    a == p || (parent_of(p) is Some && depth(parent_of(p)->Some_0) < depth(p) && path_anc(a, parent_of(p)->Some_0))
}
// PATH THEORY (ASSUMED, about normalised absolute paths and their display strings):
#[verifier::external_body]
pub broadcast proof fn axiom_parent_shorter(p: PathS)
    ensures (#[trigger] parent_of(p)) is Some ==> depth(parent_of(p)->Some_0) < depth(p) && disp_len(parent_of(p)->Some_0) < disp_len(p)
{}
#[verifier::external_body]
pub broadcast proof fn axiom_str_prefix_len(a: PathS, b: PathS)
    ensures #[trigger] str_prefix(a, b) ==> disp_len(a) <= disp_len(b)
{}
#[verifier::external_body]
pub broadcast proof fn axiom_anc_is_str_prefix(a: PathS, p: PathS)
    ensures #[trigger] path_anc(a, p) ==> str_prefix(a, p)
{}
// a textual prefix of a path's display string, cut at its last separator, is a true ancestor of that path
// ("/p/test" is a textual prefix of "/p/tests/x"; its parent "/p" contains "/p/tests/x")
#[verifier::external_body]
pub broadcast proof fn axiom_parent_of_textual_prefix(k: PathS, s: PathS)
    ensures #[trigger] str_prefix(k, s) && parent_of(k) is Some ==> path_anc(parent_of(k)->Some_0, s)
{}
// if d is a true ancestor of s lying strictly below parent(k), and k is a textual prefix of s at least as long as d, then d is k
// (k = q/c with c a textual prefix of the component x that follows q in s; d = q/x/..; |d| <= |k| forces c == x and d == q/x == k)
#[verifier::external_body]
pub proof fn axiom_longest_textual_prefix_on_chain(k: PathS, s: PathS, d: PathS)
    requires str_prefix(k, s), parent_of(k) is Some, path_anc(d, s), path_anc(parent_of(k)->Some_0, d), d != parent_of(k)->Some_0, disp_len(d) <= disp_len(k),
    ensures d == k
{}
// a path without parent is the root; no other path has a display string as short
#[verifier::external_body]
pub proof fn axiom_root_is_shortest(k: PathS, d: PathS)
    requires parent_of(k) is None, disp_len(d) <= disp_len(k)
    ensures d == k
{}
impl PathS {
    #[verifier::external_body]
    pub fn parent(&self) -> (r: Option<&PathS>)
        ensures (r is Some) == (parent_of(*self) is Some), r is Some ==> *r->Some_0 == parent_of(*self)->Some_0
    { unimplemented!() }
    // Path::strip_prefix(base).is_ok()  <=>  Path::starts_with(base)  <=>  base is a component-wise ancestor (or equal)
    #[verifier::external_body]
    pub fn strip_prefix(&self, base: &PathS) -> (r: Result<PathS, ()>) ensures (r is Ok) == path_anc(*base, *self) { unimplemented!() }
    #[verifier::external_body]
    pub fn starts_with(&self, base: &PathS) -> (r: bool) ensures r == path_anc(*base, *self) { unimplemented!() }
    pub fn as_path(&self) -> (r: &PathS) ensures *r == *self { self }
}
// simplify_path(path): ASSUMED to be the identity on already simplified paths (inputs are simplified by the callers)
pub fn simplify_path(p: &PathS) -> (r: PathS) ensures r == *p { *p }
// `p.display().to_string()` and `Path::new(&string)`: the string is kept as "the display string of p" (ASSUMED round trip for UTF-8 paths)
pub struct StrS { pub of: PathS }
pub fn vx_display(p: &PathS) -> (r: StrS) ensures r.of == *p { StrS { of: *p } }
#[verifier::external_body]
pub fn vx_path_of(s: &StrS) -> (r: &PathS) ensures *r == s.of { unimplemented!() }

// ignore::gitignore::{Gitignore, Glob}, ignore::Match: the glob semantics of one compiled ignore file are NOT decided (dependency);
// a matcher is an uninterpreted function of (file, path, is_dir)
pub enum Match<T> { None, Ignore(T), Whitelist(T) }
pub struct Glob { pub id: int, pub from_dir: Option<PathS> }
impl Glob {
    #[verifier::external_body]
    pub fn from(&self) -> (r: Option<&PathS>) ensures (r is Some) == (self.from_dir is Some), r is Some ==> *r->Some_0 == self.from_dir->Some_0 { unimplemented!() }
}
#[derive(Clone, Copy)]
pub struct Gitignore { pub id: int, pub root: PathS }     // root: the directory the file applies in (GitignoreBuilder::new(applies_in))
pub struct GitignoreBuilder { pub id: int }
pub uninterp spec fn g_matched(g: Gitignore, p: PathS, is_dir: bool) -> Match<Glob>;
pub uninterp spec fn g_matched_parents(g: Gitignore, p: PathS, is_dir: bool) -> Match<Glob>;
pub open spec fn view_match(m: Match<&Glob>) -> Match<Glob> {
    match m { Match::None => Match::None, Match::Ignore(g) => Match::Ignore(*g), Match::Whitelist(g) => Match::Whitelist(*g) }
}
pub struct Asked { pub g: Gitignore, pub parents: bool }     // an ignore file was asked about the path (with "path or any parents" or plain)
pub open spec fn answer(a: Asked, p: PathS, is_dir: bool) -> Match<Glob> { if a.parents { g_matched_parents(a.g, p, is_dir) } else { g_matched(a.g, p, is_dir) } }
pub struct IEnv {
    pub consulted: Ghost<Seq<Asked>>,    // the ignore files matched against a path, in order
    pub mark: Ghost<int>,                // length of `consulted` when the current match_path call started
    pub p: Ghost<PathS>,                 // the path the current match_path call is about
}
impl Gitignore {
    #[verifier::external_body]
    pub fn matched_raw(&self, p: &PathS, is_dir: bool, env: &mut IEnv) -> (r: Match<&Glob>)
        ensures view_match(r) == g_matched(*self, *p, is_dir), final(env).consulted@ == old(env).consulted@.push(Asked { g: *self, parents: false }), final(env).mark == old(env).mark, final(env).p == old(env).p,
    { unimplemented!() }
    #[verifier::external_body]
    pub fn matched_path_or_any_parents_raw(&self, p: &PathS, is_dir: bool, env: &mut IEnv) -> (r: Match<&Glob>)
        ensures view_match(r) == g_matched_parents(*self, *p, is_dir), final(env).consulted@ == old(env).consulted@.push(Asked { g: *self, parents: true }), final(env).mark == old(env).mark, final(env).p == old(env).p,
    { unimplemented!() }
}
// radix_trie::Trie<String, Ignore>: get_ancestor(key) = the entry with the LONGEST key that is a TEXTUAL prefix of `key`
pub struct TrieS { pub m: Ghost<Map<PathS, Ignore>> }     // keyed by the directory whose display string is the key
pub struct TrieNode { pub k: StrS, pub v: Ignore }
impl TrieS {
    #[verifier::external_body]
    pub fn get_ancestor_raw(&self, key: &StrS) -> (r: Option<&TrieNode>)
        ensures
            r is Some ==> self.m@.contains_key(r->Some_0.k.of) && self.m@[r->Some_0.k.of] == r->Some_0.v && str_prefix(r->Some_0.k.of, key.of)
                && forall|d: PathS| self.m@.contains_key(d) && #[trigger] str_prefix(d, key.of) ==> disp_len(d) <= disp_len(r->Some_0.k.of),
            r is None ==> forall|d: PathS| self.m@.contains_key(d) ==> !#[trigger] str_prefix(d, key.of),
    { unimplemented!() }
}
impl TrieNode {
    pub fn key(&self) -> (r: Option<&StrS>) ensures r == Some(&self.k) { Some(&self.k) }
    pub fn value(&self) -> (r: Option<&Ignore>) ensures r == Some(&self.v) { Some(&self.v) }
}

// watchexec_events::Event as seen by the filterer: its (path, file type) pairs in tag order; Priority is ignored by this filterer
pub struct Event { pub path_tags: Vec<(PathS, Option<FileType>)> }
impl Event {
    #[verifier::external_body]
    pub fn paths(&self) -> (r: Vec<(PathS, Option<FileType>)>) ensures r@ == self.path_tags@ { unimplemented!() }
}
pub struct Priority;
pub struct RuntimeError;
