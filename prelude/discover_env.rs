// Environment stand-ins for unit `discover` (crates/ignore-files/src/discover.rs). TRUSTED BASE.
// Paths are abstract values; join/parent are uninterpreted functions (no string reasoning).
#[derive(Clone, Copy, PartialEq, Eq, Structural)]
pub struct PathS { pub id: int }
pub struct Name { pub id: int }
impl Name { #[verifier::external_body] pub fn lit(id: u64) -> (r: Name) ensures r.id == id as int { unimplemented!() } }
pub uninterp spec fn pjoin(p: PathS, name: int) -> PathS;
impl PathS {
    #[verifier::external_body]
    pub fn join(&self, n: Name) -> (r: PathS) ensures r == pjoin(*self, n.id) { unimplemented!() }
}
pub struct IoError { pub not_found: bool, pub id: int }
#[derive(Clone, Copy, PartialEq, Eq, Structural)]
pub enum IoErrorKind { NotFound, Other }
impl IoError {
    pub fn kind(&self) -> (r: IoErrorKind) ensures (r is NotFound) == self.not_found { if self.not_found { IoErrorKind::NotFound } else { IoErrorKind::Other } }
}
pub struct Metadata { pub file: bool, pub size: u64 }
impl Metadata {
    pub fn is_file(&self) -> (r: bool) ensures r == self.file { self.file }
    pub fn len(&self) -> (r: u64) ensures r == self.size { self.size }
}
// the file system as discovery sees it: what tokio::fs::metadata answers for a path (fixed during one discovery: ASSUMPTION)
pub uninterp spec fn fs_meta(p: PathS) -> Result<Metadata, IoError>;
#[verifier::external_body]
pub fn metadata(p: &PathS) -> (r: Result<Metadata, IoError>) ensures r == fs_meta(*p) { unimplemented!() }
// ---- from_origin's surroundings ----
pub struct ArgsCheck;
impl ArgsCheck { pub fn expect(self, msg: Name) {} }
impl IgnoreFilesFromOriginArgs {
    pub fn into(self) -> (r: IgnoreFilesFromOriginArgs) ensures r == self { self }
    // well-formedness check of the arguments (absolute paths): not decided
    #[verifier::external_body]
    pub fn check(&self) -> ArgsCheck { unimplemented!() }
}
pub struct MapIter { pub v: Ghost<Seq<IgnoreFile>> }
impl MapIter {
    #[verifier::external_body]
    pub fn collect(self) -> (r: Vec<IgnoreFile>) ensures r@ == self.v@ { unimplemented!() }
}
#[verifier::external_body]
pub fn vmap<F: Fn(&PathS) -> IgnoreFile>(xs: &Vec<PathS>, c: F, Ghost(f): Ghost<spec_fn(PathS) -> IgnoreFile>) -> (r: MapIter)
    requires forall|x: PathS| c.requires((&x,)), forall|x: PathS, y: IgnoreFile| c.ensures((&x,), y) ==> y == f(x),
    ensures r.v@ == xs@.map_values(f),
{ unimplemented!() }
pub struct DEnv {
    pub visited: Ghost<Seq<PathS>>,            // directories the walker handed out (Visit::Find), in order
    pub filter_added: Ghost<Seq<IgnoreFile>>,  // files added to the walker's own ignore filter, in order
    pub after_gitcfg: Ghost<Seq<IgnoreFile>>,  // the list right after the git-config lookup
}
// the `.git/config` core.excludesFile lookup (gix-config parsing, $HOME interpolation: replaced by exact anchor match, not decided): adds at most
// one file, tagged as a git file applying everywhere, and any number of errors
#[verifier::external_body]
pub fn vx_git_config_excludes(origin: &PathS, files: &mut Vec<IgnoreFile>, errors: &mut Vec<IoError>, env: &mut DEnv)
    ensures final(env).after_gitcfg@ == final(files)@, final(env).visited == old(env).visited, final(env).filter_added == old(env).filter_added,
        final(files)@ == old(files)@ || (final(files)@.len() == old(files)@.len() + 1 && final(files)@.drop_last() == old(files)@
        && final(files)@.last().applies_in is None && final(files)@.last().applies_to == Some(ProjectType::Git)),
{ unimplemented!() }
// DirTourist as from_origin sees it (its own functions are items of this unit further down)
pub struct DirTouristS { pub errors: Vec<IoError> }
impl DirTouristS {
    #[verifier::external_body]
    pub fn new(base: &PathS, ignore_files: &Vec<IgnoreFile>, watch_files: &Vec<PathS>, env: &mut DEnv) -> (r: Result<DirTouristS, IoError>)
        ensures *final(env) == *old(env) { unimplemented!() }
    #[verifier::external_body]
    pub fn next(&mut self, env: &mut DEnv) -> (r: Visit)
        ensures final(env).filter_added == old(env).filter_added, final(env).after_gitcfg == old(env).after_gitcfg,
            r is Find ==> final(env).visited@ == old(env).visited@.push(r->Find_0), !(r is Find) ==> final(env).visited == old(env).visited { unimplemented!() }
    #[verifier::external_body]
    pub fn add_last_file_to_filter(&mut self, files: &Vec<IgnoreFile>, errors: &mut Vec<IoError>, env: &mut DEnv)
        requires files@.len() > 0,
        ensures final(env).filter_added@ == old(env).filter_added@.push(files@.last()), final(env).visited == old(env).visited, final(env).after_gitcfg == old(env).after_gitcfg { unimplemented!() }
}
#[verifier::external_body]
pub fn vx_extend_errors(errors: &mut Vec<IoError>, more: Vec<IoError>) { unimplemented!() }
// ---- DirTourist's surroundings ----
// path theory (std::path::Path::{parent, starts_with} are component-wise; strings are not modelled)
pub uninterp spec fn parent_of(p: PathS) -> Option<PathS>;
pub uninterp spec fn depth(p: PathS) -> nat;
pub uninterp spec fn under(a: PathS, b: PathS) -> bool;          // a.starts_with(b): b is a or one of a's ancestors
#[verifier::external_body]
pub broadcast proof fn axiom_parent_depth(p: PathS)
    ensures #[trigger] parent_of(p) is Some ==> depth(parent_of(p)->Some_0) + 1 == depth(p) { }
#[verifier::external_body]
pub broadcast proof fn axiom_under(a: PathS, b: PathS)
    ensures #[trigger] under(a, b) == (a == b || (parent_of(a) is Some && under(parent_of(a)->Some_0, b))) { }
#[verifier::external_body]
pub broadcast proof fn axiom_under_depth(a: PathS, b: PathS)
    ensures #[trigger] under(a, b) ==> depth(b) <= depth(a) { }
impl PathS {
    #[verifier::external_body]
    pub fn parent(&self) -> (r: Option<&PathS>) ensures (r is Some) == (parent_of(*self) is Some), r is Some ==> *r->Some_0 == parent_of(*self)->Some_0 { unimplemented!() }
    #[verifier::external_body]
    pub fn starts_with(&self, o: &PathS) -> (r: bool) ensures r == under(*self, *o) { unimplemented!() }
    pub fn as_path(&self) -> (r: &PathS) ensures *r == *self { self }
}
// HashSet<PathBuf>
pub struct PathSet { pub s: Ghost<Set<PathS>> }
impl PathSet {
    #[verifier::external_body]
    pub fn new() -> (r: PathSet) ensures r.s@ =~= Set::<PathS>::empty() { unimplemented!() }
    #[verifier::external_body]
    pub fn contains(&self, p: &PathS) -> (r: bool) ensures r == self.s@.contains(*p) { unimplemented!() }
    #[verifier::external_body]
    pub fn insert(&mut self, p: PathS) -> (r: bool) ensures final(self).s@ == old(self).s@.insert(p) { unimplemented!() }
    #[verifier::external_body]
    pub fn is_empty(&self) -> (r: bool) ensures r == (self.s@ =~= Set::<PathS>::empty()) { unimplemented!() }
}
// `set.iter().any(C)` (R10e): C comes with its ghost twin
#[verifier::external_body]
pub fn vany_ref<F: Fn(&PathS) -> bool>(xs: &PathSet, c: F, Ghost(p): Ghost<spec_fn(PathS) -> bool>) -> (r: bool)
    requires forall|a: PathS| c.requires((&a,)), forall|a: PathS, o: bool| c.ensures((&a,), o) ==> o == p(a),
    ensures r == exists|a: PathS| xs.s@.contains(a) && #[trigger] p(a),
{ unimplemented!() }
// `self.to_visit.retain(|p| !p.starts_with(check_path))` (replaced by exact token match): keeps, in order, the entries not under check_path
#[verifier::external_body]
pub fn vx_retain_not_under(v: &mut Vec<PathS>, check_path: &PathS)
    ensures forall|x: PathS| #[trigger] final(v)@.contains(x) <==> old(v)@.contains(x) && !under(x, *check_path) { unimplemented!() }
// the walker's IgnoreFilter: which directories it ignores is decided in unit `ignore` (C03); here an uninterpreted function of the files added
// so far and the path
pub struct FilterS { pub files: Ghost<Seq<IgnoreFile>> }
pub uninterp spec fn dir_passes(files: Seq<IgnoreFile>, p: PathS) -> bool;
pub struct FilterErr;
impl FilterS {
    #[verifier::external_body]
    pub fn check_dir(&self, p: &PathS) -> (r: bool) ensures r == dir_passes(self.files@, *p) { unimplemented!() }
    // IgnoreFilter::add_file (unit ignorebuild): reads the file and adds its patterns for its directory; on a read/glob error nothing is added
    #[verifier::external_body]
    pub fn add_file(&mut self, ig: &IgnoreFile) -> (r: Result<(), FilterErr>)
        ensures r is Ok ==> final(self).files@ == old(self).files@.push(*ig), r is Err ==> final(self).files@ == old(self).files@ { unimplemented!() }
}
#[verifier::external_body]
pub fn vx_other_error(e: FilterErr) -> (r: IoError) { unimplemented!() }
// the directory listing
pub struct FileTypeS { pub dir: bool }
impl FileTypeS { pub fn is_dir(&self) -> (r: bool) ensures r == self.dir { self.dir } }
pub struct DirEntryS { pub p: PathS, pub ft: Result<FileTypeS, IoError> }
impl DirEntryS {
    pub fn path(&self) -> (r: PathS) ensures r == self.p { self.p }
    #[verifier::external_body]
    pub fn file_type(&self) -> (r: Result<FileTypeS, IoError>) ensures r is Ok == self.ft is Ok, r is Ok ==> r->Ok_0.dir == self.ft->Ok_0.dir { unimplemented!() }
}
// what tokio::fs::read_dir lists for a directory (each entry is a child of it): fixed during one discovery (ASSUMPTION); reading may fail at any entry
pub uninterp spec fn fs_list(p: PathS) -> Result<Seq<DirEntryS>, IoError>;
pub struct ReadDirS { pub entries: Ghost<Seq<DirEntryS>>, pub pos: Ghost<int> }
#[verifier::external_body]
pub fn read_dir(p: &PathS) -> (r: Result<ReadDirS, IoError>)
    ensures r is Ok == fs_list(*p) is Ok, r is Ok ==> r->Ok_0.entries@ == fs_list(*p)->Ok_0 && r->Ok_0.pos@ == 0,
        r is Ok ==> forall|i: int| 0 <= i < r->Ok_0.entries@.len() ==> parent_of((#[trigger] r->Ok_0.entries@[i]).p) == Some(*p),
{ unimplemented!() }
impl ReadDirS {
    #[verifier::external_body]
    pub fn next_entry(&mut self) -> (r: Result<Option<DirEntryS>, IoError>)
        requires 0 <= old(self).pos@ <= old(self).entries@.len(),
        ensures final(self).entries == old(self).entries,
            r is Ok && r->Ok_0 is Some ==> old(self).pos@ < old(self).entries@.len() && r->Ok_0->Some_0 == old(self).entries@[old(self).pos@] && final(self).pos@ == old(self).pos@ + 1,
            r is Ok && r->Ok_0 is None ==> old(self).pos@ == old(self).entries@.len() && final(self).pos == old(self).pos,
            r is Err ==> final(self).pos == old(self).pos,
    { unimplemented!() }
}

// ---- DirTourist::new's surroundings ----
pub uninterp spec fn canon(p: PathS) -> PathS;                  // tokio::fs::canonicalize (may fail)
#[verifier::external_body]
pub fn vx_canonicalize(base: &PathS) -> (r: Result<PathS, IoError>) ensures r is Ok ==> r->Ok_0 == canon(*base) { unimplemented!() }
impl FilterS {
    // IgnoreFilter::new(origin, files) (unit ignorebuild): a filter holding the listed files, or an error
    #[verifier::external_body]
    pub fn vx_new(base: &PathS, files: &Vec<IgnoreFile>) -> (r: Result<FilterS, FilterErr>) ensures r is Ok ==> r->Ok_0.files@ == files@ { unimplemented!() }
    // IgnoreFilter::add_globs of the seven VCS metadata directory names at the origin (the list is pinned by C14.structure.vcs_metadata_directory_*):
    // glob lines are not IgnoreFile entries, the list of files is unchanged
    #[verifier::external_body]
    pub fn vx_add_vcs_globs(&mut self, base: &PathS) -> (r: Result<(), FilterErr>) ensures final(self).files@ == old(self).files@ { unimplemented!() }
}
// `paths.iter().cloned().collect()` into a HashSet<PathBuf>
#[verifier::external_body]
pub fn vx_path_set_of(xs: &Vec<PathS>) -> (r: PathSet) ensures r.s@ =~= xs@.to_set() { unimplemented!() }
