// Environment stand-ins for unit `cfgwatch` (crates/lib/src/config.rs: Config::signal_change, ConfigWatched::{new,next}). TRUSTED BASE.
// Other threads may signal a change at any moment: every environment call may first let `incs`/`notifs` grow (notifs <= incs).
pub struct CEnv {
    pub clock: Ghost<nat>,          // logical time: grows with every environment call
    pub incs: Ghost<nat>,           // change_count increments done so far (by anyone)
    pub notifs: Ghost<nat>,         // notify_waiters() calls done so far (by anyone)
    pub last_load_clock: Ghost<nat>,
    pub last_load_value: Ghost<nat>,
    pub waits: Ghost<nat>,          // times this watcher went to sleep on its Notified
}
pub open spec fn env_grows(a: &CEnv, b: &CEnv) -> bool {
    b.clock@ > a.clock@ && b.incs@ >= a.incs@ && b.notifs@ >= a.notifs@ && b.notifs@ <= b.incs@
}
pub struct Ordering;
impl Ordering { pub const SeqCst: Ordering = Ordering; }
pub struct NotifyS;          // Arc<tokio::sync::Notify>
pub struct CountS;           // Arc<AtomicU64> (machine wrap-around of the counter after 2^64 changes is not modelled)
pub struct NotifiedS { pub enabled: Ghost<bool>, pub enabled_clock: Ghost<nat>, pub notifs_at_enable: Ghost<nat> }
pub struct PinnedS { pub n: NotifiedS }
impl NotifyS {
    pub fn notified(&self) -> (r: NotifiedS) ensures !r.enabled@ { NotifiedS { enabled: Ghost(false), enabled_clock: Ghost(0), notifs_at_enable: Ghost(0) } }
    // Notify::notify_waiters as called by signal_change: wakes every Notified enabled before this call.
    // OBLIGATION carried by the precondition: the count was incremented for this change before the wake-up is sent
    #[verifier::external_body]
    pub fn notify_waiters(&self, env: &mut CEnv)
        requires old(env).incs@ > old(env).notifs@, // OBL:C13.signal_change.counts_then_wakes
        ensures final(env).clock@ > old(env).clock@, final(env).incs@ >= old(env).incs@, final(env).notifs@ == old(env).notifs@ + 1,
            final(env).last_load_clock == old(env).last_load_clock, final(env).last_load_value == old(env).last_load_value, final(env).waits == old(env).waits,
    { unimplemented!() }
    // Notify::notify_one: wakes (or leaves a permit for) ONE waiter only; with several config watchers sharing the Notify it is not a wake-up of
    // every enabled Notified, so it does not count as one here (not used today; present so that such a change is decided)
    #[verifier::external_body]
    pub fn notify_one(&self, env: &mut CEnv)
        ensures final(env).clock@ > old(env).clock@, final(env).incs@ >= old(env).incs@, final(env).notifs@ == old(env).notifs@,
            final(env).last_load_clock == old(env).last_load_clock, final(env).last_load_value == old(env).last_load_value, final(env).waits == old(env).waits,
    { unimplemented!() }
    pub fn clone(&self) -> NotifyS { NotifyS }
}
impl CountS {
    #[verifier::external_body]
    pub fn fetch_add(&self, n: u64, o: Ordering, env: &mut CEnv) -> (r: u64)
        requires n == 1,
        ensures final(env).clock@ > old(env).clock@, final(env).incs@ == old(env).incs@ + 1, final(env).notifs@ == old(env).notifs@,
            final(env).last_load_clock == old(env).last_load_clock, final(env).last_load_value == old(env).last_load_value, final(env).waits == old(env).waits,
    { unimplemented!() }
    // AtomicU64::load(SeqCst): the number of increments done so far
    #[verifier::external_body]
    pub fn load(&self, o: Ordering, env: &mut CEnv) -> (r: u64)
        ensures env_grows(old(env), final(env)), r as nat == final(env).incs@, final(env).last_load_clock@ == final(env).clock@, final(env).last_load_value@ == r as nat,
            final(env).waits == old(env).waits,
    { unimplemented!() }
    pub fn clone(&self) -> CountS { CountS }
}
// pin!(notified)
pub fn vx_pin(n: NotifiedS) -> (r: PinnedS) ensures r.n == n { PinnedS { n } }
impl PinnedS {
    // notified.as_mut().enable(): from now on a notify_waiters() wakes this Notified
    #[verifier::external_body]
    pub fn vx_enable(&mut self, env: &mut CEnv)
        ensures env_grows(old(env), final(env)), final(self).n.enabled@, final(self).n.enabled_clock@ == final(env).clock@, final(self).n.notifs_at_enable@ == final(env).notifs@,
            final(env).last_load_clock == old(env).last_load_clock, final(env).last_load_value == old(env).last_load_value, final(env).waits == old(env).waits,
    { unimplemented!() }
    // notified.await: returns once a notify_waiters() happened after enable().
    // OBLIGATION carried by the precondition ("no change is lost"): the watcher only goes to sleep when its Notified was enabled BEFORE it read the
    // count, and the count it read is the one it has already reported: every change not yet reported then sends its wake-up after the enable
    #[verifier::external_body]
    pub fn vx_wait(self, Ghost(seen): Ghost<nat>, env: &mut CEnv)
        requires self.n.enabled@, // OBL:C13.config_watched.sleeps_only_armed_and_with_nothing_unreported
            old(env).last_load_clock@ > self.n.enabled_clock@, // OBL:C13.config_watched.sleeps_only_armed_and_with_nothing_unreported
            old(env).last_load_value@ == seen, // OBL:C13.config_watched.sleeps_only_armed_and_with_nothing_unreported
        ensures env_grows(old(env), final(env)), final(env).notifs@ > self.n.notifs_at_enable@, final(env).waits@ == old(env).waits@ + 1,
            final(env).last_load_clock == old(env).last_load_clock, final(env).last_load_value == old(env).last_load_value,
    { unimplemented!() }
}
// the two fields of Config that signal_change touches
pub struct Config { pub change_signal: NotifyS, pub change_count: CountS }
