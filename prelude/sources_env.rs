// Environment stand-ins for unit `sources` (crates/lib/src/sources/{fs,signal,keyboard}.rs, Watchexec::send_event). TRUSTED BASE.
// Tag, Source, Keyboard, Priority, FileType, Signal are the REAL enums (extracted); only foreign payload types are stand-ins.
#[derive(Clone, Copy, PartialEq, Eq, Structural)]
pub struct PathS { pub id: int }
#[derive(Clone, Copy, PartialEq, Eq, Structural)]
pub struct FileEventKind { pub v: int }    // notify's EventKind: opaque here (names: unit `names`)
#[derive(Clone, Copy, PartialEq, Eq, Structural)]
pub struct ProcessEnd { pub v: int }
pub struct MetaMap;   // Event.metadata: informational, not part of the conservation claim
impl MetaMap { #[verifier::external_body] pub fn is_empty(&self) -> bool { unimplemented!() } }
pub struct StrS { pub id: int }
pub struct Event { pub tags: Vec<Tag>, pub metadata: MetaMap }
impl MetaMap {
    #[verifier::external_body]
    pub fn default() -> MetaMap { unimplemented!() }
    #[verifier::external_body]
    pub fn new() -> MetaMap { unimplemented!() }
    #[verifier::external_body]
    pub fn insert(&mut self, k: StrS, v: Vec<StrS>) -> Option<Vec<StrS>> { unimplemented!() }
}
impl StrS {
    #[verifier::external_body]
    pub fn lit(id: u64) -> (r: StrS) ensures r.id == id as int { unimplemented!() }
    #[verifier::external_body]
    pub fn to_string(&self) -> StrS { unimplemented!() }
}
pub struct SendErr;      // async_priority_channel::SendError<(Event, Priority)>
pub struct TrySendErr;   // async_priority_channel::TrySendError<..>
pub struct ErrSendErr;   // mpsc::error::SendError<RuntimeError>
pub struct NotifyError;
#[derive(Clone, Copy)]
pub struct Watcher { pub v: int }   // sources::fs::Watcher (kind of file watcher)
pub enum FsWatcherError { Event(NotifyError), Other }
pub enum RuntimeError {
    EventChannelSend { ctx: StrS, err: SendErr },
    EventChannelTrySend { ctx: StrS, err: TrySendErr },
    FsWatcher { kind: Watcher, err: FsWatcherError },
    Other,
}
pub enum CriticalError { ErrorChannelSend, EventChannelSend, Other }
// `?`: CriticalError: From<mpsc::error::SendError<RuntimeError>> / From<async_priority_channel::SendError<..>> (thiserror #[from])
pub fn vx_id<T>(x: T) -> (r: T) ensures r == x { x }
#[verifier::external_body]
pub fn vx_from(e: ErrSendErr) -> (r: CriticalError) ensures r is ErrorChannelSend { unimplemented!() }
#[verifier::external_body]
pub fn vx_from_ev(e: SendErr) -> (r: CriticalError) ensures r is EventChannelSend { unimplemented!() }

pub struct SEnv {
    pub sent: Ghost<Seq<(Seq<Tag>, Priority)>>,   // events accepted into the event queue, in order: (tags, priority)
    pub attempts: Ghost<nat>,                     // send/try_send calls on the event queue
    pub errs: Ghost<Seq<RuntimeError>>,           // runtime errors accepted into the error channel
    pub err_attempts: Ghost<nat>,
    pub nowait_sends: Ghost<nat>,                 // sends on the event queue that do not wait for room (try_send): such a send may refuse an event
                                                  // merely because the queue is full
}
// async_priority_channel::Sender<Event, Priority>
pub struct EvTx;
impl EvTx {
    // send: waits for room; Err iff the channel is closed (nothing queued)
    #[verifier::external_body]
    pub fn send(&self, ev: Event, p: Priority, env: &mut SEnv) -> (r: Result<(), SendErr>)
        ensures r is Ok ==> final(env).sent@ == old(env).sent@.push((ev.tags@, p)), r is Err ==> final(env).sent == old(env).sent,
            final(env).attempts@ == old(env).attempts@ + 1, final(env).errs == old(env).errs, final(env).err_attempts == old(env).err_attempts,
            final(env).nowait_sends == old(env).nowait_sends,
    { unimplemented!() }
    // try_send: Err iff full or closed (nothing queued)
    #[verifier::external_body]
    pub fn try_send(&self, ev: Event, p: Priority, env: &mut SEnv) -> (r: Result<(), TrySendErr>)
        ensures r is Ok ==> final(env).sent@ == old(env).sent@.push((ev.tags@, p)), r is Err ==> final(env).sent == old(env).sent,
            final(env).attempts@ == old(env).attempts@ + 1, final(env).errs == old(env).errs, final(env).err_attempts == old(env).err_attempts,
            final(env).nowait_sends@ == old(env).nowait_sends@ + 1,
    { unimplemented!() }
}
// mpsc::Sender<RuntimeError>
pub struct ErrTx;
impl ErrTx {
    #[verifier::external_body]
    pub fn send(&self, e: RuntimeError, env: &mut SEnv) -> (r: Result<(), ErrSendErr>)
        ensures r is Ok ==> final(env).errs@ == old(env).errs@.push(e), r is Err ==> final(env).errs == old(env).errs,
            final(env).err_attempts@ == old(env).err_attempts@ + 1, final(env).sent == old(env).sent, final(env).attempts == old(env).attempts, final(env).nowait_sends == old(env).nowait_sends,
    { unimplemented!() }
    #[verifier::external_body]
    pub fn try_send(&self, e: RuntimeError, env: &mut SEnv) -> (r: Result<(), ErrSendErr>)
        ensures r is Ok ==> final(env).errs@ == old(env).errs@.push(e), r is Err ==> final(env).errs == old(env).errs,
            final(env).err_attempts@ == old(env).err_attempts@ + 1, final(env).sent == old(env).sent, final(env).attempts == old(env).attempts, final(env).nowait_sends == old(env).nowait_sends,
    { unimplemented!() }
}
// notify::Event as delivered to the watcher callback
pub struct NotifyAttrs { pub pid: Option<u32> }
impl NotifyAttrs {
    pub fn process_id(&self) -> (r: Option<u32>) ensures r == self.pid { self.pid }
    #[verifier::external_body]
    pub fn info(&self) -> (r: Option<StrS>) { unimplemented!() }
    #[verifier::external_body]
    pub fn source(&self) -> (r: Option<StrS>) { unimplemented!() }
}
pub struct NotifyEvent { pub kind: FileEventKind, pub paths: Vec<PathS>, pub attrs: NotifyAttrs }
// metadata(&path).ok().map(|m| m.file_type().into()) and path.normalize(): functions of the path and the file system snapshot
pub uninterp spec fn fs_file_type(p: PathS) -> Option<FileType>;
pub uninterp spec fn normalized(p: PathS) -> PathS;
#[verifier::external_body]
pub fn vx_file_type_of(p: &PathS) -> (r: Option<FileType>) ensures r == fs_file_type(*p) { unimplemented!() }
impl PathS {
    #[verifier::external_body]
    pub fn normalize(&self) -> (r: PathS) ensures r == normalized(*self) { unimplemented!() }
}
// Watchexec { event_input, .. }
pub struct Watchexec { pub event_input: EvTx }

// `xs.iter().filter_map(C)` (R10d): C comes with its ghost twin; the result lists, in order, the Some(..) values
pub struct FmIter<U> { pub v: Ghost<Seq<U>> }
pub open spec fn filter_map_seq<T, U>(s: Seq<T>, f: spec_fn(T) -> Option<U>) -> Seq<U> decreases s.len() {
    if s.len() == 0 { Seq::empty() } else {
        match f(s.last()) { Some(u) => filter_map_seq(s.drop_last(), f).push(u), None => filter_map_seq(s.drop_last(), f) }
    }
}
// Y.iter().flat_map(C): the concatenation, in order, of what C yields for each element
pub open spec fn flat_seq<T, U>(s: Seq<T>, g: spec_fn(T) -> Seq<U>) -> Seq<U> decreases s.len() {
    if s.len() == 0 { Seq::empty() } else { flat_seq(s.drop_last(), g) + g(s.last()) }
}
#[verifier::external_body]
pub fn vflat_map<T, U, F: Fn(&T) -> FmIter<U>>(xs: &Vec<T>, c: F, Ghost(g): Ghost<spec_fn(T) -> Seq<U>>) -> (r: FmIter<U>)
    requires forall|x: T| c.requires((&x,)), forall|x: T, y: FmIter<U>| c.ensures((&x,), y) ==> y.v@ == g(x),
    ensures r.v@ == flat_seq(xs@, g),
{ unimplemented!() }
// action::Handler: the event set of one action (Arc<[Event]> in the real code, read as a Vec here)
pub struct Handler { pub events: Vec<Event> }
#[verifier::external_body]
pub fn vfilter_map<T, U, F: Fn(&T) -> Option<U>>(xs: &Vec<T>, c: F, Ghost(f): Ghost<spec_fn(T) -> Option<U>>) -> (r: FmIter<U>)
    requires forall|x: T| c.requires((&x,)), forall|x: T, y: Option<U>| c.ensures((&x,), y) ==> y == f(x),
    ensures r.v@ == filter_map_seq(xs@, f),
{ unimplemented!() }
