// Environment stand-ins for unit `cliaction` (crates/cli/src/config.rs action handler pieces, crates/lib/src/action/handler.rs quit setters). TRUSTED BASE.
#[derive(Clone, Copy, PartialEq, Eq, Structural)]
pub struct Duration { pub ns: u128 }
impl Duration { pub const ZERO: Duration = Duration { ns: 0 }; }
pub struct Ordering;
impl Ordering { pub const SeqCst: Ordering = Ordering; pub const Relaxed: Ordering = Ordering; }
// what the action handler does to the job and to the Watchexec instance, in order
pub enum Act {
    Send(Ctl),              // a control handed to the job (the call returns a ticket)
    Await(Ctl),             // the ticket of that control awaited to completion
    SpawnQueueTask,         // tokio::spawn of the queue-mode follow-up task (item `queue_task`)
}
#[derive(PartialEq, Eq, Structural, Clone, Copy)]
pub enum Ctl { Start, Signal(Signal), Restart, RestartWithSignal(Signal, Duration), RunSetup, ToWait,
    // not used by the handler today; present so that a change to them is decided instead of falling outside the subset
    Stop, StopWithSignal(Signal, Duration), TryRestart, TryRestartWithSignal(Signal, Duration), Delete }
pub struct AEnv {
    pub log: Ghost<Seq<Act>>,
    pub queued: Ghost<bool>,        // the shared `queued` AtomicBool
    pub quit_again: Ghost<nat>,     // the shared `quit_again` AtomicU8
    pub cleared_at: Ghost<nat>,     // length of `log` when queued.store(false) last ran
}
pub struct TicketS { pub c: Ghost<Ctl> }
impl TicketS {
    // `.await` on a ticket (R1m)
    #[verifier::external_body]
    pub fn vx_awaited(self, env: &mut AEnv)
        ensures final(env).log@ == old(env).log@.push(Act::Await(self.c@)), final(env).queued == old(env).queued, final(env).quit_again == old(env).quit_again,
    { unimplemented!() }
}
pub open spec fn sent(a: &AEnv, b: &AEnv, c: Ctl) -> bool { b.log@ == a.log@.push(Act::Send(c)) && b.queued == a.queued && b.quit_again == a.quit_again }
// the `move |context| { clear_screen(); setup_process(innerjob.clone(), context.command.clone(), outflags); }` closure handed to job.run
// (replaced by exact token match): prints the banner / clears the screen; not decided
pub struct VxSetup;
// watchexec_supervisor::job::Job handle: every method sends one control and returns its ticket (unit `task` decides what the job does with it)
pub struct Job;
impl Job {
    pub fn clone(&self) -> Job { Job }
    #[verifier::external_body]
    pub fn start(&self, env: &mut AEnv) -> (t: TicketS) ensures sent(old(env), final(env), Ctl::Start), t.c@ == Ctl::Start { unimplemented!() }
    #[verifier::external_body]
    pub fn signal(&self, s: Signal, env: &mut AEnv) -> (t: TicketS) ensures sent(old(env), final(env), Ctl::Signal(s)), t.c@ == Ctl::Signal(s) { unimplemented!() }
    #[verifier::external_body]
    pub fn restart(&self, env: &mut AEnv) -> (t: TicketS) ensures sent(old(env), final(env), Ctl::Restart), t.c@ == Ctl::Restart { unimplemented!() }
    #[verifier::external_body]
    pub fn restart_with_signal(&self, s: Signal, d: Duration, env: &mut AEnv) -> (t: TicketS)
        ensures sent(old(env), final(env), Ctl::RestartWithSignal(s, d)), t.c@ == Ctl::RestartWithSignal(s, d) { unimplemented!() }
    #[verifier::external_body]
    pub fn run(&self, f: VxSetup, env: &mut AEnv) -> (t: TicketS) ensures sent(old(env), final(env), Ctl::RunSetup), t.c@ == Ctl::RunSetup { unimplemented!() }
    #[verifier::external_body]
    pub fn stop(&self, env: &mut AEnv) -> (t: TicketS) ensures sent(old(env), final(env), Ctl::Stop), t.c@ == Ctl::Stop { unimplemented!() }
    #[verifier::external_body]
    pub fn stop_with_signal(&self, s: Signal, d: Duration, env: &mut AEnv) -> (t: TicketS)
        ensures sent(old(env), final(env), Ctl::StopWithSignal(s, d)), t.c@ == Ctl::StopWithSignal(s, d) { unimplemented!() }
    #[verifier::external_body]
    pub fn try_restart(&self, env: &mut AEnv) -> (t: TicketS) ensures sent(old(env), final(env), Ctl::TryRestart), t.c@ == Ctl::TryRestart { unimplemented!() }
    #[verifier::external_body]
    pub fn try_restart_with_signal(&self, s: Signal, d: Duration, env: &mut AEnv) -> (t: TicketS)
        ensures sent(old(env), final(env), Ctl::TryRestartWithSignal(s, d)), t.c@ == Ctl::TryRestartWithSignal(s, d) { unimplemented!() }
    #[verifier::external_body]
    pub fn delete(&self, env: &mut AEnv) -> (t: TicketS) ensures sent(old(env), final(env), Ctl::Delete), t.c@ == Ctl::Delete { unimplemented!() }
    #[verifier::external_body]
    pub fn to_wait(&self, env: &mut AEnv) -> (t: TicketS) ensures sent(old(env), final(env), Ctl::ToWait), t.c@ == Ctl::ToWait { unimplemented!() }
}
// Arc<AtomicBool> `queued`
pub struct QueuedS;
impl QueuedS {
    pub fn clone(&self) -> QueuedS { QueuedS }
    #[verifier::external_body]
    pub fn fetch_or(&self, v: bool, o: Ordering, env: &mut AEnv) -> (r: bool)
        ensures r == old(env).queued@, final(env).queued@ == (old(env).queued@ || v), final(env).log == old(env).log, final(env).quit_again == old(env).quit_again { unimplemented!() }
    #[verifier::external_body]
    pub fn store(&self, v: bool, o: Ordering, env: &mut AEnv)
        ensures final(env).queued@ == v, final(env).log == old(env).log, final(env).quit_again == old(env).quit_again,
            final(env).cleared_at@ == (if v { old(env).cleared_at@ } else { old(env).log@.len() }) { unimplemented!() }
}
// the queue-mode follow-up task handed to tokio::spawn (proved separately as item `queue_task`)
pub struct VxQueueTask;
#[verifier::external_body]
pub fn vx_spawn(t: VxQueueTask, env: &mut AEnv)
    ensures final(env).log@ == old(env).log@.push(Act::SpawnQueueTask), final(env).queued == old(env).queued, final(env).quit_again == old(env).quit_again { unimplemented!() }
// Arc<AtomicU8> `quit_again` (wrap-around after 256 quit requests not modelled)
pub struct QuitAgainS;
impl QuitAgainS {
    #[verifier::external_body]
    pub fn fetch_add(&self, n: u8, o: Ordering, env: &mut AEnv) -> (r: u8)
        requires n == 1, old(env).quit_again@ < 255,
        ensures r as nat == old(env).quit_again@, final(env).quit_again@ == old(env).quit_again@ + 1, final(env).log == old(env).log, final(env).queued == old(env).queued { unimplemented!() }
}
// watchexec::action::Handler (ActionHandler): only what the quit path touches; `sigs` = the signals carried by the events of this action
pub struct Handler { pub quit: Option<QuitManner>, pub sigs: Vec<Signal>, pub has_path: Ghost<bool>, pub has_empty: Ghost<bool> }
impl Handler {
    // action.paths().next().is_none(): no event of this action names a path (Handler::paths / Event::paths are proved in unit sources)
    #[verifier::external_body]
    pub fn vx_no_paths(&self) -> (r: bool) ensures r == !self.has_path@ { unimplemented!() }
    // action.events.iter().any(Event::is_empty): some event of this action is empty, i.e. synthetic (Event::is_empty is proved in unit sources)
    #[verifier::external_body]
    pub fn vx_any_empty(&self) -> (r: bool) ensures r == self.has_empty@ { unimplemented!() }
    // action.signals().collect::<Vec<Signal>>()
    #[verifier::external_body]
    pub fn vx_signals(&self) -> (r: Vec<Signal>) ensures r@ == self.sigs@ { unimplemented!() }
}
// Arc<HashMap<Signal, Option<Signal>>> built from --map-signal
pub struct SignalMap { pub m: Ghost<Map<Signal, Option<Signal>>> }
impl SignalMap {
    #[verifier::external_body]
    pub fn contains_key(&self, k: &Signal) -> (r: bool) ensures r == self.m@.contains_key(*k) { unimplemented!() }
}
pub assume_specification<T: PartialEq> [<[T]>::contains] (s: &[T], x: &T) -> (r: bool)
    ensures r == s@.contains(*x);
// Option::or (std): the first if it is Some, else the second
pub assume_specification<T> [Option::<T>::or] (a: Option<T>, b: Option<T>) -> (r: Option<T>)
    ensures r == (if a is Some { a } else { b });
pub assume_specification<T> [core::mem::drop::<T>] (x: T);
// the early `return action;` of the event gate: the action is handed back untouched, nothing is started
pub struct GateOut { pub skipped: bool, pub action: Handler }
pub fn vx_skip(action: Handler) -> (r: GateOut) ensures r.skipped, r.action == action { GateOut { skipped: true, action } }
pub fn vx_go_on(action: Handler) -> (r: GateOut) ensures !r.skipped, r.action == action { GateOut { skipped: false, action } }
