// Environment stand-ins for unit `origins` (crates/project-origins). TRUSTED BASE.
// Paths are abstract: only parent() and equality matter. File names are interned string literals (R9).
#[derive(Clone, Copy, PartialEq, Eq, Structural)]
pub struct PathS { pub id: int }
pub uninterp spec fn parent_of(p: PathS) -> Option<PathS>;
pub uninterp spec fn depth(p: PathS) -> nat;    // number of components
#[verifier::external_body]
pub broadcast proof fn axiom_parent_depth(p: PathS)
    ensures (#[trigger] parent_of(p)) is Some ==> depth(parent_of(p)->Some_0) < depth(p)
{}
impl PathS {
    pub fn as_ref(&self) -> (r: &PathS) ensures *r == *self { self }
    #[verifier::external_body]
    pub fn parent(&self) -> (r: Option<&PathS>)
        ensures (r is Some) == (parent_of(*self) is Some), r is Some ==> *r->Some_0 == parent_of(*self)->Some_0
    { unimplemented!() }
    pub fn to_owned(&self) -> (r: PathS) ensures r == *self { *self }
}
// HashSet<PathBuf>
pub struct PathSet { pub v: Ghost<Set<PathS>> }
impl PathSet {
    #[verifier::external_body]
    pub fn new() -> (r: PathSet) ensures r.v@ =~= Set::<PathS>::empty() { unimplemented!() }
    #[verifier::external_body]
    pub fn insert(&mut self, p: PathS) -> (b: bool) ensures final(self).v@ =~= old(self).v@.insert(p) { unimplemented!() }
}
#[derive(Clone, Copy)]
pub struct Name { pub id: int }
impl Name {
    #[verifier::external_body]
    pub fn lit(id: u64) -> (r: Name) ensures r.id == id as int { unimplemented!() }
    pub fn as_ref(&self) -> (r: Name) ensures r == *self { *self }
}
// std::fs::FileType of a directory entry
#[derive(Clone, Copy, PartialEq, Eq, Structural)]
pub enum Kind { File, Dir, Other }
pub struct FileType { pub kind: Kind }
impl FileType {
    pub fn is_file(&self) -> (r: bool) ensures r == (self.kind == Kind::File) { self.kind == Kind::File }
    pub fn is_dir(&self) -> (r: bool) ensures r == (self.kind == Kind::Dir) { self.kind == Kind::Dir }
}
// HashMap<PathBuf, FileType>: the directory listing, keyed by entry name
pub struct EntryMap { pub m: Ghost<Map<int, Kind>> }
impl EntryMap {
    #[verifier::external_body]
    pub fn get(&self, name: Name) -> (r: Option<&FileType>)
        ensures (r is Some) == self.m@.contains_key(name.id), r is Some ==> r->Some_0.kind == self.m@[name.id]
    { unimplemented!() }
    #[verifier::external_body]
    pub fn is_empty(&self) -> (r: bool) ensures r == (self.m@.dom() =~= Set::<int>::empty()) { unimplemented!() }
    // HashMap::contains_key (not used today; present so that a name-only test is decided)
    #[verifier::external_body]
    pub fn contains_key(&self, name: Name) -> (r: bool) ensures r == self.m@.contains_key(name.id) { unimplemented!() }
}
// the file system snapshot seen by DirList::obtain (ASSUMPTION: one consistent snapshot during a call; unreadable dir = empty listing)
pub uninterp spec fn fs_entries(p: PathS) -> Map<int, Kind>;
// `[a, b, ..].into_iter().any(|f| f)` and `[..].into_iter().flatten().collect::<HashSet<_>>()` (R10)
#[verifier::external_body]
pub fn vx_arr_any<const N: usize>(a: [bool; N]) -> (r: bool)
    ensures r == exists|i: int| 0 <= i < N && #[trigger] a@[i]
{ unimplemented!() }
pub struct TypeSet { pub v: Ghost<Set<ProjectType>> }
#[verifier::external_body]
pub fn vx_collect_some<const N: usize>(a: [Option<ProjectType>; N]) -> (r: TypeSet)
    ensures forall|t: ProjectType| r.v@.contains(t) <==> exists|i: int| 0 <= i < N && #[trigger] a@[i] == Some(t)
{ unimplemented!() }
