// Environment stand-ins for unit `ignorebuild` (crates/ignore-files/src/filter.rs: how the per-directory matchers are constructed). TRUSTED BASE.
#[derive(Clone, Copy, PartialEq, Eq, Structural)]
pub struct PathS { pub id: int }
impl PathS {
    pub fn display(&self) -> (r: DisplayS) ensures r.of == *self { DisplayS { of: *self } }
    pub fn to_owned(&self) -> (r: PathS) ensures r == *self { *self }
    pub fn as_ref(&self) -> (r: &PathS) ensures *r == *self { self }
}
pub struct DisplayS { pub of: PathS }
impl DisplayS { pub fn to_string(&self) -> (r: StrS) ensures r.of == self.of { StrS { of: self.of } } }
// a trie key: the display string of a directory (distinct directories have distinct strings)
#[derive(Clone, Copy, PartialEq, Eq, Structural)]
pub struct StrS { pub of: PathS }
// ignore::gitignore::{Gitignore, GitignoreBuilder}: a matcher interprets its patterns relative to its root (GitignoreBuilder::new(root)); the
// empty matcher has no root and matches nothing
#[derive(Clone, Copy, PartialEq, Eq, Structural)]
pub struct Gitignore { pub root: Option<PathS>, pub id: int }
#[derive(Clone, Copy, PartialEq, Eq, Structural)]
pub struct GitignoreBuilder { pub root: PathS, pub id: int }
pub struct GlobErr;
impl Gitignore {
    #[verifier::external_body]
    pub fn empty() -> (r: Gitignore) ensures r.root is None { unimplemented!() }
    #[verifier::external_body]
    pub fn num_ignores(&self) -> u64 { unimplemented!() }
    #[verifier::external_body]
    pub fn num_whitelists(&self) -> u64 { unimplemented!() }
}
// the pattern lines a builder holds / a compiled matcher was built from, in order (later lines take precedence: the ignore crate)
#[derive(Clone, Copy, PartialEq, Eq, Structural)]
pub struct LineS { pub id: int }
pub uninterp spec fn line_blank(l: LineS) -> bool;      // str::is_empty
pub uninterp spec fn line_comment(l: LineS) -> bool;    // starts_with('#')
impl LineS {
    #[verifier::external_body]
    pub fn is_empty(&self) -> (r: bool) ensures r == line_blank(*self) { unimplemented!() }
    #[verifier::external_body]
    pub fn starts_with(&self, c: char) -> (r: bool) requires c == '#' ensures r == line_comment(*self) { unimplemented!() }
}
pub uninterp spec fn builder_lines(b: GitignoreBuilder) -> Seq<LineS>;
pub uninterp spec fn matcher_lines(g: Gitignore) -> Seq<LineS>;
// the text of an ignore file, as its lines
pub struct ContentS { pub lines: Ghost<Seq<LineS>> }
impl ContentS {
    #[verifier::external_body]
    pub fn lines(&self) -> (r: Vec<LineS>) ensures r@ == self.lines@ { unimplemented!() }
}
impl GitignoreBuilder {
    #[verifier::external_body]
    pub fn new(root: &PathS) -> (r: GitignoreBuilder) ensures r.root == *root, builder_lines(r) =~= Seq::<LineS>::empty() { unimplemented!() }
    #[verifier::external_body]
    pub fn build(&self) -> (r: Result<Gitignore, GlobErr>) ensures r is Ok ==> r->Ok_0.root == Some(self.root) && matcher_lines(r->Ok_0) == builder_lines(*self) { unimplemented!() }
    // add_line(from, line): appends one pattern line (the `from` argument only labels diagnostics); a malformed glob is an error and adds nothing
    #[verifier::external_body]
    pub fn add_line(&mut self, from: Option<PathS>, line: LineS) -> (r: Result<(), GlobErr>)
        ensures final(self).root == old(self).root, r is Ok ==> builder_lines(*final(self)) == builder_lines(*old(self)).push(line),
    { unimplemented!() }
    pub fn clone(&self) -> (r: GitignoreBuilder) ensures r == *self { *self }
    pub fn to_owned(&self) -> (r: GitignoreBuilder) ensures r == *self { *self }
}
// radix_trie::Trie<String, Ignore>, seen as a map from the directory whose display string is the key
pub struct TrieS { pub m: Ghost<Map<PathS, Ignore>> }
impl TrieS {
    #[verifier::external_body]
    pub fn new() -> (r: TrieS) ensures r.m@ =~= Map::<PathS, Ignore>::empty() { unimplemented!() }
    #[verifier::external_body]
    pub fn get(&self, k: &StrS) -> (r: Option<&Ignore>) ensures (r is Some) == self.m@.contains_key(k.of), r is Some ==> *r->Some_0 == self.m@[k.of] { unimplemented!() }
    #[verifier::external_body]
    pub fn insert(&mut self, k: StrS, v: Ignore) -> (r: Option<Ignore>) ensures final(self).m@ == old(self).m@.insert(k.of, v) { unimplemented!() }
}
pub struct Error;
#[verifier::external_body]
pub fn vx_from_glob(e: GlobErr) -> (r: Error) { unimplemented!() }
// PathBuf::from(prefix(origin)): the root of the file system the origin lives on ("/" on unix): prefix() is string/component code, not decided
pub uninterp spec fn fs_root(origin: PathS) -> PathS;
#[verifier::external_body]
pub fn vx_fs_root(origin: &PathS) -> (r: PathS) ensures r == fs_root(*origin) { unimplemented!() }
// simplify_path (dunce::simplified): identity on unix
pub fn simplify_path(p: &PathS) -> (r: PathS) ensures r == *p { *p }
// the directory an ignore file applies in: its applies_in, or the file-system root for a global file (get_applies_in_path is an item of this unit)
pub open spec fn applies_in_of(origin: PathS, f: &IgnoreFile) -> PathS { match f.applies_in { Some(p) => p, None => fs_root(origin) } }
pub fn vx_id<T>(x: T) -> (r: T) ensures r == x { x }
// `for x in v` desugared (R16): the elements of the vector in order
pub struct VxIter<T> { pub v: Ghost<Seq<T>>, pub pos: Ghost<int> }
#[verifier::external_body]
pub fn vx_into_iter<T>(v: Vec<T>) -> (r: VxIter<T>) ensures r.v@ == v@, r.pos@ == 0 { unimplemented!() }
impl<T> VxIter<T> {
    #[verifier::external_body]
    pub fn vx_next(&mut self) -> (r: Option<T>)
        requires 0 <= old(self).pos@ <= old(self).v@.len(),
        ensures final(self).v == old(self).v,
            old(self).pos@ < old(self).v@.len() ==> r is Some && r->Some_0 == old(self).v@[old(self).pos@] && final(self).pos@ == old(self).pos@ + 1,
            old(self).pos@ >= old(self).v@.len() ==> r is None && final(self).pos == old(self).pos,
    { unimplemented!() }
}
