// Environment stand-ins for unit `actionloop` (crates/lib/src/action/worker.rs::worker). TRUSTED BASE.
#[derive(Clone, Copy, PartialEq, Eq, Structural)]
pub struct Duration { pub ns: u128 }
impl Duration { pub const ZERO: Duration = Duration { ns: 0 }; }
#[derive(Clone, Copy, PartialEq, Eq, Structural)]
pub struct Id { pub n: int }
#[derive(Clone, Copy, PartialEq, Eq, Structural)]
pub struct Job { pub j: int }              // a job handle (unit `task` decides what the job does with a control)
#[derive(Clone, Copy, PartialEq, Eq, Structural)]
pub struct TaskH { pub t: int }            // JoinHandle<()> of a job task or of a quit task
pub struct Event { pub id: int }
pub struct RuntimeError;
pub enum CriticalError { ErrorChannelSend, Other }
#[verifier::external_body]
pub fn vx_from<E>(e: E) -> (r: CriticalError) { unimplemented!() }
// what the worker does, in order
pub enum LAct {
    Batch(Seq<int>),                         // throttle_collect returned this batch (event ids)
    Handler(Seq<int>),                       // the action handler was called with this batch
    Adopt(Id, Job, TaskH),                   // a job created by the handler was taken over (jobs map + jobtasks)
    SpawnQuitTask(Job, Signal, Duration),    // the per-job graceful-quit task (item `quit_job_task`) was spawned
    JoinAll(nat, Set<TaskH>),                // join_all() of a LateJoinSet returned: the n tasks spawned into it and the handles inserted into it have all ended
    Gc(Id),
}
pub struct LEnv {
    pub log: Ghost<Seq<LAct>>,
    pub closed: Ghost<bool>,                 // throttle_collect reported the event channel closed (Ok(None))
    pub created: Ghost<Set<TaskH>>,          // the tasks of every job any action handler call has created so far
}
pub struct Config { pub action_handler: HandlerFn }
pub struct ArcConfig { pub c: Config }
impl ArcConfig { pub fn clone(&self) -> (r: &ArcConfig) ensures r == self { self } }
impl std::ops::Deref for ArcConfig { type Target = Config; fn deref(&self) -> &Config { &self.c } }
pub struct ErrTx; impl ErrTx { pub fn clone(&self) -> ErrTx { ErrTx } }
pub struct EvRx; impl EvRx { pub fn clone(&self) -> EvRx { EvRx } }
pub struct Instant;
impl Instant { #[verifier::external_body] pub fn now() -> Instant { unimplemented!() } }
// throttle_collect (under contract in unit `worker`): Ok(Some(batch)) / Ok(None) when the event channel is closed / Err when the error channel is
#[verifier::external_body]
pub fn throttle_collect(config: &ArcConfig, events: EvRx, errors: ErrTx, last: Instant, env: &mut LEnv) -> (r: Result<Option<Vec<Event>>, CriticalError>)
    ensures final(env).created == old(env).created,
        r is Ok && r->Ok_0 is Some ==> final(env).log@ == old(env).log@.push(LAct::Batch(ids(r->Ok_0->Some_0@))) && final(env).closed == old(env).closed,
        r is Ok && r->Ok_0 is None ==> final(env).log == old(env).log && final(env).closed@,
        r is Err ==> final(env).log == old(env).log && final(env).closed == old(env).closed,
{ unimplemented!() }
pub open spec fn ids(s: Seq<Event>) -> Seq<int> { Seq::new(s.len(), |i: int| s[i].id) }
pub struct ArcEvents { pub v: Ghost<Seq<int>> }
impl ArcEvents { pub fn clone(&self) -> (r: ArcEvents) ensures r.v == self.v { ArcEvents { v: self.v } } }
// Arc::from(take(&mut set).into_boxed_slice())
#[verifier::external_body]
pub fn vx_arc_events(set: &mut Vec<Event>) -> (r: ArcEvents) ensures r.v@ == ids(old(set)@) { unimplemented!() }
// HashMap<Id, Job>
pub struct JobMap { pub m: Ghost<Map<Id, Job>> }
impl JobMap {
    #[verifier::external_body]
    pub fn new() -> (r: JobMap) ensures r.m@ =~= Map::<Id, Job>::empty() { unimplemented!() }
    #[verifier::external_body]
    pub fn clone(&self) -> (r: JobMap) ensures r.m == self.m { unimplemented!() }
    #[verifier::external_body]
    pub fn insert(&mut self, id: Id, job: Job) -> (r: Option<Job>) ensures final(self).m@ == old(self).m@.insert(id, job) { unimplemented!() }
    #[verifier::external_body]
    pub fn remove(&mut self, id: &Id) -> (r: Option<Job>) ensures final(self).m@ == old(self).m@.remove(*id) { unimplemented!() }
    // drain(): every entry once, in some order; the map is empty afterwards
    #[verifier::external_body]
    pub fn drain(&mut self) -> (r: Vec<(Id, Job)>)
        ensures final(self).m@ =~= Map::<Id, Job>::empty(),
            forall|i: int| 0 <= i < r@.len() ==> old(self).m@.contains_key((#[trigger] r@[i]).0) && old(self).m@[r@[i].0] == r@[i].1,
            forall|k: Id| #[trigger] old(self).m@.contains_key(k) ==> 0 <= vx_pos(r@, k) < r@.len() && r@[vx_pos(r@, k)].0 == k,
    { unimplemented!() }
}
pub uninterp spec fn vx_pos(s: Seq<(Id, Job)>, k: Id) -> int;
// the dead-job sweep `jobs.iter().filter_map(|(id, job)| if job.is_dead() { Some(*id) } else { None }).collect()` (replaced by exact token match):
// some ids of the map
#[verifier::external_body]
pub fn vx_dead_jobs(jobs: &JobMap) -> (r: Vec<Id>) ensures forall|i: int| 0 <= i < r@.len() ==> jobs.m@.contains_key(#[trigger] r@[i]) { unimplemented!() }
// action::Handler as the worker sees it
pub struct Handler { pub events: ArcEvents, pub extant: JobMap, pub new: Vec<(Id, (Job, TaskH))>, pub quit: Option<QuitManner> }
// (Handler::new is an item of the unit: extracted and proved)
pub enum ActionReturn { Sync(Handler), Async(Handler) }     // Async carries the future's output (R1 drops the await)
pub open spec fn vx_action(r: ActionReturn) -> Handler { match r { ActionReturn::Sync(a) => a, ActionReturn::Async(a) => a } }
pub struct HandlerFn;
impl HandlerFn {
    // config.action_handler.call(action): arbitrary user code; may create jobs and ask to quit
    #[verifier::external_body]
    pub fn call(&self, action: Handler, env: &mut LEnv) -> (r: ActionReturn)
        ensures final(env).log@ == old(env).log@.push(LAct::Handler(action.events.v@)), final(env).closed == old(env).closed,
            final(env).created@ =~= old(env).created@.union(tasks_all(vx_action(r).new@)),
            // `new` is a HashMap keyed by job id: each id once
            forall|i: int, j: int| 0 <= i < j < vx_action(r).new@.len() ==> (#[trigger] vx_action(r).new@[i]).0 != (#[trigger] vx_action(r).new@[j]).0,
    { unimplemented!() }
}
// LateJoinSet
pub struct LateJoinSet { pub tasks: Ghost<Set<TaskH>>, pub quit_tasks: Ghost<nat> }
pub struct VxQuitJobTask { pub job: Job, pub signal: Signal, pub grace: Duration }
impl LateJoinSet {
    #[verifier::external_body]
    pub fn default() -> (r: LateJoinSet) ensures r.tasks@ =~= Set::<TaskH>::empty(), r.quit_tasks@ == 0 { unimplemented!() }
    #[verifier::external_body]
    pub fn insert(&mut self, t: TaskH) ensures final(self).tasks@ == old(self).tasks@.insert(t), final(self).quit_tasks == old(self).quit_tasks { unimplemented!() }
    #[verifier::external_body]
    pub fn spawn(&mut self, t: VxQuitJobTask, env: &mut LEnv)
        ensures final(env).log@ == old(env).log@.push(LAct::SpawnQuitTask(t.job, t.signal, t.grace)), final(env).closed == old(env).closed, final(env).created == old(env).created,
            final(self).quit_tasks@ == old(self).quit_tasks@ + 1, final(self).tasks == old(self).tasks { unimplemented!() }
    // join_all().await: returns when every task of the set has finished
    #[verifier::external_body]
    pub fn join_all(&mut self, env: &mut LEnv)
        ensures final(env).log@ == old(env).log@.push(LAct::JoinAll(old(self).quit_tasks@, old(self).tasks@)), final(env).closed == old(env).closed, final(env).created == old(env).created { unimplemented!() }
}
pub struct VxIter<T> { pub v: Ghost<Seq<T>>, pub pos: Ghost<int> }
#[verifier::external_body]
pub fn vx_into_iter<T>(v: Vec<T>) -> (r: VxIter<T>) ensures r.v@ == v@, r.pos@ == 0 { unimplemented!() }
impl<T> VxIter<T> {
    #[verifier::external_body]
    pub fn vx_next(&mut self) -> (r: Option<T>)
        requires 0 <= old(self).pos@ <= old(self).v@.len(),
        ensures final(self).v == old(self).v,
            old(self).pos@ < old(self).v@.len() ==> r is Some && r->Some_0 == old(self).v@[old(self).pos@] && final(self).pos@ == old(self).pos@ + 1,
            old(self).pos@ >= old(self).v@.len() ==> r is None && final(self).pos == old(self).pos,
    { unimplemented!() }
}
// the per-job graceful-quit task sees the job handle only (what the job does with Stop/Delete is unit `task`: C04/C06/C07/C09)
pub enum JAct { StopWithSignal(Job, Signal, Duration), Delete(Job), AwaitDelete(Job), Other(Job) }
pub struct JEnv { pub log: Ghost<Seq<JAct>> }
pub struct TicketJ { pub j: Job }
impl TicketJ {
    #[verifier::external_body]
    pub fn vx_awaited(self, env: &mut JEnv) ensures final(env).log@ == old(env).log@.push(JAct::AwaitDelete(self.j)) { unimplemented!() }
}
impl Job {
    #[verifier::external_body]
    pub fn stop_with_signal(&self, s: Signal, d: Duration, env: &mut JEnv) -> (t: TicketJ) ensures final(env).log@ == old(env).log@.push(JAct::StopWithSignal(*self, s, d)) { unimplemented!() }
    #[verifier::external_body]
    pub fn delete(&self, env: &mut JEnv) -> (t: TicketJ) ensures final(env).log@ == old(env).log@.push(JAct::Delete(*self)), t.j == *self { unimplemented!() }
    // every other control-sending method of the real Job handle (a quit task that uses one of them does something else than documented)
    #[verifier::external_body]
    pub fn delete_now(&self, env: &mut JEnv) -> (t: TicketJ) ensures final(env).log@ == old(env).log@.push(JAct::Other(*self)), t.j == *self { unimplemented!() }
    #[verifier::external_body]
    pub fn stop(&self, env: &mut JEnv) -> (t: TicketJ) ensures final(env).log@ == old(env).log@.push(JAct::Other(*self)), t.j == *self { unimplemented!() }
    #[verifier::external_body]
    pub fn signal(&self, s: Signal, env: &mut JEnv) -> (t: TicketJ) ensures final(env).log@ == old(env).log@.push(JAct::Other(*self)), t.j == *self { unimplemented!() }
}
