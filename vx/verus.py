"""Run Verus on a generated unit file, parse and classify diagnostics (DESIGN §2 step 3/4)."""
import json, os, re, subprocess, tempfile, time, shutil

OBL_RE = re.compile(r"(?://|/\*)\s*OBL:([A-Za-z0-9_+.:\-]+)")
CANARY_RE = re.compile(r"CANARY:([A-Za-z0-9_:.\-]+)")

FAIL_MSGS = (
    "postcondition not satisfied", "precondition not satisfied", "invariant not satisfied at end of loop body",
    "invariant not satisfied before loop", "assertion failed", "loop invariant not satisfied",
    "unable to prove assertion", "assertion failure", "unable to prove post-condition of closure",
)
UNDECIDED_MSGS = ("resource limit", "rlimit", "timed out", "possible arithmetic", "possible division", "decreases not satisfied",
                  "recommendation not met", "possible bit shift")

class Diag:
    def __init__(self, d):
        self.msg = d.get("message", "")
        self.level = d.get("level", "")
        self.spans = d.get("spans", [])
        self.rendered = d.get("rendered", "")
    def lines(self):
        return [(s["line_start"], s.get("label") or "", s.get("is_primary", False)) for s in self.spans]

def run_verus(path, rlimit=None, timeout=900, extra=()):
    cmd = ["verus", path, "--output-json", "--time-expanded", "--multiple-errors", "50", "--triggers-mode", "silent", "--error-format=json"]
    if rlimit: cmd += ["--rlimit", str(rlimit)]
    cmd += list(extra)
    t0 = time.time()
    try:
        p = subprocess.run(cmd, capture_output=True, text=True, timeout=timeout, cwd=os.path.dirname(path))
        out, err, rc = p.stdout, p.stderr, p.returncode
    except subprocess.TimeoutExpired as e:
        return {"timeout": True, "wall_s": time.time() - t0, "diags": [], "json": None, "rc": None, "cmd": " ".join(cmd), "stderr": ""}
    diags = []
    for ln in err.split("\n"):
        ln = ln.strip()
        if ln.startswith("{"):
            try:
                d = json.loads(ln)
            except ValueError:
                continue
            if d.get("$message_type") == "diagnostic":
                diags.append(Diag(d))
    js = None
    try:
        i = out.index("{")
        js = json.loads(out[i:])
    except ValueError:
        pass
    return {"timeout": False, "wall_s": time.time() - t0, "diags": diags, "json": js, "rc": rc, "cmd": " ".join(cmd), "stderr": err}

def classify(res, gen_lines):
    """-> dict(failed=[{obl, msg, gen_line, sites:[gen lines]}], untagged=[...], tool_errors=[...], undecided=[...])"""
    failed, untagged, tool, undecided, warns = [], [], [], [], []
    if res["timeout"]:
        undecided.append({"msg": "verus timed out"})
    for d in res["diags"]:
        if d.level == "warning" or d.level == "note":
            continue
        if d.level != "error": continue
        msg = d.msg
        if msg.startswith("aborting due to") or msg.startswith("For more information"): continue
        low = msg.lower()
        if any(low.startswith(m) or m in low for m in FAIL_MSGS):
            obls = []
            sites = []
            for (ln, label, prim) in d.lines():
                text = gen_lines[ln - 1] if 0 < ln <= len(gen_lines) else ""
                mo = OBL_RE.search(text)
                # a multi-line clause: look down to the line that ends the clause (first following line carrying an OBL tag),
                # but only when the span line itself has none and is a continuation (no trailing comma)
                if not mo and ("failed this" in label or "failed pre" in label):
                    k = ln
                    depth = 0
                    def _d(t):      # bracket depth change of one line (comments cut off)
                        t = t.split("//")[0]
                        return sum(t.count(c) for c in "([{") - sum(t.count(c) for c in ")]}")
                    while k < len(gen_lines) and k < ln + 14 and "OBL:" not in gen_lines[k - 1]:
                        depth += _d(gen_lines[k - 1])
                        if depth <= 0 and gen_lines[k - 1].split("//")[0].rstrip().endswith(","): break
                        k += 1
                    if 0 < k <= len(gen_lines):
                        mo = OBL_RE.search(gen_lines[k - 1])
                if mo and mo.group(1) not in obls: obls.append(mo.group(1))
                mc = CANARY_RE.search(text)
                if mc: obls.append("CANARY:" + mc.group(1))
                sites.append(ln)
            rec = {"msg": msg, "sites": sites, "rendered": d.rendered}
            if obls:
                for o in obls:
                    r2 = dict(rec); r2["obl"] = o; failed.append(r2)
            else:
                untagged.append(rec)
        elif "decreases not satisfied" in low:
            # a termination measure that no longer decreases: reported as a failed obligation only when the loop's `decreases` clause carries a
            # tag (the overlay claims termination there); otherwise undecided as before
            sites = [l for (l, _, _) in d.lines()]
            tag = None
            if sites:
                ln = sites[0]
                for k in list(range(ln, max(0, ln - 120), -1)) + list(range(ln + 1, min(len(gen_lines), ln + 40))):
                    t = gen_lines[k - 1].strip() if 0 < k <= len(gen_lines) else ""
                    if t.startswith("decreases"):
                        mo = OBL_RE.search(t)
                        if mo: tag = mo.group(1)
                        break
            if tag: failed.append({"msg": msg, "sites": sites, "rendered": d.rendered, "obl": tag})
            else: undecided.append({"msg": msg, "rendered": d.rendered, "sites": sites})
        elif any(m in low for m in UNDECIDED_MSGS):
            undecided.append({"msg": msg, "rendered": d.rendered, "sites": [l for (l, _, _) in d.lines()]})
        else:
            tool.append({"msg": msg, "rendered": d.rendered, "sites": [l for (l, _, _) in d.lines()]})
    js = res["json"]
    if js is None and not res["timeout"] and not tool:
        tool.append({"msg": "verus produced no JSON result (rc=%s): %s" % (res["rc"], res["stderr"][-2000:]), "rendered": "", "sites": []})
    return {"failed": failed, "untagged": untagged, "tool_errors": tool, "undecided": undecided}

def obligations_in(gen_lines):
    """{obl_id: [line numbers]}"""
    res = {}
    for i, ln in enumerate(gen_lines):
        for mo in OBL_RE.finditer(ln):
            res.setdefault(mo.group(1), []).append(i + 1)
    return res

TRUST_RE = re.compile(r"external_body|assume_specification|\bassume\s*\(|\badmit\s*\(|\baxiom_|external_fn_specification|uninterp\s+spec")

def trusted_scan(gen_text):
    """mechanical scan for everything that is assumed rather than proved"""
    out = []
    lines = gen_text.split("\n")
    for i, ln in enumerate(lines):
        if ln.strip().startswith("//"): continue
        if TRUST_RE.search(ln):
            # name = next fn / the item on this or the following lines
            ctx = " ".join(x.strip() for x in lines[i:i + 3])
            m = re.search(r"(?:fn|assume_specification[^\[]*\[)\s*([A-Za-z0-9_:<>, ]+)", ctx)
            out.append((i + 1, (m.group(1).strip() if m else ctx[:80])))
    return out
