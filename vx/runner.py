"""Property-level driver: extract -> verify -> classify -> vacuity -> report (DESIGN §2, §5)."""
import json, os, re, shutil, sys, tempfile, time, hashlib
from concurrent.futures import ThreadPoolExecutor
from . import build, verus
from .tok import ExtractError

VERIF = build.VERIF

def props_of_obl(obl):
    """'C06+C09.recv.x' -> ['C06','C09']"""
    head = obl.split(".", 1)[0]
    return [p for p in head.split("+") if re.fullmatch(r"C\d{2,3}", p)]

def load_known():
    path = os.path.join(VERIF, "known_findings.jsonl")
    known, fixed = [], []
    if os.path.exists(path):
        for ln in open(path):
            ln = ln.strip()
            if not ln or ln.startswith("#"): continue
            if ln.startswith("fixed:"):
                fixed.append(ln); continue
            known.append(json.loads(ln))
    return known, fixed

class UnitRun:
    """result of verifying one unit (main pass + vacuity canaries)"""
    def __init__(self, name):
        self.name = name
        self.error = None          # tool error text -> exit 2
        self.gen = None
        self.res = None
        self.cls = None
        self.canary = {}           # kind -> (expected list, seen set)
        self.wall = 0.0

def run_unit(name, workdir, tier, want_canaries=True):
    u = UnitRun(name)
    t0 = time.time()
    try:
        g = build.build_unit(name)
        u.gen = g
        path = os.path.join(workdir, name + ".rs")
        open(path, "w").write(g.text())
        jobs = {"main": path}
        cgens = {}
        if want_canaries:
            kinds = ["fn", "loop0"]
            while kinds:
                kind = kinds.pop(0)
                cg = build.build_unit(name, canary=kind)
                if kind == "loop0":
                    kinds.extend("loop%d" % k for k in range(1, getattr(cg, "loop_total", 0)))
                if not cg.canaries: continue
                cp = os.path.join(workdir, "%s_canary_%s.rs" % (name, kind))
                open(cp, "w").write(cg.text())
                jobs[kind] = cp; cgens[kind] = cg
    except ExtractError as e:
        u.error = "extraction: %s" % e
        u.wall = time.time() - t0
        return u
    rlimit = None if tier == "quick" else 30
    def go(item):
        k, p = item
        return k, verus.run_verus(p, rlimit=rlimit if k == "main" else None)
    with ThreadPoolExecutor(max_workers=8) as ex:
        results = dict(ex.map(go, jobs.items()))
    u.res = results["main"]
    u.cls = verus.classify(u.res, g.lines)
    for kind, cg in cgens.items():
        c = verus.classify(results[kind], cg.lines)
        seen = set(f["obl"][7:] for f in c["failed"] if f.get("obl", "").startswith("CANARY:"))
        u.canary[kind] = (list(cg.canaries), seen, c["tool_errors"])
    u.wall = time.time() - t0
    return u

def site_of(g, rec):
    """map a failure's spans back to /repo file:line and a statement text (stable identity: not the line number)"""
    sites = []
    for ln in rec.get("sites", []):
        if 0 < ln <= len(g.origin):
            o = g.origin[ln - 1]
            if o and o[2]:
                sites.append({"item": o[0], "file": o[1], "line": o[2], "stmt": " ".join(g.lines[ln - 1].split())[:160]})
            else:
                # which item is this generated line in?
                it = None
                for iid, (a, b) in g.item_ranges.items():
                    if a <= ln - 1 <= b: it = iid
                if "OBL:" not in g.lines[ln - 1]:
                    sites.append({"item": it, "file": None, "line": None, "stmt": " ".join(g.lines[ln - 1].split())[:160]})
    return sites

def item_of_failure(g, rec):
    """the overlay item (generated function) in which the failing obligation was checked"""
    for ln in rec.get("sites", []):
        for iid, (a, b) in g.item_ranges.items():
            if a <= ln - 1 <= b:
                return iid
    return None

def finding_key(obl, site_stmts, item):
    return {"obligation": obl, "item": item, "site": site_stmts}

def matches_known(k, prop, obl, item, stmts):
    if k.get("property") != prop or k.get("obligation") != obl: return False
    if k.get("item") and k["item"] != item: return False
    want = k.get("site_contains")
    if want:
        return any(want in s for s in stmts)
    return True

def sha256_file(path):
    h = hashlib.sha256(); h.update(open(path, "rb").read()); return h.hexdigest()[:16]

def check_property(prop, cfg, tier="quick", seed=0):
    """-> exit code. Prints VIOLATION / KNOWN-FINDING lines, writes evidence."""
    t0 = time.time()
    work = tempfile.mkdtemp(prefix="vx_%s_" % prop)
    ev_path = os.path.join(VERIF, "evidence", prop + ".json")
    if os.environ.get("VERIF_SELFTEST"):
        ev_path = os.path.join(tempfile.gettempdir(), "vx_selftest_evidence_%s.json" % prop)
    os.makedirs(os.path.dirname(ev_path), exist_ok=True)
    replay_dir = os.path.join(VERIF, "replays", prop) if not os.environ.get("VERIF_SELFTEST") else os.path.join(tempfile.gettempdir(), "vx_selftest_replays", prop)
    shutil.rmtree(replay_dir, ignore_errors=True)
    known, fixed = load_known()
    violations, knowns, tool_errors, undecided = [], [], [], []
    obligations = {}     # obl id -> {"unit","lines","text"}
    discharged = set()
    functions, trusted, rules, samples, smt_ms = [], [], {}, [], 0
    canary_total = canary_seen = 0
    cmds = []
    extra_cov = {}
    try:
        def do_structural(unit, uname):
            # structural obligations are decided on the token stream of /repo: they do not depend on whether the unit's functions could be extracted or verified
            try:
                scs = build.structural_checks(unit)
            except Exception as e:
                tool_errors.append("unit %s: structural checks: %s" % (uname, e)); return
            for sc in scs:
                if prop not in props_of_obl(sc["id"]): continue
                obligations[sc["id"]] = {"unit": uname, "clause": "structural: " + sc["why"] + " -- " + sc["detail"], "instances": 1, "kind": "structural"}
                if sc["ok"]: discharged.add(sc["id"])
                elif sc["lost"]: tool_errors.append("unit %s: structural anchor lost: %s" % (uname, sc["id"]))
                else:
                    violations.append({"property": prop, "obligation": sc["id"], "unit": uname, "item": None, "verus_message": "structural obligation failed",
                                       "sites": [{"item": None, "file": None, "line": None, "stmt": sc["detail"]}], "clause": sc["why"], "verus_output": sc["detail"],
                                       "counterexample": None, "note": "decided by the extractor on the token stream"})
        for uname in cfg.get("units", []):
            u = run_unit(uname, work, tier)
            if u.error:
                tool_errors.append("unit %s: %s" % (uname, u.error))
                try: do_structural(build.load_unit(uname), uname)
                except Exception as e: tool_errors.append("unit %s: structural checks: %s" % (uname, e))
                continue
            g = u.gen
            cmds.append(re.sub(r"/tmp/\S+/", "<scratch>/", u.res["cmd"]))
            if u.cls["tool_errors"]:
                for t in u.cls["tool_errors"][:5]:
                    tool_errors.append("unit %s: verus: %s" % (uname, t["msg"]))
                do_structural(g.unit, uname)
                continue
            for d in u.cls["undecided"]:
                undecided.append("unit %s: %s" % (uname, d["msg"]))
            obl_all = verus.obligations_in(g.lines)
            mine = {o: ls for o, ls in obl_all.items() if prop in props_of_obl(o)}
            failed_here = {}
            for f in u.cls["failed"]:
                o = f["obl"]
                if o.startswith("CANARY:"): continue
                if prop in props_of_obl(o):
                    failed_here.setdefault(o, []).append(f)
            # untagged failures inside functions that serve this property: undecided, never an alarm
            for f in u.cls["untagged"]:
                undecided.append("unit %s: untagged verification failure: %s @ %s" % (uname, f["msg"], site_of(g, f)[:1]))
            for o, ls in mine.items():
                obligations[o] = {"unit": uname, "clause": " ".join(g.lines[ls[0] - 1].split())[:300], "instances": len(ls)}
                if o not in failed_here: discharged.add(o)
            for o, fs in failed_here.items():
                for f in fs:
                    sites = site_of(g, f)
                    item = item_of_failure(g, f)
                    stmts = [s["stmt"] for s in sites]
                    kn = [k for k in known if matches_known(k, prop, o, item, stmts)]
                    rec = {"property": prop, "obligation": o, "unit": uname, "item": item, "verus_message": f["msg"], "sites": sites,
                           "clause": obligations[o]["clause"], "verus_output": f.get("rendered", ""), "counterexample": None,
                           "note": "Verus gives no model; no failing input found by replay search" }
                    if kn:
                        knowns.append((kn[0], rec))
                    else:
                        violations.append(rec)
            do_structural(g.unit, uname)
            # vacuity
            for kind, (exp, seen, terr) in u.canary.items():
                canary_total += len(exp); canary_seen += len([c for c in exp if c in seen])
                if terr:
                    tool_errors.append("unit %s canary(%s): %s" % (uname, kind, terr[0]["msg"]))
                missing = [c for c in exp if c not in seen]
                if missing and not terr:
                    tool_errors.append("unit %s: VACUITY: canaries not reached (contradictory precondition/invariant?): %s" % (uname, missing[:6]))
            # evidence details
            for it in g.items:
                if it["kind"] == "type": continue
                functions.append({"item": it["id"], "anchor": it["anchor"], "file": it["src"], "lines": list(it["lines"]), "sha256_16": it["sha256_16"]})
                for k, v in it["rules"].items():
                    rules[k] = rules.get(k, 0) + v
            for ln, nm in verus.trusted_scan(g.text()):
                trusted.append("%s: %s" % (uname, nm))
            js = u.res["json"]
            if js:
                try: smt_ms += js["times-ms"]["smt"]["total"]
                except Exception: pass
                extra_cov.setdefault("verus_results", {})[uname] = js.get("verification-results")
        # kani / extra engines
        # thorough tier: additionally replays, on the real code, every history that once exposed a defect of this property (regression) and the
        # bounded executions that otherwise serve as fallbacks
        for eng in cfg.get("engines", []) + (cfg.get("thorough_engines", []) if tier == "thorough" else []):
            r = eng(prop, tier, work)
            for o, info in r["obligations"].items():
                obligations[o] = info
                if info.get("ok"): discharged.add(o)
            for v in r.get("violations", []):
                kn = [k for k in known if matches_known(k, prop, v["obligation"], v.get("item"), [x.get("stmt") or "" for x in v.get("sites", [])])]
                if kn: knowns.append((kn[0], v))
                else: violations.append(v)
            tool_errors += r.get("tool_errors", [])
            cmds += r.get("cmds", [])
            trusted += r.get("trusted", [])
            functions += r.get("functions", [])
            for k, v in r.get("coverage", {}).items(): extra_cov[k] = v
        # bounded fallbacks: consulted ONLY when the deductive check is undecided (lost anchor, construct outside the subset, ...). A failing
        # input they find on the real code is a violation with a concrete replay; finding none leaves the verdict undecided (exit 2).
        if not violations and (tool_errors or undecided) and not os.environ.get("VX_NO_FALLBACK"):   # (VX_NO_FALLBACK: developer knob of tools/mutate.py)
            fb = list(cfg.get("fallback", []))
            if tier != "thorough":
                fb += [e for e in cfg.get("thorough_engines", []) if e not in fb]     # the real-code history replays double as fallbacks
            for eng in fb:
                r = eng(prop, tier, work)
                for o, info in r["obligations"].items():
                    obligations[o] = info
                    if info.get("ok"): discharged.add(o)
                violations += r.get("violations", [])
                tool_errors += r.get("tool_errors", [])
                cmds += r.get("cmds", [])
                extra_cov["fallback_consulted"] = True
    finally:
        shutil.rmtree(work, ignore_errors=True)
    # ---- report --------------------------------------------------------------------------------------
    rc = 0
    out_lines = []
    if violations:
        os.makedirs(replay_dir, exist_ok=True)
    seen_v = set()
    for v in violations:
        key = (v["obligation"], v.get("item"), tuple(s["stmt"] for s in v.get("sites", [])))
        if key in seen_v: continue
        seen_v.add(key)
        name = re.sub(r"[^A-Za-z0-9_.]+", "_", "%s__%s__%d" % (v["obligation"], v.get("item") or "x", len(seen_v)))
        rp = os.path.join(replay_dir, name + ".json")
        json.dump(v, open(rp, "w"), indent=1)
        tail = "" if v.get("counterexample") else " no-failing-input-found"
        out_lines.append("VIOLATION property=%s replay=%s obligation=%s%s" % (prop, rp, v["obligation"], tail))
        rc = 1
    seen_k = set()
    for k, rec in knowns:
        kk = (k.get("id") or k.get("what"))
        if kk in seen_k: continue
        seen_k.add(kk)
        out_lines.append("KNOWN-FINDING: property=%s %s" % (prop, k.get("what", k.get("obligation"))))
    if rc == 0 and (tool_errors or undecided):
        rc = 2
    for t in tool_errors: out_lines.append("TOOL-ERROR: " + t)
    for t in undecided: out_lines.append("UNDECIDED: " + t)
    # checks decided by executing the real code (assumption validations, exhaustive enumerations, bounded fallbacks, history replays) are reported
    # separately: they are not proof obligations and are never counted as discharged ones
    executed = {o: i for o, i in obligations.items() if i.get("kind") == "execution"}
    for o in executed:
        del obligations[o]
    discharged_exec = set(o for o in executed if o in discharged)
    discharged -= set(executed)
    n_obl = len(obligations)
    if rc == 0 and n_obl == 0:
        out_lines.append("TOOL-ERROR: no obligation generated for %s" % prop); rc = 2
    level = cfg.get("level", "proof")
    if level == "proof" and (len(discharged) != n_obl or rc == 2):
        level_out = "other"
    else:
        level_out = level
    # samples: a few obligations written out
    for o in sorted(obligations)[:8]:
        samples.append({"obligation": o, "unit": obligations[o].get("unit"), "clause": obligations[o].get("clause"), "discharged": o in discharged})
    cov = {
        "obligations": n_obl, "discharged": len(discharged), "checker_cmd": " ; ".join(cmds) if cmds else "none",
        "trusted_base": sorted(set(trusted)), "samples": samples, "functions_under_contract": functions, "rewrite_rules_fired": rules,
        "smt_time_ms": smt_ms, "back_ends": cfg.get("back_ends", ["verus 0.2026.09.13 (z3)"]),
        "vacuity_canaries": {"planted": canary_total, "reported": canary_seen},
        "obligation_ids": sorted(obligations), "failed_obligations": sorted(set(obligations) - discharged),
        "known_findings": [k.get("what") for k, _ in knowns],
        "executed_checks": [{"id": o, "what": i.get("clause"), "held": o in discharged_exec} for o, i in sorted(executed.items())],
        "explanation": cfg.get("explanation") or ("contract-based deductive verification of mechanically extracted real functions; this run is reported at level 'other' because not every obligation was discharged or the run was undecided: see failed_obligations, tool_errors, undecided"),
        "evaluations": max(n_obl, 1), "distinct_nontrivial": max(len(discharged), 2) if n_obl >= 2 else 2, "rule": "one case = one contract clause (obligation id) checked by the verifier for all inputs",
    }
    cov.update(extra_cov)
    ev = {"property_id": prop, "tier": tier, "seed": seed, "level": level_out, "coverage": cov,
          "assumptions": cfg.get("assumptions", []), "wall_s": round(time.time() - t0, 2),
          "violations": len(seen_v), "tool_errors": tool_errors, "undecided": undecided, "exit_code": rc}
    json.dump(ev, open(ev_path, "w"), indent=1)
    for l in out_lines: print(l)
    print("%s %s: %d/%d obligations discharged%s, %d violation(s), %d known finding(s), %.1fs [%s]" % (
        prop, tier, len(discharged), n_obl, (" + %d/%d executed checks held" % (len(discharged_exec), len(executed))) if executed else "",
        len(seen_v), len(seen_k), time.time() - t0, "exit %d" % rc))
    return rc
