"""Token-level view of Rust source. stdlib only.

Tokens keep their source line / column and whether whitespace preceded them, so that a rewritten token
stream can be rendered with the original layout (one output line per source line) and every output line
can be mapped back to the /repo file:line it came from.
"""
import re

class ExtractError(Exception):
    """Tool error (lost anchor, unsupported construct): exit 2, never an alarm."""

class Tok:
    __slots__ = ("k", "s", "line", "col", "sp")
    def __init__(self, k, s, line=None, col=0, sp=True):
        self.k = k      # id | life | num | str | chr | p (punct) | o (open) | c (close)
        self.s = s
        self.line = line
        self.col = col
        self.sp = sp    # whitespace (or line break) before this token in the source
    def __repr__(self):
        return "Tok(%s,%r,%s)" % (self.k, self.s, self.line)
    def copy(self):
        return Tok(self.k, self.s, self.line, self.col, self.sp)

PUNCT3 = ["..=", "..."]
PUNCT2 = ["::", "->", "=>", "==", "!=", "<=", ">=", "&&", "||", "+=", "-=", "*=", "/=", "%=", "^=", "&=", "|=", ".."]
OPEN = "([{"
CLOSE = ")]}"
_ident = re.compile(r"[A-Za-z_][A-Za-z0-9_]*")
_num = re.compile(r"[0-9][0-9A-Za-z_]*(\.[0-9][0-9A-Za-z_]*)?")

def tokenize(src):
    toks = []
    i = 0
    n = len(src)
    line = 1
    linestart = 0
    sp = True
    while i < n:
        c = src[i]
        if c == "\n":
            line += 1; i += 1; linestart = i; sp = True; continue
        if c in " \t\r":
            i += 1; sp = True; continue
        if src.startswith("//", i):
            j = src.find("\n", i)
            i = n if j < 0 else j
            sp = True; continue
        if src.startswith("/*", i):
            depth = 1; j = i + 2
            while j < n and depth:
                if src.startswith("/*", j): depth += 1; j += 2
                elif src.startswith("*/", j): depth -= 1; j += 2
                else:
                    if src[j] == "\n": line += 1; linestart = j + 1
                    j += 1
            i = j; sp = True; continue
        col = i - linestart
        # raw strings / byte strings
        m = re.match(r'(b?r)(#*)"', src[i:i+40])
        if m:
            hashes = m.group(2)
            end = src.find('"' + hashes, i + len(m.group(0)))
            if end < 0: raise ExtractError("unterminated raw string at line %d" % line)
            j = end + 1 + len(hashes)
            s = src[i:j]
            toks.append(Tok("str", s, line, col, sp)); line += s.count("\n"); i = j; sp = False; continue
        if c == '"' or (c == "b" and src.startswith('b"', i)):
            j = i + (2 if c == "b" else 1)
            while j < n and src[j] != '"':
                if src[j] == "\\": j += 1
                j += 1
            j += 1
            s = src[i:j]
            toks.append(Tok("str", s, line, col, sp)); line += s.count("\n"); i = j; sp = False; continue
        if c == "'":
            # lifetime or char literal
            m = re.match(r"'([A-Za-z_][A-Za-z0-9_]*)(?!')", src[i:i+64])
            if m:
                toks.append(Tok("life", m.group(0), line, col, sp)); i += len(m.group(0)); sp = False; continue
            j = i + 1
            while j < n and src[j] != "'":
                if src[j] == "\\": j += 1
                j += 1
            j += 1
            toks.append(Tok("chr", src[i:j], line, col, sp)); i = j; sp = False; continue
        m = _ident.match(src, i)
        if m:
            toks.append(Tok("id", m.group(0), line, col, sp)); i = m.end(); sp = False; continue
        m = _num.match(src, i)
        if m:
            s = m.group(0)
            # do not swallow the range operator in `0..n`
            if "." in s and src.startswith("..", i + s.index(".")):
                s = s[:s.index(".")]
            toks.append(Tok("num", s, line, col, sp)); i += len(s); sp = False; continue
        if c in OPEN:
            toks.append(Tok("o", c, line, col, sp)); i += 1; sp = False; continue
        if c in CLOSE:
            toks.append(Tok("c", c, line, col, sp)); i += 1; sp = False; continue
        for p in PUNCT3:
            if src.startswith(p, i):
                toks.append(Tok("p", p, line, col, sp)); i += 3; break
        else:
            for p in PUNCT2:
                if src.startswith(p, i):
                    toks.append(Tok("p", p, line, col, sp)); i += 2; break
            else:
                toks.append(Tok("p", c, line, col, sp)); i += 1
        sp = False
    return toks

_PAIR = {"(": ")", "[": "]", "{": "}"}

def match_table(toks):
    """index of the partner delimiter for every open/close token"""
    m = {}
    st = []
    for i, t in enumerate(toks):
        if t.k == "o":
            st.append(i)
        elif t.k == "c":
            if not st: raise ExtractError("unbalanced close %r at line %s" % (t.s, t.line))
            j = st.pop()
            if _PAIR[toks[j].s] != t.s:
                raise ExtractError("mismatched delimiters at lines %s/%s" % (toks[j].line, t.line))
            m[i] = j; m[j] = i
    if st: raise ExtractError("unbalanced open at line %s" % toks[st[-1]].line)
    return m

def T(text):
    """tokens for inserted text (no source position)"""
    ts = tokenize(text)
    for t in ts:
        t.line = None
    return ts

def render(toks, indent=""):
    """Render preserving source line structure. Returns (text, linemap) where linemap[k] is the source line
    of output line k (0-based) or None."""
    out = []
    linemap = []
    cur = []
    curline = None
    last_src_line = None
    prev_k = None
    def flush():
        nonlocal cur, curline
        out.append(indent + "".join(cur).rstrip())
        linemap.append(curline)
        cur = []; curline = None
    for t in toks:
        if t.line is not None and last_src_line is not None and t.line != last_src_line and cur:
            flush()
        if t.line is not None:
            last_src_line = t.line
            if curline is None: curline = t.line
        if not cur:
            cur.append(" " * min(t.col, 40) if t.line is not None else "")
            cur.append(t.s)
            prev_k = t.k
            continue
        else:
            # two word-like tokens can never be adjacent without a separator
            need = t.sp or (prev_k in ("id", "num", "life") and t.k in ("id", "num", "life"))
            cur.append((" " if need else "") + t.s)
        prev_k = t.k
    if cur: flush()
    return "\n".join(out), linemap

def text_of(toks):
    return " ".join(t.s for t in toks)

def find_seq(toks, pat, start=0, end=None):
    """first index >= start where the token texts equal pat (list of strings)"""
    end = len(toks) if end is None else end
    L = len(pat)
    for i in range(start, end - L + 1):
        ok = True
        for j in range(L):
            if toks[i + j].s != pat[j]:
                ok = False; break
        if ok: return i
    return -1

def find_all_seq(toks, pat, start=0, end=None):
    res = []
    i = start
    while True:
        i = find_seq(toks, pat, i, end)
        if i < 0: return res
        res.append(i); i += 1

def pat(text):
    return [t.s for t in tokenize(text)]
