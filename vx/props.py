"""Per-property check configuration: which units decide it, what is assumed."""
import os, re, subprocess, time
from . import kani as _kani

def replay_engine(crate, scenario, oid, what, label="BOUNDED (fallback, consulted because the deductive check was undecided): "):
    """execution of the real code through replay/<crate>: a bounded FALLBACK, or the validation of a stated environment assumption (never counted as proof)"""
    def eng(prop, tier, work):
        out = {"obligations": {}, "violations": [], "tool_errors": [], "cmds": [], "trusted": [], "functions": [], "coverage": {}}
        here = os.path.dirname(os.path.dirname(os.path.abspath(__file__)))
        out["cmds"].append("replay/run.sh %s %s  (bounded fallback on the real code)" % (crate, scenario))
        try:
            p = subprocess.run([os.path.join(here, "replay", "run.sh"), crate, scenario], capture_output=True, text=True, timeout=1200)
        except subprocess.TimeoutExpired:
            out["tool_errors"].append("fallback %s: timeout" % scenario); return out
        m = re.search(r"RESULT %s (ok|VIOLATED)(.*)" % re.escape(scenario), p.stdout)
        if not m:
            out["tool_errors"].append("fallback %s: no result: %s" % (scenario, (p.stdout + p.stderr)[-400:])); return out
        out["obligations"][oid] = {"unit": "replay/" + crate, "clause": getattr(eng, "vx_label", label) + what, "instances": 1,
                                   "ok": m.group(1) == "ok", "back_end": "execution of the real code", "kind": "execution"}
        if m.group(1) != "ok":
            out["violations"].append({"property": prop, "obligation": oid, "unit": "replay/" + crate, "item": None, "verus_message": "bounded execution found a failing input",
                                      "sites": [{"item": None, "file": None, "line": None, "stmt": scenario}], "clause": what, "verus_output": p.stdout[-2000:],
                                      "counterexample": {"failing_input": m.group(2).strip(), "replay_cmd": "replay/run.sh %s %s" % (crate, scenario)},
                                      "note": "found by bounded execution of the real code (fallback engine); the deductive check itself was undecided"})
        return out
    eng.vx_scenario = scenario
    return eng

def _hist(crate, scenario, prop, what):
    return replay_engine(crate, scenario, "%s.history.%s" % (prop, scenario), what, label="HISTORY REPLAYED ON THE REAL CODE (thorough tier; regression of a repaired defect; one history, not a proof): ")

def script_engine(script, scenario, oid, what, label="BOUNDED (fallback / thorough tier; executed on the real binary): "):
    """a replay script under /verif/replay that prints `RESULT <scenario> ok|VIOLATED ...`"""
    def eng(prop, tier, work):
        out = {"obligations": {}, "violations": [], "tool_errors": [], "cmds": [], "trusted": [], "functions": [], "coverage": {}}
        here = os.path.dirname(os.path.dirname(os.path.abspath(__file__)))
        out["cmds"].append("replay/%s  (real binary)" % script)
        try:
            p = subprocess.run([os.path.join(here, "replay", script)], capture_output=True, text=True, timeout=3000)
        except subprocess.TimeoutExpired:
            out["tool_errors"].append("fallback %s: timeout" % scenario); return out
        m = re.search(r"RESULT %s (ok|VIOLATED)(.*)" % re.escape(scenario), p.stdout)
        if not m:
            out["tool_errors"].append("fallback %s: no result: %s" % (scenario, (p.stdout + p.stderr)[-400:])); return out
        out["obligations"][oid] = {"unit": "replay/" + script, "clause": getattr(eng, "vx_label", label) + what, "instances": 1, "ok": m.group(1) == "ok", "back_end": "execution of the real binary", "kind": "execution"}
        if m.group(1) != "ok":
            out["violations"].append({"property": prop, "obligation": oid, "unit": "replay/" + script, "item": None, "verus_message": "bounded execution found a failing input",
                                      "sites": [{"item": None, "file": None, "line": None, "stmt": scenario}], "clause": what, "verus_output": p.stdout[-2000:],
                                      "counterexample": {"failing_input": m.group(2).strip(), "replay_cmd": "replay/" + script},
                                      "note": "found by bounded execution of the real binary"})
        return out
    eng.vx_scenario = scenario
    return eng

def nixtable_engine(prop, tier, work):
    """validates by execution the assumed nix signal table contract used by unit `names` (not a proof: an executed table check)"""
    out = {"obligations": {}, "violations": [], "tool_errors": [], "cmds": [], "trusted": [], "functions": [], "coverage": {}}
    here = os.path.dirname(os.path.dirname(os.path.abspath(__file__)))
    cmd = [os.path.join(here, "replay", "run.sh"), "nixtable", "check"]
    out["cmds"].append("replay/run.sh nixtable check  (real nix crate, all i32 in -2..=130)")
    try:
        p = subprocess.run(cmd, capture_output=True, text=True, timeout=600)
    except subprocess.TimeoutExpired:
        out["tool_errors"].append("nixtable: timeout"); return out
    m = re.search(r"RESULT nix_table (ok|VIOLATED)(.*)", p.stdout)
    oid = "C19.nix_table.assumed_contract_validated_by_execution"
    if not m:
        out["tool_errors"].append("nixtable: no result: " + (p.stdout + p.stderr)[-400:]); return out
    out["obligations"][oid] = {"unit": "replay/nixtable", "clause": "executed: nix from_str/try_from/as_str behave as the axioms of prelude/names_env.rs say, for every nix signal" + m.group(2),
                               "instances": 1, "ok": m.group(1) == "ok", "back_end": "execution of the real nix crate (table validation, not proof)", "kind": "execution"}
    if m.group(1) != "ok":
        out["violations"].append({"property": prop, "obligation": oid, "unit": "replay/nixtable", "item": None, "verus_message": "assumed dependency contract does not hold",
                                  "sites": [], "clause": "", "verus_output": m.group(0), "counterexample": {"observed": m.group(2)}, "note": "executed on the real nix crate"})
    return out


COMMON_ASSUME = [
    "Windows and cfg(test) variants of the code are not verified (R3 resolves cfg for linux, non-test, default features)",
    "machine arithmetic of Instant/Duration treated as mathematical (nat nanoseconds)",
    "suspension points (.await) are erased (R1): sound for task-local state; effects of other tasks enter only through the environment stand-ins",
]
TASK_ASSUME = COMMON_ASSUME + [
    "process-wrap child contract: kill/wait/signal act on the one child; a successful wait reaps it; spawn yields a child not currently live",
    "tokio select! runs exactly one ready branch and cancelling the others has no effect; a guarded branch runs only if its guard held",
    "tokio mpsc unbounded channels are FIFO and deliver every message exactly once; once every sender (every Job handle) is dropped the three queues are closed: nothing is appended any more, recv() on a closed and empty queue completes with None (modelled since D18)",
    "user callbacks (spawn hook, error handler, run/run_async functions) cannot touch task-local state",
    "one job task per job (C04.structure.one_task_per_job); the task body of start_job is verified as `job_task` with its two handler blocks outlined (R14) and select! desugared (R6b): cancelling the losing select branch (CommandState::wait / PriorityReceiver::recv) is assumed effect-free",
    "other tasks put controls into the queues only through Job methods (urgent: Stop/Delete, high: NextEnding), as proved for every Job method (C10.job_*) and enumerated call sites (C10.structure.*)",
]

ORIGINS_ASSUME = [
    "Windows and cfg(test) variants of the code are not verified",
    "DirList::obtain (tokio read_dir stream) returns one consistent snapshot of the directory (empty if unreadable); paths are abstract (parent/equality only)",
    "the set of origin markers is documented nowhere: `marked` is generated from check_list's own table; the per-type marker table and the VCS/Soft classes are transcribed from the doc comments of ProjectType (Zig has none: its row is the one in types())",
]
NOT_APPLICABLE = {
    "C17": "iterator-adapter/HashMap/OsString code that neither Verus nor Kani can digest; no contract within reach expresses the reconstruct-by-join law (DESIGN §8)",
}
WORKER_ASSUME = COMMON_ASSUME + [
    "async_priority_channel delivers each queued message once (highest priority first, FIFO within a priority); tokio::time::timeout returns Err only after the duration passed",
    "the filterer is arbitrary user code: its verdict per call is recorded, nothing else is assumed about it",
    "a message popped by recv is dropped when the channel is found closed right after (return Ok(None)): the statement's 'until a quit is requested'",
    "event producers (unit sources): the notify back end calls the watcher callback once per OS event; tokio signal streams and stdin deliver what the OS reports; real filesystem operations under native/poll watchers are not decided",
    "the worker loop around throttle_collect is under contract in unit actionloop (each returned batch goes to the action handler exactly once, in order); Handler::new and the handler itself are stand-ins (arbitrary user code)",
]
PROPS = {
    "C04": dict(claim='Inductive invariant (live children == the child owned by the state) proved by Verus over the real job-task loop and both handlers, for every control, child behaviour and fault; unbounded', trusted="environment stand-ins in prelude/task_env.rs (process-wrap child, tokio select/mpsc, user callbacks, clock), flag_env.rs; rewrite rules of the extractor; listed per run in evidence coverage.trusted_base and assumptions",
                units=["task", "command"], level="proof", assumptions=TASK_ASSUME,
                explanation="inductive invariant I1 (live children == the one child owned by the state) assumed at entry and proved at every exit of both select arms of the job task, for every control, every child behaviour and every failure of kill/wait/spawn; CommandState::{spawn,wait,reset} bodies proved against the contracts the arms rely on"),
    "C06": dict(claim='Contracts on the graceful arms, Timer and PriorityReceiver::recv proved by Verus for all grace values, timings and queue contents; restart-exactly-once clauses on the continuation arms', trusted="environment stand-ins in prelude/task_env.rs (process-wrap child, tokio select/mpsc, user callbacks, clock), flag_env.rs; rewrite rules of the extractor; listed per run in evidence coverage.trusted_base and assumptions",
                units=["task", "actionloop", "cliaction"], level="proof", assumptions=TASK_ASSUME + ["the CLI's quit closure (first request: graceful with the stop signal and stop timeout) is proved in unit cliaction", "the library's own graceful quit (action::worker) is a caller of Job::stop_with_signal: its per-job quit task is proved (unit actionloop) to send the graceful stop with the requested signal and grace and then a NORMAL delete, which the job task holds back until the process has ended"]),
    "C07": dict(claim='Ticket ledger (every received flag raised or parked, gone raised at task end) proved at every exit of both handlers and the loop shell incl. all failure exits; Flag wakes every registered waiter', trusted="environment stand-ins in prelude/task_env.rs (process-wrap child, tokio select/mpsc, user callbacks, clock), flag_env.rs; rewrite rules of the extractor; listed per run in evidence coverage.trusted_base and assumptions",
                units=["task", "flag"], level="proof", assumptions=TASK_ASSUME + [
        "Flag::poll and Flag::raise are each treated as atomic (no interleaving inside one call; Relaxed orderings and the register-then-recheck argument are not verified)",
        "Ticket::poll (futures::future::select over job_gone and control_done) is not under contract: a ticket is ready iff one of its two flags is raised",
        "std Mutex poisoning (panic while the waker list is locked) is not modelled"]),
    "C09": dict(claim='Every control arm and the child-ended arm proved to refine a state machine transcribed from the Job API docs (log of spawns/signals/kills/hooks, state, ticket resolution)', trusted="environment stand-ins in prelude/task_env.rs (process-wrap child, tokio select/mpsc, user callbacks, clock), flag_env.rs; rewrite rules of the extractor; listed per run in evidence coverage.trusted_base and assumptions",
                units=["task", "flag"], level="proof", assumptions=TASK_ASSUME),
    "C10": dict(claim='recv/send contracts over the three queues proved for all queue contents and timer states; every Job method proved to send its controls in order with one priority', trusted="environment stand-ins in prelude/task_env.rs (process-wrap child, tokio select/mpsc, user callbacks, clock), flag_env.rs; rewrite rules of the extractor; listed per run in evidence coverage.trusted_base and assumptions",
                units=["task"], level="proof", assumptions=TASK_ASSUME + [
        "'looking at the queues' is every moment a message is taken: on entry of recv (try_recv) and when the task wakes up from its biased select!; tokio's `biased;` is taken at its documented meaning (branches polled in the order written)"]),
    "C20": dict(units=["origins"], level="proof", assumptions=ORIGINS_ASSUME,
                claim="ProjectType::{is_vcs,is_soft}, DirList::*, check_list, origins (ancestor walk, loop invariant, termination) and types proved by Verus against specs transcribed from the docs, for all paths and directory contents",
                trusted="stand-ins in prelude/origins_env.rs (abstract paths, directory listing map, HashSet/array iterator idioms); string literals interned (R9)"),
    "C19": dict(units=["names"], engines=[_kani.make_engine("signals"), _kani.make_engine("events"), nixtable_engine,
                                         replay_engine("nixtable", "names", "C19.exhaustive.real_parser_and_printer_on_every_spelling",
                                                       "the real Signal::from_str / Display on every signal number nix knows (1..=64) in three spellings (number, SIG name, short name) x three letter cases, every first-class signal, and the 13 documented Windows control spellings (255 strings): display forms parse back to the same OS signal, the spellings agree, control names take precedence over the unix short name only",
                                                       label="EXHAUSTIVE EXECUTION over the finite set of signal spellings on the real code (complements the Verus proof of unit names, whose string theory is axiomatised): ")], level="proof",
                back_ends=["kani 0.68 / cbmc 6.11 (loop-free harnesses over full-domain symbolic inputs: complete, not bounded)", "verus 0.2026.09.13 (z3) for name parsing/display", "execution of the real nix crate for the assumed table contract (validation, not proof)"],
                assumptions=["linux/unix variants only", "wait-status encoding of the host libc (WIFEXITED/WEXITSTATUS/WIFSIGNALED/WTERMSIG as implemented by std on linux) restated in the harness",
                             "name parsing/display (unit names): strings are abstract; STRING THEORY axioms (upper-casing idempotent and number-preserving, decimal print/parse round trip, SIG prefix, distinct literals) and the nix table contract are assumed, the latter validated by execution on every run; the --map-signal clap glue is not decided",
                             "stop/continue wait statuses are outside the statement: std never reports them; observed: they map to Success, and into_exitstatus(Continued) does not read back"],
                claim="from_unix_str_impl, from_windows_str, FromStr::from_str, Display::fmt proved by Verus equal to a parse/display spec on which case-insensitivity, agreement of short/long/number spellings and display round trip are lemmas; Signal::{from(i32),to_nix,from_nix} and ProcessEnd::from(ExitStatus)/into_exitstatus proved by Kani for all 2^32 raw values and all enum values (function contracts on thin wrappers, proof_for_contract)",
                trusted="CBMC's bit-precise model of the compiled MIR incl. std::process::ExitStatus and nix::sys::signal::Signal::try_from (real code, no stubs)",
                technique="Kani function contracts (proof_for_contract) on the real conversion functions, full-domain symbolic inputs"),
    "C16": dict(units=["fskinds"], engines=[_kani.make_engine("signals"), _kani.make_engine("events"),
                                   replay_engine("events", "fs_kind_json_roundtrip_exhaustive", "C16.fs_kind.json_roundtrip_every_kind",
                                                 "every filesystem event kind: Event -> real serde_json text -> Event is the identity and the text has kind=fs, simple, full=<Debug name>",
                                                 label="EXHAUSTIVE EXECUTION over a finite domain (all 41 kinds; the enumeration's matches have no wildcard, so a new variant is a build error) on the real code incl. the serde layer: complete for this clause, not a proof: "),
                                   replay_engine("events", "finite_tags_json_roundtrip_exhaustive", "C16.finite_tags.json_roundtrip",
                                                 "all sources, keyboard eof, all file types on a path tag, payload-free completions: Event -> real serde_json text -> Event is the identity",
                                                 label="EXHAUSTIVE EXECUTION over finite tag payloads on the real code incl. the serde layer: "),
                                   replay_engine("events", "metadata_and_whole_events_json_roundtrip", "C16.bounded.metadata_and_whole_events_json_roundtrip",
                                                 "events with every metadata map over 3 keys x {absent, [], [\"\"], one value, two values, awkward characters} x 3 tag sets (648 events) and an array of events: Event -> real serde_json text -> Event is the identity (the Event <-> SerdeEvent conversion is outside Kani's reach: HashMap/BTreeMap)",
                                                 label="BOUNDED EXECUTION on the real code incl. the serde layer (metadata strings are an infinite domain): ")],
                level="proof",
                back_ends=["kani 0.68 / cbmc 6.11 (loop-free harnesses over full-domain symbolic inputs: complete, not bounded)"],
                assumptions=["the serde-derive layer and serde_json (field names, kebab-case renames, skip_serializing_if, untagged SerdeSignal) are NOT decided: pinned only by the existing snapshot tests",
                             "paths: a fixed empty PathBuf stands for every path (its bytes are moved, never inspected, by the conversions)",
                             "filesystem event kind names (format!(\"{:?}\") against the 41-row string match) cannot be brought under Kani (format!) or Verus (string bytes): decided by exhaustive execution of all 41 kinds on the real code, labelled as such",
                             "Event metadata HashMap<->BTreeMap conversion is std's collect(): not under contract"],
                claim="Tag<->SerdeTag conversions proved by Kani for every non-fs tag kind over full value ranges; an arbitrary tag object (all optional fields symbolic) never panics and yields its own kind or the explicit Unknown tag; the filesystem-kind name table (the real 41-row `match full.as_str()`) proved by Verus to parse the text derive(Debug) prints for every kind back to that kind",
                trusted="CBMC's bit-precise model of the compiled MIR (real code incl. the unsafe new_unchecked calls, no stubs); unit fskinds: the kind enums are extracted from notify-types' source in the cargo registry, debug_name is generated from them by the documented meaning of derive(Debug) (validated by the exhaustive execution through the real format!/serde_json), string literals are abstract values that differ when their texts differ",
                technique="Kani loop-free proof harnesses over full-domain symbolic inputs on the real conversion functions (plain harnesses: contract instrumentation is 20x slower on these heap-carrying types)"),
    "C01": dict(units=["worker", "sources", "actionloop", "fswatch", "maintask"], level="proof", assumptions=WORKER_ASSUME,
                claim="throttle_collect proved by Verus: the returned batch is exactly the accepted sub-sequence (urgent, empty or filter-accepted) of the messages it received, never empty; loop invariant over all event streams, verdict sequences and timings",
                trusted="stand-ins in prelude/worker_env.rs (async_priority_channel receiver, tokio timeout, Changeable throttle, arbitrary filterer, error channel); frame lemmas applied in verified wrappers (units/worker/spec.rs)"),
    "C02": dict(units=["worker", "actionloop", "cfgwatch"], level="proof", assumptions=WORKER_ASSUME + ["wall-clock accuracy of tokio timers is not decided; 'arrive within the window' = received by the worker before the return"],
                claim="throttle_collect proved by Verus: a non-urgent batch is not returned before first-event time + throttle, an urgent event is the last one received and is never filtered, the recv timeout never exceeds the rest of the window",
                trusted="stand-ins in prelude/worker_env.rs (virtual clock: only blocking calls let time pass)"),
    "C15": dict(units=["worker", "errhook", "sources", "fswatch", "maintask", "cfgwatch"], level="proof", assumptions=WORKER_ASSUME + ["watch/unwatch failures (unit fswatch): the notify watcher is an abstract map whose calls may fail arbitrarily; notify_multi_path_errors is a stand-in yielding one runtime error per path the notify error names (at least one)"],
                claim="throttle_collect proved by Verus: every filter error is sent to the error channel exactly once, in order, the event is not batched and collection continues; only a closed error channel is critical. fs::worker proved: each failed watch/unwatch call is sent to the error channel once per named path, the other paths are still processed and the worker keeps running. error_hook / ErrorHook::{handle_crit,critical,elevate} proved: each received error handled exactly once, a raised critical is never ignored",
                trusted="stand-ins in prelude/worker_env.rs, prelude/errhook_env.rs (error channel, OnceLock/Arc cell with ghost owner count, arbitrary error handler); Arc drops are not modelled (owner count at the time of handle_crit)"),
    "C18": dict(units=["command", "task"], level="proof",
                fallback=[replay_engine("supervisor", "argv_exact_bounded", "C18.bounded.argv_exact_up_to_3_args", "to_spawnable hands over exactly the configured argv for all lists of <= 3 arguments over 12 awkward strings, Exec and Shell")],
                assumptions=["tokio::process::Command passes argv byte for byte to execvp; process-wrap wrappers (KillOnDrop, ProcessSession, ProcessGroup::leader, ResetSigmask) do what their names say",
                             "string-like values are opaque and never inspected by the code under contract, so 'byte for byte' is identity of those values",
                             "the head of interpret_command_args (shell selection from --shell/$SHELL, whitespace split of the shell string) is string code outside the verifier's reach: not decided",
                             "what the child actually observes (environment, cwd after the spawn hook) is OS behaviour: the hook dataflow (hook output == spawned spawnable) is proved in unit task (C09+C18.spawn.*, respawn_seq)",
                             "Windows raw_arg branch not verified"],
                claim="Command::to_spawnable proved by Verus for all programs/argument vectors/options: argv and wrapper sequence equal the specification; tail of interpret_command_args proved (words -> program+args / joined command string, wrap mode -> group/session); spawn-hook dataflow proved in unit task",
                trusted="stand-ins in prelude/command_env.rs (tokio Command recorder, process-wrap wrapper kinds)"),
    "C03": dict(units=["ignore", "ignorebuild", "sources"], level="proof",
                assumptions=["glob semantics of one compiled ignore file (the `ignore` crate: pattern grammar, agreement with git check-ignore) are NOT decided: each file's matcher is an uninterpreted function of (file, path, is_dir)",
                             "PATH THEORY (trusted axioms in prelude/ignore_env.rs): a parent is shorter; an ancestor's display string is a textual prefix; a textual prefix cut at its last separator is a true ancestor; the longest-textual-prefix argument on one ancestor chain; the root is the shortest path",
                             "radix_trie::Trie::get_ancestor returns the entry with the longest key that is a textual prefix of the query (assumed contract of the dependency)",
                             "keying of the trie by the constructors (new/add_file/add_globs insert GitignoreBuilder::new(&applies_in) under applies_in.display()) is assumed (wf_filter), not verified: those functions are async stream / string code",
                             "dunce::simplified + normalize are the identity on already simplified paths; display()/Path::new round-trip for UTF-8 paths",
                             "the verdict of a directory against the ignore file stored in that very directory is left unspecified by the statement; multi-path events are only decided for zero or one path"],
                claim="IgnoreFilter::match_path proved by Verus (loop invariant, termination): only ignore files of directories containing the path are consulted, nearest first, each once, none skipped when nothing matched, verdict = nearest match; check_dir and IgnoreFilterer::check_event (0/1 path) proved against it",
                trusted="stand-ins + path-theory axioms in prelude/ignore_env.rs; sequence reasoning in verified wrappers (units/ignore/spec.rs)"),
    "C12": dict(units=["clifilter", "clipatterns", "discover"], level="proof",
                assumptions=["clap parsing of argv into Args is not decided; discovery itself (ignore_files::from_origin / from_environment: the head of dirs::ignores) enters the CLI units as arbitrary lists; the VCS label from_origin gives each discovered file, which --no-vcs-ignore and the vcs filter act on, is from_origin's own result obligation (unit discover, tagged C14+C12)",
                             "dirs::ignores = head (discovery, not extracted) followed by the verified tail whose result is the function's result; WatchexecFilterer::new beyond its first statement (filters, built-in list, extensions: format!/String code) is covered only by the structural obligations C12.structure.* (which flags are read where)",
                             "iterator adapter idioms (filter/map/extend/collect) are redirected to prelude functions with sequence-level specs (R10d); every closure body is proved against its clause and ghost twin",
                             "filter files' I/O (read_filter_file) not decided"],
                claim="tail of dirs::ignores, head of WatchexecFilterer::new and head of FilteringArgs::normalise proved by Verus with all six flags symbolic: explicit --ignore-file entries always reach the filterer; each flag removes exactly the discovered sources it names; --ignore-nothing = the five flags",
                trusted="stand-ins in prelude/clifilter_env.rs (Vec/iterator idioms, abstract paths)"),
    "C13": dict(units=["fswatch", "cfgwatch", "kbd", "maintask"], level="proof",
                assumptions=["the notify watcher is a map path -> recursion mode: watch() inserts/overwrites, unwatch() removes, either may fail arbitrarily leaving the map unchanged; Watcher::create yields an empty watcher of the requested kind (real notify back ends, recursive sub-watches, inotify auto-removal on delete: not decided; replayed on the real library by replay/lib scenarios)",
                             "a configured path set names each path once (distinct_paths): with the same path configured in both modes no registration can equal the configuration",
                             "the configuration read by one iteration (pathset.get twice, file_watcher.get) does not change during it; a change made meanwhile is applied by the next iteration: ConfigWatched::next and Config::signal_change are under contract in unit cfgwatch (logical-clock model of tokio Notify + the change counter: the watcher sleeps only on a Notified enabled before it read the counter, and only if the counter equals what it already reported; signal_change counts before it wakes; each setter signals once (structural)). Changeable: that reads clone the value out of a temporary guard and that a handler is called on the clone with no lock held is decided on the token stream (structural obligations; Verus does not model Drop), which is what makes reconfiguration from inside a handler deadlock-free and leaves the invocation in progress on the old handler. tokio Notify itself and RwLock fairness are NOT decided",
                             "convergence is claimed per iteration in which no watch/unwatch call failed; with failures the record still mirrors the watcher, so a later fault-free iteration converges",
                             "notify_multi_path_errors (string/notify::Error code) is a stand-in: one runtime error per path the notify error names, at least one; errors.send is an abstract channel that counts accepted errors",
                             "`for` loops are desugared mechanically (R16) over a stand-in iterator yielding the Vec's elements in order; HashSet iteration order is arbitrary (vx_elems)"],
                claim="fs::worker (whole function: outer loop, diff loops, unwatch/watch loops, error loops) proved by Verus against an abstract watcher: the worker's record always mirrors the active watcher, an empty configuration releases the watcher, after a fault-free iteration the registered map equals the configured set with its modes and kind, every failed call is reported once per named path and never ends the worker; ConfigWatched::next/Config::signal_change proved not to lose a change between two waits (logical-clock model); unbounded",
                trusted="stand-ins in prelude/fswatch_env.rs (abstract notify watcher, channels, configuration reads, HashSet, iterator)"),
    "C05": dict(units=["cliaction", "task", "handlerjobs"], level="proof",
                assumptions=TASK_ASSUME + ["the CLI action handler is decided piecewise: the on-busy block (is_running x mode -> controls sent), the queue-mode follow-up task, the --restart/--signal shorthands and the start-up event; what the job does with each control is units task's contracts (C04/C06/C09); the handler's other parts (spawn hook, printing, delay_run sleep, --once) are not decided",
                             "the closure handed to job.run (screen clearing, banner) is replaced by a marker by exact token match",
                             "queue mode: `queued` is cleared after the follow-up run's start was processed; a change landing between that start and the clearing sees is_running && queued and does nothing. Whether such a change can be left without a later run is an interleaving of three tasks that contracts on these blocks cannot decide; a timing sweep of the real binary (200 trials around the boundary) did not produce it: NOT decided, not claimed either way",
                             "clap parsing (conflicts_with between --restart and --on-busy-update) not decided"],
                claim="Verus proves the on-busy block sends exactly the documented controls per (running, mode): idle -> Start; do-nothing -> nothing; signal -> the configured signal only; restart -> graceful restart with the stop signal/timeout; queue -> at most one follow-up task, which waits for the current run to end and then starts one run; --signal/-r select the mode; start-up event sent iff not --postpone (structural); non-overlap is C04's invariant (same obligations)",
                trusted="stand-ins in prelude/cliaction_env.rs (Job handle as a control log, atomics), prelude/task_env.rs"),
    "C08": dict(units=["actionloop", "latejoin", "maintask", "cliaction", "task", "flag", "sources", "handlerjobs", "command"], level="proof",
                fallback=[replay_engine("lib", "graceful_quit_three_stubborn_jobs_within_grace", "C08.bounded.graceful_quit_three_stubborn_jobs_within_grace",
                                        "3 jobs that ignore SIGTERM, quit_gracefully(Terminate, 1.5 s) on the real library: the main task ends within grace + 1.2 s, not before the grace, and no process survives"),
                          replay_engine("lib", "graceful_quit_after_the_handler_deleted_the_job", "C08.bounded.graceful_quit_after_the_handler_deleted_the_job",
                                        "a handler deletes its running job and asks for a graceful quit in the same action, on the real library: the main task ends within 10 s"),
                          replay_engine("supervisor", "control_queued_behind_delete_resolves", "C08.bounded.control_queued_behind_delete_resolves",
                                        "the ticket of a control queued behind delete() resolves when the job task ends (real supervisor, one history)")],
                engines=[replay_engine("supervisor", "grouped_graceful_stop_leaves_no_member", "C08.assumption.no_group_member_outlives_a_graceful_stop",
                                       "after stop_with_signal + delete of a grouped command no member of its process group is left (one history, executed on the real supervisor with real processes)",
                                       label="ASSUMPTION VALIDATED BY EXECUTION (OS / process-wrap behaviour no contract here can express; one history): ")],
                assumptions=TASK_ASSUME + ["action::worker is proved against stand-ins for LateJoinSet/HashMap/handler: a graceful quit spawns one task per held job (stop_with_signal(signal, grace) then delete().await: item quit_job_task), joins them, joins every job task, then returns; an abort returns at once. LateJoinSet itself (insert/spawn/join_all/abort_all/drop) is proved in unit latejoin over an abstract FuturesUnordered: dropping the set aborts every task in it, join_all waits for every task. The main task's supervision loop is proved in unit maintask (ends as soon as the action worker returns, shuts the other workers down, ends with a worker's critical error). That an aborted job task drops its child and that kill_on_drop kills it is tokio/process-wrap behaviour: NOT decided",
                             "time bound: each quit task ends when its delete ticket resolves; that this happens within the grace periods is C06/C07/C09 (unit task: timers, tickets) composed by reading, not by one proof",
                             "process groups: signals and kills go to the group via process-wrap (command/conversions.rs wrappers: C18 decides the wrapping). Whether group members other than the leader outlive a graceful stop when the leader exits inside the grace period is OS/process-wrap behaviour outside any contract here: NOT decided (see DESIGN appendix, D9)",
                             "CLI: the quit closure and the signal gate are proved; clap parsing and the signal sources are C01's sources unit"],
                claim="Verus proves action::worker: loop ends only on quit or closed channel; abort quits at once; graceful quit stops-then-deletes every held job with the requested signal/grace and waits for all quit tasks and all job tasks; CLI: quit escalates graceful(stop signal, stop timeout) -> forced -> abort, an unmapped interrupt/terminate leads to exactly that quit; Handler::quit/quit_gracefully set the manner; job-side stop/delete/ticket behaviour is units task/flag (C04/C06/C07/C09 obligations)",
                trusted="stand-ins in prelude/actionloop_env.rs, cliaction_env.rs, task_env.rs, flag_env.rs"),
    "C14": dict(units=["discover", "ignore", "ignorebuild"], level="proof",
                assumptions=["the file system is a fixed function during one discovery (metadata and directory listings as uninterpreted functions; I/O may fail at any call); paths are abstract with parent/starts_with axioms (component-wise, no strings)",
                             "which directories the walker's filter ignores is IgnoreFilter::check_dir (unit ignore, C03) over the files added so far: an uninterpreted function here",
                             "the `.git/config` core.excludesFile lookup (gix-config, $HOME) is replaced by a stand-in adding at most one global git file; from_environment (global files) is not decided",
                             "per-function contracts: find_file, discover_file, from_origin (result = explicit + origin-level + the files of every directory handed out, tagged; each found file reaches the walker's filter before the next directory), DirTourist::{next, visit_path, skip, must_skip}. That together they visit EXACTLY the directories reachable without entering an ignored one (a closure over the whole tree, with a filter that grows during the walk) is composed by reading these contracts, not by one inductive proof; independence of listing order likewise",
                             "DirTourist::new (canonicalize, filter construction) is covered only by the structural obligations on the VCS metadata directory globs"],
                claim="Verus proves: only regular non-empty files count; each found file is appended once, tagged with its directory and VCS; from_origin returns exactly explicit + [git-config] + existing origin-level files + existing .ignore/.gitignore/.hgignore of every directory the walker hands out, in order, and feeds each to the walker's filter at once; the walker hands out only queued, unskipped, unignored, watch-related directories, queues every unignored listed subdirectory, prunes ignored ones with everything queued beneath them, and a skipped directory covers its whole subtree",
                trusted="stand-ins in prelude/discover_env.rs (abstract file system, path theory axioms, HashSet/Vec idioms, IgnoreFilter verdicts)"),
    "C11": dict(units=["globset", "ignore", "sources", "clipatterns"], level="proof",
                assumptions=["glob matchers (ignore::gitignore::Gitignore built from --filter/--ignore patterns) are uninterpreted functions of (matcher, path, is_dir); num_ignores() > 0 is read as 'filter patterns configured'",
                             "the backing ignore-files filterer is C03's contract (uninterpreted verdict here)",
                             "iterator idioms (paths().any, iter().any, peekable/peek) are redirected to prelude functions with sequence-level specs; every closure body is proved against its clause and ghost twin; the big per-path closure is outlined (R14) and proved as `per_path`",
                             "notify's event kind enums are extracted from the events crate's own mirror (sans_notify.rs), assumed identical to notify-types",
                             "the 1.x rebased-path compatibility block is replaced by one stand-in call (vx_rebase) by exact token match"],
                claim="GlobsetFilterer::check_event (per-path closure and outer structure) and WatchexecFilterer::check_event (fs-event kind gate, loop invariant) proved by Verus equal to the documented rule; ignore precedence, empty-config and monotonicity lemmas proved on the spec",
                trusted="stand-ins in prelude/globset_env.rs"),
}

# thorough tier: real-code replays of the histories behind the repaired defects (see known_findings.jsonl), and bounded executions
PROPS["C09"]["thorough_engines"] = [_hist("supervisor", "next_ending_pending", "C09", "to_wait() on a never-started job resolves at once"),
    _hist("supervisor", "compound_ticket_is_the_last_controls", "C09", "the ticket of restart() / restart_with_signal() resolves only once the fresh process has been hooked and spawned (slow asynchronous spawn hook)")]
PROPS["C07"]["thorough_engines"] = [_hist("supervisor", sc, "C07", w) for sc, w in [
    ("graceful_stop_exit_in_grace", "the graceful-stop ticket resolves when the child exits inside the grace period"),
    ("try_graceful_restart_spawn_fails", "the try-restart ticket resolves when the respawn fails"),
    ("two_waiters_one_ticket", "every task awaiting a clone of one ticket is woken"),
    ("drop_last_handle_idle", "dropping the last handle of an idle job ends the job task cleanly"),
    ("ticket_outlives_handles", "a ticket outliving all handles resolves"),
    ("control_queued_behind_delete_resolves", "the ticket of a control queued behind delete() resolves when the job task ends"),
    ("graceful_stop_kills_at_expiry_after_handles_dropped", "a graceful stop whose grace runs out after the last Job handle was dropped still kills the process and resolves its ticket (D18)"),
    ("pending_controls_run_after_handles_dropped", "controls queued before the last Job handle was dropped are run, in order, each once, and their tickets resolve (D18; 10 rounds)"),
    ("compound_ticket_is_the_last_controls", "the ticket of restart() / restart_with_signal() / delete() is the ticket of the LAST control sent: it resolves only once the fresh process has been hooked and spawned / the job task has ended"),
    ("huge_grace_does_not_panic_the_job_task", "stop_with_signal / restart_with_signal with Duration::MAX as grace do not panic the job task; their tickets resolve when the process ends (D19: the one place where the 'mathematical time arithmetic' assumption of the proofs was false on the real code)")]]
# "delivers the requested signal": the job task hands the requested Signal to Signal::to_nix (a stand-in in unit task); that the conversion yields that very OS
# signal is the Kani obligation C19+C06.signal_to_nix.number_preserved on the real function
PROPS["C06"]["engines"] = PROPS["C06"].get("engines", []) + [_kani.make_engine("signals")]
PROPS["C06"]["thorough_engines"] = [_hist("supervisor", "try_graceful_restart_once", "C06", "a graceful try-restart past its deadline starts the replacement exactly once"),
    _hist("supervisor", "graceful_stop_kills_at_expiry_after_handles_dropped", "C06", "a graceful stop whose grace runs out after the last Job handle was dropped still kills the process at expiry (D18)")]
PROPS["C03"]["thorough_engines"] = [_hist("ignorefiles", sc, "C03", w) for sc, w in [
    ("prefix_sibling_negation", "a negation in test/.gitignore does not leak into tests/"),
    ("prefix_sibling_shadow", "a hit in test/.gitignore does not shadow the root file for tests/"),
    ("same_directory_files_keep_their_listed_order", "two files applying in one directory (a large `*.log` file listed first, a small `!keep.log` file second) are evaluated in their listed order on each of 400 constructions from identical inputs (D17)")]] + [
    replay_engine("ignorefiles", "ignore_files_outside_the_origin", "C03.bounded.files_outside_the_origin_apply_in_their_own_directory",
    "the real IgnoreFilter with ignore files of a sibling of the origin and of the directory above it (alone, together, in both listed orders) x 2 constructions (new, empty + add_file) x 6 probes (48 verdicts): each file applies in its own directory only, its patterns relative to that directory"),
    replay_engine("ignorefiles", "ignore_rule_bounded", "C03.bounded.verdict_is_the_nearest_file_first_evaluation",
    "the real IgnoreFilter on 320 ignore-file configurations (origin, test/, test/sub/, tests/, tests/sub/; negations, rooted, dir-only, **/ and a/b patterns) x 3 constructions (new, new with the files listed deepest first, empty + add_file) x ~53 probes, plus 196 two-path events per configuration (114032 verdicts): match_path, check_dir and IgnoreFilterer::check_event (single paths, and two paths folded left to right) equal an independent nearest-file-first evaluation with the ignore crate's matcher per file")]
PROPS["C13"]["thorough_engines"] = [_hist("lib", sc, "C13", w) for sc, w in [
    ("watcher_kind_change_keeps_paths", "after a watcher kind change the configured paths are registered with the new watcher"),
    ("mode_change_after_failed_unwatch", "a path whose mode changed while its unwatch failed stays registered after a later change"),
    ("change_during_apply_is_not_lost", "a configuration change made while the previous one is being applied is applied")]]
PROPS["C13"]["thorough_engines"] = PROPS["C13"]["thorough_engines"] + [replay_engine("lib", "config_sequences_bounded", "C13.bounded.events_arrive_exactly_as_configured_once_changes_stop",
    "real library, native watcher, real file system: 10 seeded sequences of 5 run-time path-set changes over two disjoint directories x {absent, recursive, non-recursive}, issued 0 / 3 / 60 ms apart; once they stop, a file written in a configured directory is reported, one in its subdirectory iff the watch is recursive, nothing from an unconfigured directory (a mismatch must persist over three rounds to count)")]
PROPS["C18"]["fallback"] = PROPS["C18"]["fallback"] + [script_engine("cli_argv.py", "cli_argv", "C18.bounded.cli_child_and_shell_argv",
    "the real binary: without a shell (-n, --shell=none) the child receives every argument byte for byte for 52 argument lists over 15 awkward strings (empty, spaces, quotes, $, *, newline, multi-byte, leading dashes); with --shell=<prog [options]> the shell is invoked as <options..> -c \"<words joined by one space>\" (6 cases)")]
PROPS["C18"]["thorough_engines"] = PROPS["C18"]["fallback"]
PROPS["C08"]["thorough_engines"] = PROPS["C08"]["fallback"] + [_hist("lib", "same_id_twice_in_one_action_is_one_job", "C08", "get_or_create_job(id) twice within one action yields one job; no process it started survives the graceful quit (D20)")]
PROPS["C20"]["thorough_engines"] = [replay_engine("ignorefiles", "origins_markers_bounded", "C20.bounded.origins_and_types_equal_the_documented_tables",
    "the real project-origins crate on one 4-level chain: each of the 53 documented markers as a file and as a directory at each level (424 placements, started from the leaf and from above the marker) plus 52 two-marker placements: origins() returns exactly the marked directories of the chain, types() exactly the documented types; every ProjectType is VCS xor software")]
_STREAM = "3 seeded streams of 80 events sent to the real library (every priority, pass / reject / error verdicts, empty events, gaps from 0 to 2 x the 120 ms throttle): "
PROPS["C01"]["thorough_engines"] = [replay_engine("lib", "event_stream_c01", "C01.bounded.each_accepted_event_in_exactly_one_batch",
    _STREAM + "each accepted, urgent or empty event reaches the action handler in exactly one batch, no rejected or errored one does, no batch is empty")]
PROPS["C01"]["thorough_engines"] = PROPS["C01"]["thorough_engines"] + [replay_engine("lib", "fs_operations_reach_handler", "C01.bounded.real_fs_operations_reach_the_handler",
    "real file system, native and poll watcher, one history each: create / write / create in a new nested directory / rename / remove under the watched directory each reach the action handler as an event naming the path (10 s allowed per step)")]
PROPS["C02"]["thorough_engines"] = [replay_engine("lib", "event_stream_c02", "C02.bounded.no_batch_before_the_throttle_has_passed",
    _STREAM + "a batch without an urgent event is never handed over before the throttle has passed since its earliest event was sent (lower bound only; the upper bound is timing-sensitive and left to the proof)")]
PROPS["C15"]["thorough_engines"] = [replay_engine("lib", "event_stream_c15", "C15.bounded.each_filter_error_reaches_the_error_handler_once",
    _STREAM + "each filter error reaches the error handler exactly once and later events are still processed")]
_SEQ = "real supervisor, real processes: 24 seeded settled sequences of 12 controls and 24 seeded bursts of 14 controls over {start, stop, restart, try-restart, their graceful variants, signal}, children that live long / exit after 50 ms / ignore SIGTERM: "
PROPS["C04"]["thorough_engines"] = [replay_engine("supervisor", "control_sequences_c04", "C04.bounded.no_two_processes_of_one_job_at_any_sampled_moment",
    _SEQ + "at every spawn (spawn hook) and at every 1 ms sample no process announced earlier for the same job is still in the process table")]
PROPS["C09"]["thorough_engines"] = PROPS["C09"]["thorough_engines"] + [replay_engine("supervisor", "control_sequences_c09", "C09.bounded.state_and_spawn_count_follow_the_documented_semantics",
    _SEQ + "after each awaited control of a settled sequence the job is running / not running and has spawned as many processes as a reference model of the documented semantics says")]
PROPS["C10"]["thorough_engines"] = [_hist("supervisor", "urgent_overtakes_normal_when_parked", "C10", "an urgent control pending together with a normal one when the parked job task wakes up runs first (60 trials)"),
    _hist("supervisor", "pending_controls_run_after_handles_dropped", "C10", "controls queued before the last Job handle was dropped are run, in order, each once (D18; 10 rounds)"),
    _hist("supervisor", "compound_ticket_is_the_last_controls", "C10", "awaiting the ticket of a compound operation implies every control of it has run: the ticket is the last control's")] + [replay_engine("supervisor", "control_sequences_c10", "C10.bounded.normal_controls_run_in_send_order_once",
    _SEQ + "the normal-priority marker controls interleaved with a burst run in send order, each once (high/urgent overtaking is not observable through the public API: proof only)")]
PROPS["C05"]["thorough_engines"] = [script_engine("cli_on_busy.py", "cli_on_busy", "C05.bounded.one_change_mid_run_in_each_mode",
    "the real binary, started through a first change (--postpone), one change 1 s into a 3 s run in each --on-busy-update mode (do-nothing, queue, queue with a second change during the queued run, restart, signal with --signal SIGUSR1): the start/end/term/usr1 history of the command is the documented one and runs never overlap")]
PROPS["C11"]["thorough_engines"] = [replay_engine("ignorefiles", "globset_rule_bounded", "C11.bounded.verdict_is_the_documented_rule",
    "the real GlobsetFilterer on 6 configurations (no patterns; ignores; ignores+filters; +extensions; a negated ignore pattern, alone and with filters+extensions) x all events of 1..2 paths over 7 file names x 3 file types (2772 events): the verdict equals the documented rule; watched-file and path-less events pass")]
PROPS["C12"]["thorough_engines"] = [script_engine("cli_flag_sources.py", "cli_flag_sources", "C12.bounded.flags_remove_exactly_the_named_sources",
    "10 flag sets x 6 ignore sources (project .gitignore/.ignore, global git/watchexec ignore, --ignore-file, --ignore) on the real binary: each source is honoured exactly when no given flag names it")]
PROPS["C14"]["thorough_engines"] = [_hist("ignorefiles", "negation_reincludes_a_direct_child", "C14", "a directory re-included by a negation in its parent's own ignore file is searched")] + [replay_engine("ignorefiles", "discovery_exact_on_a_small_tree", "C14.bounded.discovery_exact_on_a_small_tree",
    "from_origin on one hand-made tree (prefix-named siblings, two ignore files in one directory, an ignored subtree, a VCS metadata directory, an empty file, nested directories): exactly the applicable files, each tagged with its directory")]

# Deterministic bounded executions of the real code run in the QUICK tier too (they take seconds, depend on no timing, and cover code the
# extraction does not reach: the pattern-line loops of add_file/add_globs, the discovery head of dirs::ignores, the shell-selection head of
# interpret_command_args). Timing-sensitive executions (event streams, control sequences, CLI runs with sleeps, history replays) stay in the
# thorough tier and as fallbacks.
def _promote(prop, pred):
    te = PROPS[prop].get("thorough_engines", [])
    fb = PROPS[prop].get("fallback", [])
    mv = [e for e in te if pred(e)]
    for e in mv: e.vx_label = "BOUNDED EXECUTION of the real code (deterministic, run in every tier; never counted as proof): "
    PROPS[prop]["engines"] = PROPS[prop].get("engines", []) + mv
    PROPS[prop]["thorough_engines"] = [e for e in te if e not in mv]
    PROPS[prop]["fallback"] = [e for e in fb if e not in mv]
_promote("C03", lambda e: getattr(e, "vx_scenario", "") in ("ignore_rule_bounded", "ignore_files_outside_the_origin"))
_promote("C20", lambda e: getattr(e, "vx_scenario", "") == "origins_markers_bounded")
_promote("C11", lambda e: getattr(e, "vx_scenario", "") == "globset_rule_bounded")
PROPS["C14"]["thorough_engines"] = PROPS["C14"]["thorough_engines"] + [replay_engine("ignorefiles", "discovery_rule_bounded", "C14.bounded.discovery_equals_the_reachability_rule",
    "from_origin on one tree (nested directories, a prefix-named sibling) under 150 ignore-file configurations (origin, a/, a/b/; plain, directory-only, rooted and negated patterns), 30 of them also with two explicit watch lists: exactly the ignore files of the directories reachable without entering an ignored one - judged by an independent nearest-file-first evaluation with the ignore crate's matcher one file at a time - each tagged with its directory (this composition over the whole tree is what the per-function contracts do not prove: D16)")]
_promote("C14", lambda e: getattr(e, "vx_scenario", "") in ("discovery_exact_on_a_small_tree", "discovery_rule_bounded"))
_promote("C18", lambda e: getattr(e, "vx_scenario", "") in ("argv_exact_bounded", "cli_argv"))
