"""Per-property check configuration: which units decide it, what is assumed."""

COMMON_ASSUME = [
    "Windows and cfg(test) variants of the code are not verified (R3 resolves cfg for linux, non-test, default features)",
    "machine arithmetic of Instant/Duration treated as mathematical (nat nanoseconds)",
    "suspension points (.await) are erased (R1): sound for task-local state; effects of other tasks enter only through the environment stand-ins",
]
TASK_ASSUME = COMMON_ASSUME + [
    "process-wrap child contract: kill/wait/signal act on the one child; a successful wait reaps it; spawn yields a child not currently live",
    "tokio select! runs exactly one ready branch and cancelling the others has no effect; a guarded branch runs only if its guard held",
    "tokio mpsc unbounded channels are FIFO and deliver every message exactly once",
    "user callbacks (spawn hook, error handler, run/run_async functions) cannot touch task-local state",
    "one job task per job (C04.structure.one_task_per_job); the task body of start_job is verified as `job_task` with its two handler blocks outlined (R14) and select! desugared (R6b): cancelling the losing select branch (CommandState::wait / PriorityReceiver::recv) is assumed effect-free",
    "other tasks put controls into the queues only through Job methods (urgent: Stop/Delete, high: NextEnding), as proved for every Job method (C10.job_*) and enumerated call sites (C10.structure.*)",
]

PROPS = {
    "C04": dict(units=["task"], level="proof", assumptions=TASK_ASSUME,
                explanation="inductive invariant I1 (live children == the one child owned by the state) assumed at entry and proved at every exit of both select arms of the job task, for every control, every child behaviour and every failure of kill/wait/spawn; CommandState::{spawn,wait,reset} bodies proved against the contracts the arms rely on"),
    "C06": dict(units=["task"], level="proof", assumptions=TASK_ASSUME),
    "C07": dict(units=["task", "flag"], level="proof", assumptions=TASK_ASSUME + [
        "Flag::poll and Flag::raise are each treated as atomic (no interleaving inside one call; Relaxed orderings and the register-then-recheck argument are not verified)",
        "Ticket::poll (futures::future::select over job_gone and control_done) is not under contract: a ticket is ready iff one of its two flags is raised",
        "std Mutex poisoning (panic while the waker list is locked) is not modelled"]),
    "C09": dict(units=["task"], level="proof", assumptions=TASK_ASSUME),
    "C10": dict(units=["task"], level="proof", assumptions=TASK_ASSUME + [
        "'looking at the queues' is the entry of recv: messages arriving during the blocking select may be picked in any order"]),
}
