"""Anchors and the fixed catalogue of mechanical rewrite rules (DESIGN §3). Token level, stdlib only.

Every rule takes and returns a token list and bumps a counter in `stats` so that each run reports which
rules fired and how often. Anything outside the supported subset raises ExtractError (exit 2).
"""
from .tok import Tok, T, tokenize, match_table, ExtractError, find_seq, find_all_seq, pat, text_of

# ------------------------------------------------------------------------------------------------
# R3: cfg resolution (platform under test: linux, unix, not windows, not test, features below)
# ------------------------------------------------------------------------------------------------
CFG_TRUE = {"unix", 'target_os="linux"', 'feature="serde"', 'feature="fromstr"', 'feature="miette"'}
CFG_FALSE = {"windows", "test", "kani", 'target_os="vxworks"', 'feature="full_debug"', 'target_os="macos"',
             'target_os="freebsd"', 'target_os="windows"', 'target_os="illumos"', 'target_os="solaris"', "doc", "debug_assertions",
             'feature="notify"', 'watchexec_verif', 'feature="serialization-compat-6"'}

def eval_cfg(toks):
    """evaluate the token list of a cfg predicate"""
    s = "".join(t.s for t in toks)
    def ev(s):
        s = s.strip()
        for fn in ("not", "any", "all"):
            if s.startswith(fn + "(") and s.endswith(")"):
                inner = s[len(fn) + 1:-1]
                parts = split_top(inner)
                vals = [ev(p) for p in parts if p.strip()]
                if fn == "not": return not vals[0]
                if fn == "any": return any(vals)
                return all(vals)
        if s in CFG_TRUE: return True
        if s in CFG_FALSE: return False
        raise ExtractError("R3: cfg predicate %r not in the resolved platform table" % s)
    def split_top(s):
        parts = []; depth = 0; cur = ""
        for ch in s:
            if ch == "(": depth += 1
            if ch == ")": depth -= 1
            if ch == "," and depth == 0:
                parts.append(cur); cur = ""
            else: cur += ch
        parts.append(cur)
        return parts
    return ev(s)

BLOCKLIKE = {"if", "match", "for", "while", "loop", "unsafe", "{"}
ITEMKW = {"fn", "impl", "mod", "trait", "struct", "enum", "union"}

def item_extent(toks, m, i, encl_open):
    """End (exclusive) of the item/statement/field/param starting at token i, whose innermost enclosing
    delimiter is toks[encl_open] (or None for file level)."""
    n = len(toks)
    end_limit = m[encl_open] if encl_open is not None else n
    encl = toks[encl_open].s if encl_open is not None else "{"
    # skip further attributes
    j = i
    while j < end_limit and toks[j].s == "#" and toks[j + 1].s == "[":
        j = m[j + 1] + 1
    first = j
    k = j
    # modifiers
    while k < end_limit and toks[k].s in ("pub", "async", "const", "unsafe", "extern", "default") :
        if toks[k].s == "pub" and toks[k + 1].s == "(":
            k = m[k + 1] + 1
        elif toks[k].s == "unsafe" and toks[k + 1].s == "{":
            break
        else:
            k += 1
    head = toks[k].s if k < end_limit else ""
    angle = 0
    j = k
    if encl in "([":
        while j < end_limit:
            t = toks[j]
            if t.k == "o": j = m[j] + 1; continue
            if t.s == "<": angle += 1
            elif t.s == ">" and angle > 0: angle -= 1
            elif t.s == "," and angle == 0: return j + 1
            j += 1
        return end_limit
    blocklike = head in BLOCKLIKE or head in ITEMKW
    while j < end_limit:
        t = toks[j]
        if t.k == "o":
            close = m[j]
            if t.s == "{" and blocklike:
                nxt = close + 1
                if nxt < end_limit and toks[nxt].s == "else":
                    j = nxt + 1; continue
                if head in ("struct", "enum", "union", "fn", "impl", "mod", "trait"):
                    return nxt
                # expression statement ending in a block: optional trailing `;`
                if nxt < end_limit and toks[nxt].s == ";": return nxt + 1
                if nxt < end_limit and toks[nxt].s in (".", "?"):
                    blocklike = False; j = nxt; continue
                return nxt
            j = close + 1; continue
        if t.s == ";": return j + 1
        if t.s == "=>" and angle == 0:
            # a match arm: `PAT => { .. }` [,]  or  `PAT => expr,`
            k2 = j + 1
            if k2 < end_limit and toks[k2].s == "{":
                e2 = m[k2] + 1
                if e2 < end_limit and toks[e2].s == ",": e2 += 1
                return e2
            while k2 < end_limit and toks[k2].s != ",":
                if toks[k2].k == "o": k2 = m[k2]
                k2 += 1
            return min(k2 + 1, end_limit)
        if t.s == "<" and j > 0 and (toks[j - 1].k == "id" or toks[j - 1].s == "::"): angle += 1
        elif t.s == ">" and angle > 0: angle -= 1
        elif t.s == "," and angle == 0: return j + 1
        j += 1
    return end_limit

def r3_cfg(toks, stats):
    changed = True
    while changed:
        changed = False
        m = match_table(toks)
        stack = []
        i = 0
        n = len(toks)
        while i < n:
            t = toks[i]
            if t.k == "o": stack.append(i)
            elif t.k == "c": stack.pop()
            if t.s == "#" and i + 1 < n and toks[i + 1].s == "[" or (t.s == "#" and i + 2 < n and toks[i + 1].s == "!" and toks[i + 2].s == "["):
                inner_attr = toks[i + 1].s == "!"
                ob = i + (2 if inner_attr else 1)
                cb = m[ob]
                name = toks[ob + 1].s if ob + 1 < cb else ""
                if name == "cfg" and not inner_attr:
                    pred = toks[ob + 3: cb - 1]
                    val = eval_cfg(pred)
                    encl = stack[-1] if stack else None
                    if val:
                        del toks[i:cb + 1]
                    else:
                        end = item_extent(toks, m, cb + 1, encl)
                        del toks[i:end]
                    stats["R3.cfg"] = stats.get("R3.cfg", 0) + 1
                    changed = True
                    break
                else:
                    # every other attribute (cfg_attr, must_use, instrument, allow, derive ... ) is dropped,
                    # except derive, which is filtered to the traits the verifier understands
                    if name == "derive" and not inner_attr:
                        keep = [x.s for x in toks[ob + 3: cb - 1] if x.s in ("Clone", "Copy", "PartialEq", "Eq")]
                        # PartialEq/Eq are re-derived only together (structural equality)
                        if keep:
                            new = T("#[derive(" + ", ".join(keep) + ")]")
                            for x in new: x.line = t.line; x.col = t.col
                            if text_of(toks[i:cb + 1]) != text_of(new):
                                toks[i:cb + 1] = new
                                stats["R3.derive"] = stats.get("R3.derive", 0) + 1
                                changed = True
                                break
                            i = cb + 1
                            continue
                    del toks[i:cb + 1]
                    stats["R3.attr"] = stats.get("R3.attr", 0) + 1
                    changed = True
                    break
            # cfg!(pred)
            if t.s == "cfg" and i + 2 < n and toks[i + 1].s == "!" and toks[i + 2].s == "(":
                cb = m[i + 2]
                val = eval_cfg(toks[i + 3:cb])
                new = Tok("id", "true" if val else "false", t.line, t.col, t.sp)
                toks[i:cb + 1] = [new]
                stats["R3.cfg!"] = stats.get("R3.cfg!", 0) + 1
                changed = True
                break
            i += 1
    return toks

# ------------------------------------------------------------------------------------------------
# anchors
# ------------------------------------------------------------------------------------------------
def find_impl(toks, m, header, nth=0):
    """token range (open_brace, close_brace) of the nth `impl ... {` whose header text equals `header`"""
    want = pat(header)
    seen = 0
    for i, t in enumerate(toks):
        if t.s == "impl":
            j = i
            while j < len(toks) and toks[j].s != "{":
                if toks[j].k == "o": j = m[j]
                j += 1
            hdr = [x.s for x in toks[i:j]]
            if hdr == want:
                if seen == nth: return j, m[j]
                seen += 1
    raise ExtractError("anchor lost: `%s`" % header)

def find_fn(toks, m, name, lo=0, hi=None, nth=0):
    """(start_of_signature, body_open, body_close) for `fn name` directly inside the token range"""
    hi = len(toks) if hi is None else hi
    i = lo
    depth0 = None
    count = 0
    i = lo
    while i < hi:
        t = toks[i]
        if t.k == "o" and i != lo:
            # do not descend into nested blocks other than the range itself
            if not (t.s == "{" and i == lo):
                i = m[i] + 1
                continue
        if t.s == "fn" and i + 1 < hi and toks[i + 1].s == name:
            # signature start: walk back over modifiers
            s = i
            while s - 1 >= lo and (toks[s - 1].s in ("pub", "async", "const", "unsafe", "extern") or
                                   (toks[s - 1].s == ")" and toks[m[s - 1] - 1].s == "pub")):
                s = m[s - 1] - 1 if toks[s - 1].s == ")" else s - 1
            j = i
            while toks[j].s != "{":
                if toks[j].s == ";": raise ExtractError("fn %s has no body" % name)
                if toks[j].k == "o": j = m[j]
                j += 1
            if count == nth:
                return s, j, m[j]
            count += 1
            i = m[j] + 1
            continue
        i += 1
    raise ExtractError("anchor lost: fn %s" % name)

def find_fn_anywhere(toks, m, name, nth=0):
    """like find_fn but searches nested scopes too (first match in token order)"""
    count = 0
    for i, t in enumerate(toks):
        if t.s == "fn" and i + 1 < len(toks) and toks[i + 1].s == name:
            j = i
            while toks[j].s != "{":
                if toks[j].s == ";": break
                if toks[j].k == "o": j = m[j]
                j += 1
            if toks[j].s != "{": continue
            if count == nth:
                return i, j, m[j]
            count += 1
    raise ExtractError("anchor lost: fn %s" % name)

def find_type(toks, m, name):
    """token range [s,e) of `enum|struct name ...` including derive attributes directly in front"""
    for i, t in enumerate(toks):
        if t.s in ("enum", "struct") and i + 1 < len(toks) and toks[i + 1].s == name:
            s = i
            while s - 1 >= 0 and (toks[s - 1].s == "pub" or (toks[s - 1].s == ")" and toks[m[s - 1] - 1].s == "pub")):
                s = m[s - 1] - 1 if toks[s - 1].s == ")" else s - 1
            # attributes in front
            while s - 1 >= 0 and toks[s - 1].s == "]" and toks[m[s - 1] - 1].s == "#":
                s = m[s - 1] - 1
            j = i
            while toks[j].s not in ("{", ";", "("):
                j += 1
            if toks[j].s == ";": return s, j + 1
            e = m[j] + 1
            if toks[j].s == "(":
                while toks[e].s != ";": e += 1
                e += 1
            return s, e
    raise ExtractError("anchor lost: type %s" % name)

def params_of(toks, m, fn_idx):
    """parameter names of the fn whose `fn` keyword is at fn_idx"""
    j = fn_idx + 2
    if toks[j].s == "<":
        depth = 0
        while True:
            if toks[j].s == "<": depth += 1
            elif toks[j].s == ">": depth -= 1
            elif toks[j].s == "->": pass
            j += 1
            if depth == 0: break
    if toks[j].s != "(": raise ExtractError("cannot find parameter list of fn %s" % toks[fn_idx + 1].s)
    close = m[j]
    names = []
    k = j + 1
    start = k
    angle = 0
    def take(seg):
        seg = [x for x in seg]
        if not seg: return
        # self forms
        txt = [x.s for x in seg]
        if "self" in txt and ":" not in txt[:txt.index("self")]:
            names.append("self"); return
        # name is the ident before the first top-level ':'
        for idx, x in enumerate(seg):
            if x.s == ":":
                nm = [y.s for y in seg[:idx] if y.k == "id" and y.s not in ("mut", "ref")]
                names.append(nm[-1] if nm else "_"); return
    while k < close:
        t = toks[k]
        if t.k == "o": k = m[k] + 1; continue
        if t.s == "<": angle += 1
        elif t.s == ">" and angle > 0: angle -= 1
        elif t.s == "," and angle == 0:
            take(toks[start:k]); start = k + 1
        k += 1
    take(toks[start:close])
    return names

def nth_block_after(toks, m, seq_text, nth=0, lo=0, hi=None):
    """the `{...}` group that directly follows the nth occurrence of the token sequence. A list of sequences is a path: each one is looked for
    after (and, for the first, starting at) the previous match, so text between them may vary."""
    if isinstance(seq_text, (list, tuple)):
        for part in seq_text[:-1]:
            q = pat(part)
            at = find_seq(toks, q, lo, hi)
            if at < 0: raise ExtractError("anchor lost: %r" % (part,))
            lo = at + len(q)
        seq_text = seq_text[-1]
    p = pat(seq_text)
    occ = find_all_seq(toks, p, lo, hi)
    if len(occ) <= nth: raise ExtractError("anchor lost: %r[%d]" % (seq_text, nth))
    j = occ[nth] + len(p)
    if toks[j].s != "{":
        raise ExtractError("anchor %r[%d] is not followed by a block" % (seq_text, nth))
    return j, m[j]

def loops_in(toks, m, lo, hi):
    """indices of loop keywords (for/while/loop) in [lo,hi) in token order, with their body braces"""
    res = []
    i = lo
    while i < hi:
        t = toks[i]
        if t.k == "id" and t.s in ("for", "while", "loop") and (i == 0 or toks[i - 1].s not in (".", "::")):
            if t.s == "for" and toks[i + 1].s == "<":   # for<'a> bound
                i += 1; continue
            j = i + 1
            while j < hi and toks[j].s != "{":
                if toks[j].k == "o": j = m[j]
                j += 1
            # a block inside a `while` condition (`while let P = match e {..} { body }`): the body is the block that is not followed by another
            while t.s == "while" and m[j] + 1 < hi and toks[m[j] + 1].s in ("{", "invariant", "invariant_except_break", "decreases", "ensures"):
                j = m[j] + 1
                while j < hi and toks[j].s != "{":      # (generated text: the spliced loop clauses stand between condition and body)
                    if toks[j].k == "o": j = m[j]
                    j += 1
            res.append((i, j, m[j]))
        i += 1
    return res

# R16b: a loop BODY extracted as a function of its own: a `continue` of that (outer) loop ends this iteration, i.e. returns from the function
def r16_continue_returns(toks, stats, value):
    m = match_table(toks)
    inner = [(o, c) for (_, o, c) in loops_in(toks, m, 0, len(toks))]
    out = []
    i = 0
    while i < len(toks):
        t = toks[i]
        if t.k == "id" and t.s == "continue" and not any(o < i < c for o, c in inner):
            out += T("return " + value)
            stats["R16b.continue_returns"] = stats.get("R16b.continue_returns", 0) + 1
        else:
            out.append(t)
        i += 1
    return out

# ------------------------------------------------------------------------------------------------
# R2: logging
# ------------------------------------------------------------------------------------------------
LOGMACROS = {"trace", "debug", "info", "warn", "error", "eprintln", "println", "debug_assert"}

def r2_trace(toks, stats, extra=()):
    """extra: more statement macros to drop (R2p: eprintln!/println! in CLI code, whose output no property here speaks about)"""
    i = 0
    out = []
    m = match_table(toks)
    n = len(toks)
    while i < n:
        t = toks[i]
        # optional path prefix ::tracing::trace!
        if t.k == "id" and (t.s in LOGMACROS or t.s in extra) and i + 2 < n and toks[i + 1].s == "!" and toks[i + 2].k == "o":
            close = m[i + 2]
            # strip path prefix already emitted
            while len(out) >= 2 and out[-1].s == "::" and (out[-2].k == "id"):
                out.pop(); out.pop()
                if out and out[-1].s == "::": out.pop()
            j = close + 1
            if j < n and toks[j].s == ";": j += 1
            elif j < n and toks[j].s == ",": pass   # match arm `=> trace!(..),` handled below
            # a macro used as an expression (match arm body): replace by ()
            prev = out[-1].s if out else ""
            if prev == "=>":
                out.extend(T("()"))
            stats["R2.trace"] = stats.get("R2.trace", 0) + 1
            i = j
            continue
        # `let _span = trace_span!(..)[.entered()];`
        if t.s == "let" and i + 4 < n and toks[i + 1].s in ("_span", "_guard", "_enter") and toks[i + 2].s == "=" and toks[i + 3].s in ("trace_span", "debug_span", "info_span") and toks[i + 4].s == "!":
            j = i
            while toks[j].s != ";":
                if toks[j].k == "o": j = m[j]
                j += 1
            stats["R2.span"] = stats.get("R2.span", 0) + 1
            i = j + 1
            continue
        # .instrument(...)
        if t.s == "." and i + 2 < n and toks[i + 1].s == "instrument" and toks[i + 2].s == "(":
            i = m[i + 2] + 1
            stats["R2.instrument"] = stats.get("R2.instrument", 0) + 1
            continue
        out.append(t); i += 1
    return out

# ------------------------------------------------------------------------------------------------
# R4: function-local macro_rules! with $x:expr parameters, single arm
# ------------------------------------------------------------------------------------------------
def r4_macro(toks, stats):
    while True:
        m = match_table(toks)
        i = find_seq(toks, ["macro_rules", "!"])
        if i < 0: return toks
        name = toks[i + 2].s
        ob = i + 3
        cb = m[ob]
        # ( $a:expr, $b:expr ) => { BODY } ;
        p_open = ob + 1
        p_close = m[p_open]
        params = []
        k = p_open + 1
        while k < p_close:
            if toks[k].s == "$":
                if toks[k + 2].s != ":" or toks[k + 3].s != "expr":
                    raise ExtractError("R4: only $x:expr macro parameters are supported (%s)" % name)
                params.append(toks[k + 1].s); k += 4
            elif toks[k].s == ",": k += 1
            else: raise ExtractError("R4: unsupported macro pattern in %s" % name)
        if toks[p_close + 1].s != "=>": raise ExtractError("R4: unsupported macro %s" % name)
        b_open = p_close + 2
        b_close = m[b_open]
        rest = [x for x in toks[b_close + 1:cb] if x.s != ";"]
        if rest: raise ExtractError("R4: macro %s has more than one arm" % name)
        body = toks[b_open + 1:b_close]
        end = cb + 1
        if end < len(toks) and toks[end].s == ";": end += 1
        del toks[i:end]
        # expand uses
        while True:
            m = match_table(toks)
            u = find_seq(toks, [name, "!"])
            if u < 0: break
            a_open = u + 2
            a_close = m[a_open]
            # split args at top-level commas
            args = []; cur = []
            k = a_open + 1
            while k < a_close:
                if toks[k].k == "o":
                    cur.extend(toks[k:m[k] + 1]); k = m[k] + 1; continue
                if toks[k].s == ",":
                    args.append(cur); cur = []
                else: cur.append(toks[k])
                k += 1
            if cur: args.append(cur)
            if len(args) != len(params): raise ExtractError("R4: arity mismatch expanding %s" % name)
            exp = []
            line = toks[u].line
            k = 0
            while k < len(body):
                if body[k].s == "$" and body[k + 1].s in params:
                    exp.append(Tok("o", "(", None, 0, True))
                    exp.extend(args[params.index(body[k + 1].s)])
                    exp.append(Tok("c", ")", None, 0, False))
                    k += 2
                else:
                    x = body[k].copy(); x.line = None; exp.append(x); k += 1
            toks[u:a_close + 1] = exp
            stats["R4.expand"] = stats.get("R4.expand", 0) + 1
    return toks

# ------------------------------------------------------------------------------------------------
# R1: await
# ------------------------------------------------------------------------------------------------
def r1_await(toks, stats, mark=False):
    """mark=True (R1m): `E.await` -> `E.vx_awaited()` instead of dropping the await, for units whose contracts distinguish a ticket that is
    awaited from one that is dropped (vx_awaited is an environment method of the unit's prelude)"""
    out = []
    i = 0
    n = len(toks)
    m = match_table(toks)
    skip_close = set()
    while i < n:
        t = toks[i]
        if t.s == "." and i + 1 < n and toks[i + 1].s == "await":
            if mark:
                stats["R1m.await_marked"] = stats.get("R1m.await_marked", 0) + 1
                out.append(t); out += T("vx_awaited()")
                i += 2; continue
            stats["R1.await"] = stats.get("R1.await", 0) + 1
            i += 2; continue
        if t.s == "Box" and i + 3 < n and toks[i + 1].s == "::" and toks[i + 2].s == "into_pin" and toks[i + 3].s == "(":
            # Box::into_pin(e) -> (e)
            stats["R1.into_pin"] = stats.get("R1.into_pin", 0) + 1
            i += 3; continue
        out.append(t); i += 1
    return out

# ------------------------------------------------------------------------------------------------
# R5: state variables that became `&mut` parameters of the generated function
# ------------------------------------------------------------------------------------------------
def r5_state(toks, stats, names):
    names = set(names)
    out = []
    n = len(toks)
    i = 0
    # statement starts: after ; { } or =>
    while i < n:
        t = toks[i]
        prev = toks[i - 1].s if i > 0 else ";"
        nxt = toks[i + 1].s if i + 1 < n else ""
        if t.k == "id" and t.s in names and prev not in (".", "::") and nxt != "::" and nxt != ":":
            if prev == "mut" and i >= 2 and toks[i - 2].s == "&":
                out.append(Tok("p", "*", None, 0, False)); out.append(_nosp(t))
                stats["R5.reborrow_mut"] = stats.get("R5.reborrow_mut", 0) + 1
            elif prev == "&":
                out.append(Tok("p", "*", None, 0, False)); out.append(_nosp(t))
                stats["R5.reborrow"] = stats.get("R5.reborrow", 0) + 1
            elif nxt == "=" and prev in (";", "{", "}", "=>"):
                out.append(Tok("p", "*", t.line, t.col, t.sp)); out.append(_nosp(t))
                stats["R5.assign"] = stats.get("R5.assign", 0) + 1
            else:
                out.append(t)
        else:
            out.append(t)
        i += 1
    return out

def _nosp(t):
    x = t.copy(); x.sp = False; return x

# ------------------------------------------------------------------------------------------------
# R7: environment instrumentation
# ------------------------------------------------------------------------------------------------
def r7_env(toks, stats, methods=(), paths=(), closures=(), arg="env"):
    """append the ghost recorder argument to calls of `.m(..)` for m in methods, `A::b(..)` for "A::b" in paths;
    calls of boxed closures `f(..)` for f in closures become `f.call_once(.., env)`"""
    methods = set(methods); closures = set(closures)
    pathpats = [pat(p) for p in paths]
    i = 0
    while i < len(toks):
        m = None
        t = toks[i]
        hit = None
        if t.s == "." and i + 2 < len(toks) and toks[i + 1].s in methods and toks[i + 2].s == "(":
            hit = i + 2; key = "." + toks[i + 1].s
        elif t.k == "id" and t.s in closures and i + 1 < len(toks) and toks[i + 1].s == "(" and (i == 0 or toks[i - 1].s not in (".", "::", "|", "fn")):
            toks[i + 1:i + 1] = [Tok("p", ".", None, 0, False), Tok("id", "call_once", None, 0, False)]
            hit = i + 3; key = t.s + "()"
        else:
            for pp in pathpats:
                if [x.s for x in toks[i:i + len(pp)]] == pp and i + len(pp) < len(toks) and toks[i + len(pp)].s == "(" and (i == 0 or toks[i - 1].s != "::"):
                    hit = i + len(pp); key = "".join(pp)
                    break
        if hit is not None:
            m = match_table(toks)
            close = m[hit]
            last = toks[close - 1]
            ins = []
            if close - 1 != hit and last.s != ",":
                ins.append(Tok("p", ",", None, 0, False))
            ins.extend(T(arg))
            toks[close:close] = ins
            stats["R7.env " + key] = stats.get("R7.env " + key, 0) + 1
        i += 1
    return toks

# ------------------------------------------------------------------------------------------------
# R8: type map and generic token-sequence substitutions (per unit, fixed table)
# ------------------------------------------------------------------------------------------------
def r8_subst(toks, stats, table, tag="R8"):
    """table: list of (from_text, to_text). Longest patterns first. Pure token-sequence replacement."""
    tab = sorted([(pat(a), b, a) for a, b in table], key=lambda x: -len(x[0]))
    i = 0
    while i < len(toks):
        for p, b, a in tab:
            L = len(p)
            if [x.s for x in toks[i:i + L]] == p:
                # identifiers must not be part of a longer path on the left for bare single idents
                new = T(b)
                for x in new: x.line = toks[i].line; x.col = toks[i].col
                if new: new[0].sp = toks[i].sp
                toks[i:i + L] = new
                stats[tag + " " + a] = stats.get(tag + " " + a, 0) + 1
                i += len(new) - 1
                break
        i += 1
    return toks

# ------------------------------------------------------------------------------------------------
# R11: `?` on a fixed list of calls -> explicit early return
# ------------------------------------------------------------------------------------------------
def r11_question(toks, stats, conv="vx_from"):
    """`CHAIN?` -> `(match CHAIN { Ok(vx_v) => vx_v, Err(vx_e) => return Err(conv(vx_e)) })` where CHAIN is the postfix/method-call
    chain that ends at the `?` (Rust's own desugaring of `?` with the From conversion named explicitly)."""
    while True:
        m = match_table(toks)
        q = -1
        for i, t in enumerate(toks):
            if t.s == "?":
                q = i; break
        if q < 0: return toks
        start = chain_start(toks, m, q)
        # a leading `await`-less parenthesised expression `(x)?` is a chain that starts at the paren: chain_start handles closers
        expr = [x.copy() for x in toks[start:q]]
        if expr: expr[0].sp = True
        new = T("(match") + expr + T("{ Ok(vx_v) => vx_v, Err(vx_e) => return Err(%s(vx_e)) })" % conv)
        toks[start:q + 1] = new
        stats["R11.question"] = stats.get("R11.question", 0) + 1

# ------------------------------------------------------------------------------------------------
# free variables of a fragment (names bound outside, used inside)
# ------------------------------------------------------------------------------------------------
def bound_names_before(toks, lo, hi):
    """names introduced by `let [mut] x`, `let (a, b)`, closure params and fn params in [lo,hi)"""
    names = []
    i = lo
    while i < hi:
        t = toks[i]
        if t.s == "let":
            j = i + 1
            while j < hi and toks[j].s not in ("=", ";", ":"):
                if toks[j].k == "id" and toks[j].s not in ("mut", "ref", "Some", "Ok", "Err", "None") and not toks[j].s[0].isupper():
                    names.append(toks[j].s)
                j += 1
        i += 1
    return names

def free_vars(frag, candidates):
    """names from `candidates` that occur in the fragment outside the scope of any local binder of the same name"""
    m = match_table(frag)
    n = len(frag)
    def enclosing_close(i):
        # index of the close token of the innermost group containing i (n if none)
        best = n
        for o, c in m.items():
            if frag[o].k == "o" and o < i < c and c < best: best = c
        return best
    def next_block_after(i, stop_at=("=>",)):
        # the `{...}` group that follows position i (after an optional `=>`), else up to the next `,` at depth 0
        j = i
        while j < n and frag[j].s not in ("{",):
            if frag[j].k == "o": j = m[j]
            if frag[j].s in (",", ";") : return (i, j)
            j += 1
        if j >= n: return (i, n)
        return (j, m[j])
    scopes = {}   # name -> list of (lo, hi) token ranges in which the name is locally bound
    for i, t in enumerate(frag):
        if t.k != "id" or t.s not in candidates: continue
        if i > 0 and frag[i - 1].s in (".", "::"): continue
        prev = frag[i - 1].s if i > 0 else ""
        prev2 = frag[i - 2].s if i > 1 else ""
        nxt = frag[i + 1].s if i + 1 < n else ""
        binder = None
        if prev == "let" or (prev == "mut" and prev2 == "let"):
            # scope: from the end of the statement to the end of the enclosing block
            j = i
            while j < n and frag[j].s != ";":
                if frag[j].k == "o": j = m[j]
                j += 1
            binder = (j, enclosing_close(i))
        elif prev == "for" and nxt == "in":
            j = i
            while frag[j].s != "{":
                if frag[j].k == "o": j = m[j]
                j += 1
            binder = (j, m[j])
        elif prev == "(" and i > 1 and frag[i - 2].k == "id" and frag[i - 2].s[0].isupper() and nxt == ")" and i + 2 < n and frag[i + 2].s in ("=>", "="):
            binder = next_block_after(i + 2)
        elif prev in ("{", ",") and nxt in (",", "}"):
            # shorthand field in a struct pattern `Name { a, b }` that is followed (after closing delimiters) by `=` or `=>`
            c = enclosing_close(i)
            o = m[c] if c < n else -1
            if o > 0 and frag[o].s == "{" and frag[o - 1].k == "id" and frag[o - 1].s[0].isupper():
                j = c + 1
                while j < n and frag[j].s == ")": j += 1
                if j < n and frag[j].s in ("=", "=>"):
                    # pattern of a let-else / select arm / match arm: scope = the arm or statement body that follows
                    k = j + 1
                    if frag[j].s == "=":
                        while k < n and frag[k].s != "=>" and frag[k].s != ";" and frag[k].s != "{":
                            if frag[k].k == "o": k = m[k]
                            k += 1
                    binder = next_block_after(k)
        if binder:
            scopes.setdefault(t.s, []).append(binder)
    res = []
    for i, t in enumerate(frag):
        if t.k != "id" or t.s not in candidates or t.s in res: continue
        if i > 0 and frag[i - 1].s in (".", "::"): continue
        if i + 1 < n and frag[i + 1].s == "::": continue
        # a binder occurrence itself is not a use
        prev = frag[i - 1].s if i > 0 else ""
        if prev in ("let", "for") or (prev == "mut" and i > 1 and frag[i - 2].s == "let"): continue
        inside = any(lo <= i <= hi for lo, hi in scopes.get(t.s, []))
        is_pat = (prev == "(" and i > 1 and frag[i - 2].k == "id" and frag[i - 2].s[0].isupper() and i + 2 < n and frag[i + 1].s == ")" and frag[i + 2].s in ("=>", "="))
        is_short = prev in ("{", ",") and i + 1 < n and frag[i + 1].s in (",", "}") and any(lo > i for lo, hi in scopes.get(t.s, []))
        if not inside and not is_pat and not is_short:
            res.append(t.s)
    return res

# ------------------------------------------------------------------------------------------------
# helpers: expression extents
# ------------------------------------------------------------------------------------------------
EXPR_STOP_BACK = {";", "{", "}", "=", "=>", ",", "(", "[", "if", "return", "match", "in", "!", "&&", "||", "==", "!=", "<", ">", "<=", ">=", "+", "-", "else", "let", "while"}

def chain_start(toks, m, dot):
    """start index of the postfix/method-call chain whose next link begins at toks[dot] == '.'"""
    j = dot - 1
    while j >= 0:
        t = toks[j]
        if t.k == "c":
            if t.s == "}": break      # end of a preceding block statement, not part of a method chain
            j = m[j] - 1; continue
        if t.k in ("id", "num", "str", "life") and t.s not in EXPR_STOP_BACK:
            j -= 1; continue
        if t.s in (".", "::", "?"):
            j -= 1; continue
        if t.s in ("&", "*") and (j == 0 or toks[j - 1].s in EXPR_STOP_BACK or toks[j - 1].k == "o"):
            j -= 1; continue
        break
    s = j + 1
    # `mut` of `&mut x` is an identifier-like token that belongs to the chain; a leading keyword does not
    while s < dot and toks[s].s in EXPR_STOP_BACK: s += 1
    return s

def split_args(toks, m, open_idx):
    """top-level comma-separated token lists of the group opened at open_idx"""
    close = m[open_idx]
    args = []; cur = []
    k = open_idx + 1
    while k < close:
        if toks[k].k == "o":
            cur.extend(toks[k:m[k] + 1]); k = m[k] + 1; continue
        if toks[k].s == ",":
            args.append(cur); cur = []
        else: cur.append(toks[k])
        k += 1
    if cur: args.append(cur)
    return args

def closure_parts(arg):
    """for a token list `|x| body` or `move |x, y| body` -> (param token lists, body tokens) else None"""
    a = list(arg)
    if a and a[0].s == "move": a = a[1:]
    if not a: return None
    if a[0].s == "||": return [], a[1:]
    if a[0].s != "|": return None
    j = 1
    params = []; cur = []
    while j < len(a) and a[j].s != "|":
        if a[j].s == ",": params.append(cur); cur = []
        else: cur.append(a[j])
        j += 1
    if cur: params.append(cur)
    return params, a[j + 1:]

# ------------------------------------------------------------------------------------------------
# R10a: definitional unfolding of Option combinators
#   E.map_or(D, F)      -> (match E { Some(vx_o) => F(vx_o), None => D })      [F a path]  /  closure |x| B: Some(x) => B
#   E.map(|x| B)        -> (match E { Some(x) => Some(B), None => None })
# ------------------------------------------------------------------------------------------------
def r10_option_unfold(toks, stats, which=("map_or", "map", "map_or_else")):
    while True:
        m = match_table(toks)
        hit = -1
        for i, t in enumerate(toks):
            if t.s == "." and i + 2 < len(toks) and toks[i + 1].s in which and toks[i + 2].s == "(":
                hit = i; break
        if hit < 0: return toks
        name = toks[hit + 1].s
        start = chain_start(toks, m, hit)
        recv = [x.copy() for x in toks[start:hit]]
        if recv: recv[0].sp = True
        args = split_args(toks, m, hit + 2)
        close = m[hit + 2]
        if name == "map_or":
            if len(args) != 2: raise ExtractError("R10: map_or arity")
            d, f = args
            cp = closure_parts(f)
            if cp is None:
                arm = T("Some(vx_o) =>") + f + T("(vx_o),")
            else:
                ps, body = cp
                if len(ps) != 1: raise ExtractError("R10: map_or closure arity")
                arm = T("Some(") + ps[0] + T(") =>") + [Tok("o", "{", None, 0, True)] + body + [Tok("c", "}", None, 0, True)] + T(",")
            new = T("(match") + recv + T("{") + arm + T("None =>") + d + T("})")
        elif name == "and_then":
            # E.and_then(|x| B) -> (match E { Some(x) => { B }, None => None })
            cf = closure_parts(args[0]) if len(args) == 1 else None
            if cf is None or len(cf[0]) != 1: raise ExtractError("R10: Option::and_then needs a one-parameter closure literal")
            new = T("(match") + recv + T("{ Some(") + cf[0][0] + T(") =>") + [Tok("o", "{", None, 0, True)] + cf[1] + [Tok("c", "}", None, 0, True)] + T(", None => None })")
        elif name == "filter":
            # E.filter(|x| B) -> (match E { Some(x) => if B { Some(x) } else { None }, None => None })   (B sees x through one reference more in
            # the source; method calls and field reads auto-deref, an explicit `*x` would not type-check here: tool error, never a wrong verdict)
            cf = closure_parts(args[0]) if len(args) == 1 else None
            if cf is None or len(cf[0]) != 1: raise ExtractError("R10: Option::filter needs a one-parameter closure literal")
            new = T("(match") + recv + T("{ Some(") + cf[0][0] + T(") => if") + cf[1] + T("{ Some(") + [x.copy() for x in cf[0][0]] + T(") } else { None }, None => None })")
        elif name == "unwrap_or_else":
            # E.unwrap_or_else(|| B) -> (match E { Some(vx_o) => vx_o, None => { B } })
            cd = closure_parts(args[0]) if len(args) == 1 else None
            if cd is None or len(cd[0]) != 0: raise ExtractError("R10: Option::unwrap_or_else needs a closure literal without parameters")
            new = T("(match") + recv + T("{ Some(vx_o) => vx_o, None =>") + [Tok("o", "{", None, 0, True)] + cd[1] + [Tok("c", "}", None, 0, True)] + T("})")
        elif name == "map_or_else":
            # E.map_or_else(|| D, |x| B) -> (match E { Some(x) => { B }, None => { D } })
            if len(args) != 2: raise ExtractError("R10: map_or_else arity")
            cd, cf = closure_parts(args[0]), closure_parts(args[1])
            if cd is None or cf is None or len(cd[0]) != 0 or len(cf[0]) != 1:
                raise ExtractError("R10: Option::map_or_else needs two closure literals")
            new = T("(match") + recv + T("{ Some(") + cf[0][0] + T(") =>") + [Tok("o", "{", None, 0, True)] + cf[1] + [Tok("c", "}", None, 0, True)] \
                + T(", None =>") + [Tok("o", "{", None, 0, True)] + cd[1] + [Tok("c", "}", None, 0, True)] + T("})")
        else:
            if len(args) != 1: raise ExtractError("R10: map arity")
            cp = closure_parts(args[0])
            if cp is None and args[0] and all(x.k == "id" or x.s == "::" for x in args[0]):
                # E.map(PATH) -> (match E { Some(vx_o) => Some(PATH(vx_o)), None => None })
                new = T("(match") + recv + T("{ Some(vx_o) => Some(") + args[0] + T("(vx_o)), None => None })")
            else:
                if cp is None or len(cp[0]) != 1: raise ExtractError("R10: Option::map needs a one-parameter closure literal or a path")
                ps, body = cp
                new = T("(match") + recv + T("{ Some(") + ps[0] + T(") => Some(") + body + T("), None => None })")
        line = toks[start].line
        for x in new:
            if x.line is None: x.line = None
        toks[start:close + 1] = new
        stats["R10.option_" + name] = stats.get("R10.option_" + name, 0) + 1

# ------------------------------------------------------------------------------------------------
# R6: select! { PAT = FUT [, if GUARD] => BODY, ... }  ->
#   { let mut vx_f0 = FUT0; ...; match vx_selectN(vx_f0.vx_branch(), ..., env) { 0 => { let PAT0 = vx_f0.vx_complete(env); BODY0 } ... } }
# ------------------------------------------------------------------------------------------------
def r6_select(toks, stats, env="env"):
    while True:
        m = match_table(toks)
        s = find_seq(toks, ["select", "!", "{"])
        if s < 0: return toks
        ob = s + 2
        cb = m[ob]
        arms = []
        k = ob + 1
        # `biased;`: branches are polled in the order written, so the first ready one is taken (tokio's documented meaning)
        biased = False
        if toks[k].s == "biased" and toks[k + 1].s == ";":
            biased = True; k += 2
            stats["R6.biased"] = stats.get("R6.biased", 0) + 1
        else_body = None
        while k < cb:
            # `else => BODY`: taken when every branch has been disabled (its refutable pattern did not match what the future completed with)
            if toks[k].s == "else" and toks[k + 1].s == "=>":
                k += 2
                if toks[k].s == "{":
                    else_body = toks[k:m[k] + 1]; k = m[k] + 1
                else:
                    b0 = k
                    while k < cb and toks[k].s != ",":
                        if toks[k].k == "o": k = m[k]
                        k += 1
                    else_body = toks[b0:k]
                if k < cb and toks[k].s == ",": k += 1
                stats["R6.else"] = stats.get("R6.else", 0) + 1
                continue
            # pattern up to first top-level '='
            p0 = k
            while toks[k].s != "=":
                if toks[k].k == "o": k = m[k]
                k += 1
            patt = toks[p0:k]
            k += 1
            f0 = k
            guard = None
            while toks[k].s != "=>":
                if toks[k].k == "o": k = m[k]
                if toks[k].s == "," and toks[k + 1].s == "if":
                    fut = toks[f0:k]
                    g0 = k + 2
                    while toks[k].s != "=>":
                        if toks[k].k == "o": k = m[k]
                        k += 1
                    guard = toks[g0:k]
                    break
                k += 1
            else:
                pass
            if guard is None: fut = toks[f0:k]
            k += 1  # past =>
            if toks[k].s == "{":
                body = toks[k:m[k] + 1]; k = m[k] + 1
            else:
                b0 = k
                while k < cb and toks[k].s != ",":
                    if toks[k].k == "o": k = m[k]
                    k += 1
                body = toks[b0:k]
            if k < cb and toks[k].s == ",": k += 1
            # irrefutable patterns (identifier or `()`), or the refutable `Some(identifier)`: a branch whose future completes with something the
            # pattern does not match is disabled and the select! goes on waiting for the others (tokio's documented meaning)
            ptxt = [x.s for x in patt]
            refut = len(ptxt) == 4 and ptxt[0] == "Some" and ptxt[1] == "(" and ptxt[3] == ")" and patt[2].k == "id" and ptxt[2][0].islower()
            if not (refut or ptxt == ["(", ")"] or (len(ptxt) == 1 and patt[0].k == "id" and ptxt[0][0].islower())):
                raise ExtractError("R6: refutable select! pattern %r is outside the supported subset" % " ".join(ptxt))
            if refut: stats["R6.refutable"] = stats.get("R6.refutable", 0) + 1
            arms.append((patt, fut, guard, body, refut))
        n = len(arms)
        new = [Tok("o", "{", None, 0, True)]
        for i, (patt, fut, guard, body, refut) in enumerate(arms):
            new += T("let mut vx_f%d =" % i) + fut + T(";")
        new += T("match vx_select%s%d(" % ("_biased" if biased else "", n))
        for i, (patt, fut, guard, body, refut) in enumerate(arms):
            br = "vx_f%d.vx_branch()" % i
            if refut: br = "vx_refutable(" + br + ")"
            if guard is not None:
                new += T("vx_guard(" + br + ",") + guard + T("),")
            else:
                new += T(br + ",")
        new += T(env + ") {")
        for i, (patt, fut, guard, body, refut) in enumerate(arms):
            if refut:
                # the select stand-in hands out a refutable branch only when its future completes with a value the pattern matches
                new += T("%d => { match vx_f%d.vx_complete(%s) {" % (i, i, env)) + patt + T("=> {") + body + T("} _ => { vx_select_refuted() } } }")
            else:
                new += T("%d => { let" % i) + patt + T("= vx_f%d.vx_complete(%s);" % (i, env)) + body + T("}")
        # index n: every branch is disabled. tokio runs the else arm, or panics when there is none
        if else_body is not None:
            new += T("_ => {") + else_body + T("}")
        else:
            new += T("_ => { vx_select_all_disabled() }")
        new += T("} }")
        toks[s:cb + 1] = new
        stats["R6.select"] = stats.get("R6.select", 0) + 1

# ------------------------------------------------------------------------------------------------
# R14: outline. `async { ... }` blocks that are extracted as items of their own are replaced by a call of that item
# ------------------------------------------------------------------------------------------------
def r14_outline(toks, stats, outlines):
    """outlines: list of (anchor_text, call_text): the first remaining `anchor_text {...}` has its block (and the last token of the
    anchor, `async`) replaced by call_text"""
    for entry in outlines:
        anchor, call = entry[0], entry[1]
        keep_anchor = len(entry) > 2 and entry[2] == "keep_anchor"
        m = match_table(toks)
        p = pat(anchor)
        i = find_seq(toks, p)
        if i < 0: raise ExtractError("R14: outline anchor lost: %r" % anchor)
        b = i + len(p)
        if toks[b].s == "move": b += 1
        if toks[b].s != "{": raise ExtractError("R14: %r is not followed by a block" % anchor)
        new = T(call)
        for x in new: x.line = toks[i].line
        if len(entry) > 2 and entry[2] == "whole":
            toks[i: m[b] + 1] = new           # the anchor and its block are replaced (a whole `match E {..}` statement)
        elif keep_anchor:
            toks[b: m[b] + 1] = new           # only the block is replaced (closure parameter list stays)
        else:
            toks[i + len(p) - 1: m[b] + 1] = new
        stats["R14.outline"] = stats.get("R14.outline", 0) + 1
    return toks

# ------------------------------------------------------------------------------------------------
# R6b: select! with guards, refutable patterns and an else arm (two branches):
#   select! { P0 = F0, if G0 => B0  P1 = F1 => B1  else => E }
# tokio semantics: guards are evaluated first; the enabled futures are polled until one completes; if its pattern does not
# match, that branch is disabled and the others keep being polled; if no branch is (left) enabled the else arm runs, and
# without an else arm select! panics.
# ------------------------------------------------------------------------------------------------
def r6b_select(toks, stats, env="env", fused=()):
    m = match_table(toks)
    s = find_seq(toks, ["select", "!", "{"])
    if s < 0: return toks
    ob = s + 2
    cb = m[ob]
    arms = []
    else_body = None
    k = ob + 1
    while k < cb:
        if toks[k].s == "else" and toks[k + 1].s == "=>":
            k += 2
            if toks[k].s != "{": raise ExtractError("R6b: else arm must be a block")
            else_body = toks[k:m[k] + 1]; k = m[k] + 1
            if k < cb and toks[k].s == ",": k += 1
            continue
        p0 = k
        while toks[k].s != "=":
            if toks[k].k == "o": k = m[k]
            k += 1
        patt = toks[p0:k]; k += 1
        f0 = k; guard = None; fut = None
        while toks[k].s != "=>":
            if toks[k].k == "o": k = m[k]
            if toks[k].s == "," and toks[k + 1].s == "if":
                fut = toks[f0:k]; g0 = k + 2
                while toks[k].s != "=>":
                    if toks[k].k == "o": k = m[k]
                    k += 1
                guard = toks[g0:k]
                break
            k += 1
        if fut is None: fut = toks[f0:k]
        k += 1
        if toks[k].s != "{": raise ExtractError("R6b: arm body must be a block")
        body = toks[k:m[k] + 1]; k = m[k] + 1
        if k < cb and toks[k].s == ",": k += 1
        arms.append((patt, fut, guard, body))
    if len(arms) != 2: raise ExtractError("R6b: exactly two branches supported, found %d" % len(arms))
    if else_body is None:
        else_body = T("{ vx_select_panics(); }")   # `requires false`: reaching it is a failed obligation
    def irrefutable(patt):
        t = [x.s for x in patt]
        return t == ["(", ")"] or (len(t) == 1 and patt[0].k == "id" and t[0][0].islower())
    def nolines(ts):
        ts = [x.copy() for x in ts]
        for x in ts: x.line = None
        return ts
    def arm_code(i, fallback, keep_lines):
        patt, fut, guard, body = arms[i]
        cp = (lambda ts: [x.copy() for x in ts]) if keep_lines else nolines
        if i in fused:
            return cp(body)
        if irrefutable(patt):
            return T("{ let") + cp(patt) + T("=") + cp(fut) + T(";") + cp(body) + T("}")
        return T("{ match") + cp(fut) + T("{") + cp(patt) + T("=>") + cp(body) + T(", _ =>") + fallback + T("} }")
    def guard_toks(i):
        return [x.copy() for x in arms[i][2]] if arms[i][2] is not None else T("true")
    # after branch i was disabled by a pattern mismatch: the other one if it is enabled, else the else arm
    fb0 = T("{ if vx_g1") + arm_code(1, nolines(else_body), False) + T("else") + nolines(else_body) + T("}")
    fb1 = T("{ if vx_g0") + arm_code(0, nolines(else_body), False) + T("else") + nolines(else_body) + T("}")
    new = T("{ let vx_g0 =") + guard_toks(0) + T("; let vx_g1 =") + guard_toks(1) + T("; let vx_first = vx_select_order(vx_g0, vx_g1);")
    new += T("if vx_first == 0") + arm_code(0, fb0, True) + T("else if vx_first == 1") + arm_code(1, fb1, True) + T("else") + [x.copy() for x in else_body] + T("}")
    toks[s:cb + 1] = new
    stats["R6b.select"] = stats.get("R6b.select", 0) + 1
    return toks


# ------------------------------------------------------------------------------------------------
# R9: string literals -> interned integer ids (distinct literals get distinct ids, so distinctness is arithmetic)
# ------------------------------------------------------------------------------------------------
import hashlib as _hashlib
def lit_id(text):
    """stable id of a string literal's contents (the text between the quotes, escapes left as written)"""
    return int(_hashlib.sha256(text.encode()).hexdigest()[:12], 16)

def r9_strlit(toks, stats, wrap="Name::lit({})"):
    out = []
    for t in toks:
        if t.k == "str" and t.s.startswith('"'):
            new = T(wrap.format(lit_id(t.s[1:-1])))
            for x in new: x.line = t.line; x.col = t.col
            new[0].sp = t.sp
            out.extend(new)
            stats["R9.strlit"] = stats.get("R9.strlit", 0) + 1
        else:
            out.append(t)
    return out

def expand_lits(text):
    """`$LIT("x")` in spec/overlay text -> the id R9 gives the literal "x" """
    import re as _re
    return _re.sub(r'\$LIT\("((?:[^"\\]|\\.)*)"\)', lambda m: str(lit_id(m.group(1))), text)


# ------------------------------------------------------------------------------------------------
# R10b: array-literal iterator idioms -> prelude functions with a sequence-level spec
#   [a, b, ..].into_iter().any(|f| f)            -> vx_arr_any([a, b, ..])
#   [a, b, ..].into_iter().flatten().collect()   -> vx_collect_some([a, b, ..])
# ------------------------------------------------------------------------------------------------
def r10_array_idioms(toks, stats):
    pats = [(pat(".into_iter().any(|f| f)"), "vx_arr_any"), (pat(".into_iter().flatten().collect()"), "vx_collect_some")]
    changed = True
    while changed:
        changed = False
        m = match_table(toks)
        for i, t in enumerate(toks):
            if t.s == "[" and t.k == "o":
                c = m[i]
                for p, fn in pats:
                    if [x.s for x in toks[c + 1:c + 1 + len(p)]] == p:
                        toks[c + 1:c + 1 + len(p)] = [Tok("c", ")", None, 0, False)]
                        toks[i:i] = T(fn + "(")
                        stats["R10." + fn] = stats.get("R10." + fn, 0) + 1
                        changed = True
                        break
                if changed: break
    return toks

def drop_nested_fns(toks, stats):
    """remove `fn name(..) {..}` items nested in a function body (they are extracted as items of their own)"""
    while True:
        m = match_table(toks)
        hit = None
        depth = 0
        for i, t in enumerate(toks):
            if t.s == "fn" and i + 1 < len(toks) and toks[i + 1].k == "id":
                j = i
                while toks[j].s != "{":
                    if toks[j].k == "o": j = m[j]
                    j += 1
                hit = (i, m[j]); break
        if not hit: return toks
        del toks[hit[0]:hit[1] + 1]
        stats["R14.drop_nested_fn"] = stats.get("R14.drop_nested_fn", 0) + 1


# R18: a detached task.  `tokio::spawn(async [move] { .. })`  ->  `vx_spawn_detached()`
#   The block runs later, on another task, or never: none of its effects is visible to the code that follows the call, which is all a sequential
#   contract of the enclosing function speaks about (what the detached task does is outside that contract).
def r18_detached_spawn(toks, stats):
    while True:
        m = match_table(toks)
        hit = None
        for i, t in enumerate(toks):
            if t.s == "spawn" and i >= 2 and toks[i - 1].s == "::" and toks[i - 2].s == "tokio" and i + 2 < len(toks) and toks[i + 1].s == "(" and toks[i + 2].s == "async":
                hit = i; break
        if hit is None: return toks
        close = m[hit + 1]
        toks[hit - 2:close + 1] = T("vx_spawn_detached()")
        stats["R18.detached_spawn"] = stats.get("R18.detached_spawn", 0) + 1

# R10c: definitional unfolding of Result::map_err with a closure literal
#   E.map_err(|e| B)  ->  (match E { Ok(vx_v) => Ok(vx_v), Err(e) => Err(B) })
def r10_result_unfold(toks, stats):
    while True:
        m = match_table(toks)
        hit = -1
        for i, t in enumerate(toks):
            if t.s == "." and i + 2 < len(toks) and toks[i + 1].s in ("map_err", "or_else") and toks[i + 2].s == "(":
                hit = i; break
        if hit < 0: return toks
        if toks[hit + 1].s == "or_else":
            # E.or_else(|e| B) -> (match E { Ok(vx_v) => Ok(vx_v), Err(e) => B })
            start = chain_start(toks, m, hit)
            recv = [x.copy() for x in toks[start:hit]]
            if recv: recv[0].sp = True
            args = split_args(toks, m, hit + 2)
            close = m[hit + 2]
            cp = closure_parts(args[0]) if len(args) == 1 else None
            if cp is None or len(cp[0]) != 1: raise ExtractError("R10: Result::or_else needs a one-parameter closure literal")
            new = T("(match") + recv + T("{ Ok(vx_v) => Ok(vx_v), Err(") + cp[0][0] + T(") =>") + [Tok("o", "{", None, 0, True)] + cp[1] + [Tok("c", "}", None, 0, True)] + T("})")
            toks[start:close + 1] = new
            stats["R10.result_or_else"] = stats.get("R10.result_or_else", 0) + 1
            continue
        start = chain_start(toks, m, hit)
        recv = toks[start:hit]
        args = split_args(toks, m, hit + 2)
        close = m[hit + 2]
        cp = closure_parts(args[0]) if len(args) == 1 else None
        if cp is None or len(cp[0]) != 1: raise ExtractError("R10: Result::map_err needs a one-parameter closure literal")
        ps, body = cp
        new = T("(match") + recv + T("{ Ok(vx_v) => Ok(vx_v), Err(") + ps[0] + T(") => Err(") + body + T(") })")
        toks[start:close + 1] = new
        stats["R10.result_map_err"] = stats.get("R10.result_map_err", 0) + 1


# ------------------------------------------------------------------------------------------------
# R10d: Vec/iterator adapter idioms -> prelude functions with a sequence-level spec (closed list)
#   X.extend(Y.into_iter().filter(C))            -> vextend_filter(&mut X, Y, C)
#   Y.into_iter().filter(C).collect::<Vec<_>>()  -> vfilter(Y, C)
#   Y.iter().map(C)                              -> vmap(&Y, C)          (value of type `impl Iterator`, consumed by extend/collect)
#   X.extend(E)                                  -> vextend(&mut X, E)   (any other argument)
# ------------------------------------------------------------------------------------------------
def r10_vec_idioms(toks, stats):
    def find(p, start=0):
        return find_seq(toks, pat(p), start)
    changed = True
    while changed:
        changed = False
        m = match_table(toks)
        # Y.into_iter().filter(C).collect::<Vec<_>>()  (possibly inside extend(..): handled first, then extend)
        i = find(".into_iter().filter(")
        if i >= 0:
            start = chain_start(toks, m, i)
            recv = toks[start:i]
            fopen = i + 6   # index of '(' after filter
            # locate the '(' of filter
            k = i
            while toks[k].s != "filter": k += 1
            fopen = k + 1
            fclose = m[fopen]
            clos = toks[fopen + 1:fclose]
            tail = [x.s for x in toks[fclose + 1:fclose + 11]]
            if tail[:4] == [".", "collect", "::", "<"]:
                # .collect::<Vec<_>>()
                e = fclose + 1
                while toks[e].s != "(": e += 1
                end = m[e] + 1
                new = T("vfilter(") + recv + T(",") + clos + T(")")
                toks[start:end] = new
                stats["R10.vfilter"] = stats.get("R10.vfilter", 0) + 1
            else:
                new = T("vfilter_iter(") + recv + T(",") + clos + T(")")
                toks[start:fclose + 1] = new
                stats["R10.vfilter_iter"] = stats.get("R10.vfilter_iter", 0) + 1
            changed = True
            continue
        i = find(".iter().filter_map(")
        if i >= 0:
            # Y.iter().filter_map(C) -> vfilter_map(&Y, C)
            start = chain_start(toks, m, i)
            recv = [x.copy() for x in toks[start:i]]
            k = i
            while toks[k].s != "filter_map": k += 1
            fopen = k + 1; fclose = m[fopen]
            new = T("vfilter_map(&") + recv + T(",") + toks[fopen + 1:fclose] + T(")")
            toks[start:fclose + 1] = new
            stats["R10.vfilter_map"] = stats.get("R10.vfilter_map", 0) + 1
            changed = True
            continue
        i = find(".iter().flat_map(")
        if i >= 0:
            # Y.iter().flat_map(C) -> vflat_map(&Y, C)
            start = chain_start(toks, m, i)
            recv = [x.copy() for x in toks[start:i]]
            k = i
            while toks[k].s != "flat_map": k += 1
            fopen = k + 1; fclose = m[fopen]
            new = T("vflat_map(&") + recv + T(",") + toks[fopen + 1:fclose] + T(")")
            toks[start:fclose + 1] = new
            stats["R10.vflat_map"] = stats.get("R10.vflat_map", 0) + 1
            changed = True
            continue
        i = find(".iter().map(")
        if i >= 0:
            start = chain_start(toks, m, i)
            recv = toks[start:i]
            k = i
            while toks[k].s != "map": k += 1
            fopen = k + 1
            fclose = m[fopen]
            new = T("vmap(&") + recv + T(",") + toks[fopen + 1:fclose] + T(")")
            toks[start:fclose + 1] = new
            stats["R10.vmap"] = stats.get("R10.vmap", 0) + 1
            changed = True
            continue
        for i, t in enumerate(toks):
            if t.s == "." and i + 2 < len(toks) and toks[i + 1].s == "extend" and toks[i + 2].s == "(":
                start = chain_start(toks, m, i)
                recv = toks[start:i]
                close = m[i + 2]
                arg = toks[i + 3:close]
                new = T("vextend(&mut") + recv + T(",") + arg + T(")")
                toks[start:close + 1] = new
                stats["R10.vextend"] = stats.get("R10.vextend", 0) + 1
                changed = True
                break
    return toks


# R10e: `it.any(C)` on the path iterators of an event / on `v.iter()` -> prelude functions with ghost twins
#   X.iter().any(C) -> vany_ref(&X, C)      X.any(C) -> X.vany(C)
def r10_any_idioms(toks, stats):
    changed = True
    while changed:
        changed = False
        m = match_table(toks)
        for kw in ("any", "all"):
            i = find_seq(toks, pat(".iter().%s(" % kw))
            if i >= 0:
                start = chain_start(toks, m, i)
                recv = [x.copy() for x in toks[start:i]]
                k = i
                while toks[k].s != kw: k += 1
                fopen = k + 1; fclose = m[fopen]
                new = T("v%s_ref(&" % kw) + recv + T(",") + toks[fopen + 1:fclose] + T(")")
                toks[start:fclose + 1] = new
                stats["R10.v%s_ref" % kw] = stats.get("R10.v%s_ref" % kw, 0) + 1
                changed = True
                break
        if changed: continue
        for i, t in enumerate(toks):
            if t.s == "." and i + 2 < len(toks) and toks[i + 1].s in ("any", "all") and toks[i + 2].s == "(":
                kw = toks[i + 1].s
                toks[i + 1] = Tok("id", "v" + kw, toks[i + 1].line, toks[i + 1].col, False)
                stats["R10.v" + kw] = stats.get("R10.v" + kw, 0) + 1
                changed = True
                break
    return toks


# ------------------------------------------------------------------------------------------------
# R16: Rust's own desugaring of `for` for loops whose body uses `continue` (Verus: "for-loops do not yet support continue")
#   for PAT in EXPR { BODY }  ->  { let mut vx_itK = vx_into_iter(EXPR); loop { let PAT = match vx_itK.vx_next() { Some(vx_x) => vx_x, None => break }; BODY } }
# ------------------------------------------------------------------------------------------------
def r16_for_desugar(toks, stats, ordinals):
    for n, k in enumerate(sorted(ordinals, reverse=True)):
        m = match_table(toks)
        ls = [l for l in loops_in(toks, m, 0, len(toks)) if toks[l[0]].s == "for"]
        if k >= len(ls): raise ExtractError("R16: no for loop %d" % k)
        kw, o, c = ls[k]
        j = kw + 1
        while toks[j].s != "in": j += 1
        patt = toks[kw + 1:j]
        expr = toks[j + 1:o]
        body = toks[o + 1:c]
        new = T("{ let mut vx_it%d = vx_into_iter(" % k) + expr + T("); loop") + [Tok("o", "{", toks[o].line, toks[o].col, True)] \
            + T("let") + patt + T("= match vx_it%d.vx_next() { Some(vx_x) => vx_x, None => break };" % k) + body + [Tok("c", "}", None, 0, True)] + T("}")
        toks[kw:c + 1] = new
        stats["R16.for_desugar"] = stats.get("R16.for_desugar", 0) + 1
    return toks


# ------------------------------------------------------------------------------------------------
# R9b: `match E.as_str() { "A" | "B" => X, ... , _ => Y }` on string literals -> if-chain over interned literal ids
#   { let vx_mK = E; if vx_mK.is_lit(idA) || vx_mK.is_lit(idB) { X } else if ... else { Y } }
# (Verus type-checks a `match` on str but does not link it to the string's value)
# ------------------------------------------------------------------------------------------------
def r9_strmatch(toks, stats):
    n_done = 0
    while True:
        m = match_table(toks)
        hit = None
        for i, t in enumerate(toks):
            if t.s == "match":
                j = i + 1
                while j < len(toks) and toks[j].s != "{":
                    if toks[j].k == "o": j = m[j]
                    j += 1
                if j >= len(toks): continue
                # first arm pattern must be a string literal
                if toks[j + 1].k == "str":
                    hit = (i, j); break
        if hit is None: return toks
        i, ob = hit
        cb = m[ob]
        scrut = toks[i + 1:ob]
        # drop a trailing `.as_str()`
        if [x.s for x in scrut[-4:]] == [".", "as_str", "(", ")"]: scrut = scrut[:-4]
        arms = []
        k = ob + 1
        while k < cb:
            pats = []
            while toks[k].s != "=>":
                if toks[k].k == "str": pats.append(lit_id(toks[k].s[1:-1]))
                elif toks[k].s == "|": pass
                elif toks[k].s == "_": pats = None
                else: raise ExtractError("R9b: unsupported pattern %r in a match on string literals" % toks[k].s)
                k += 1
            k += 1
            if toks[k].s == "{":
                body = toks[k:m[k] + 1]; k = m[k] + 1
            else:
                b0 = k
                while k < cb and toks[k].s != ",":
                    if toks[k].k == "o": k = m[k]
                    k += 1
                body = [Tok("o", "{", None, 0, True)] + toks[b0:k] + [Tok("c", "}", None, 0, True)]
            if k < cb and toks[k].s == ",": k += 1
            arms.append((pats, body))
        var = "vx_m%d" % n_done
        new = T("{ let %s =" % var) + [x.copy() for x in scrut] + T(";")
        first = True
        default = None
        for pats, body in arms:
            if pats is None: default = body; continue
            cond = " || ".join("%s.is_lit(%d)" % (var, p) for p in pats)
            new += T(("if " if first else "else if ") + cond) + body
            first = False
        if default is None: raise ExtractError("R9b: match on string literals without a `_` arm")
        new += T("else") + default + T("}")
        toks[i:cb + 1] = new
        n_done += 1
        stats["R9.strmatch"] = stats.get("R9.strmatch", 0) + 1


# ------------------------------------------------------------------------------------------------
# R17: `x |= E;` / `x &= E;` on bools (Verus: "bitwise OR for bools ... not supported") -> `x = (E) || x;` / `x = (E) && x;`
# E is still evaluated exactly once and first; only the (pure) re-read of x is short-circuited. On integers the rewritten text does not
# type-check (tool error, never a wrong verdict).
# ------------------------------------------------------------------------------------------------
def r17_bool_compound_assign(toks, stats):
    i = 0
    while i < len(toks):
        t = toks[i]
        if t.s in ("|=", "&=") and i >= 1 and toks[i - 1].k == "id" and (i < 2 or toks[i - 2].s in (";", "{", "}")):
            m = match_table(toks)
            j = i + 1
            while j < len(toks) and toks[j].s != ";":
                if toks[j].k == "o": j = m[j]
                j += 1
            name = toks[i - 1]
            op = "||" if t.s == "|=" else "&&"
            expr = toks[i + 1:j]
            new = T("= (") + expr + T(") %s %s" % (op, name.s))
            toks[i:j] = new
            stats["R17.bool_compound_assign"] = stats.get("R17.bool_compound_assign", 0) + 1
            i += len(new)
            continue
        i += 1
    return toks
