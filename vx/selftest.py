"""./check --selftest [name-substring]: apply each selftest/mutants/*.patch to a scratch worktree of /repo HEAD and require the owning check to
report the expected obligation (exit 1); apply each selftest/benign/*.patch and require exit 0. Developer command, not registered."""
import json, os, subprocess, sys, tempfile, shutil
VERIF = os.path.dirname(os.path.dirname(os.path.abspath(__file__)))

def run(filter_sub=None):
    ok = True
    for kind in ("mutants", "benign"):
        idx = os.path.join(VERIF, "selftest", kind, "index.jsonl")
        if not os.path.exists(idx): continue
        for ln in open(idx):
            ln = ln.strip()
            if not ln: continue
            e = json.loads(ln)
            if filter_sub and filter_sub not in e["patch"]: continue
            wt = tempfile.mkdtemp(prefix="vx_selftest_")
            os.rmdir(wt)
            try:
                subprocess.run(["git", "-C", "/repo", "worktree", "add", "-q", "--detach", wt, "HEAD"], check=True)
                # carry over uncommitted changes of /repo's working tree? no: selftest runs against HEAD
                r = subprocess.run(["git", "-C", wt, "apply", os.path.join(VERIF, "selftest", kind, e["patch"])], capture_output=True, text=True)
                if r.returncode != 0:
                    print("SELFTEST %s %s: patch does not apply: %s" % (kind, e["patch"], r.stderr.strip()[:200])); ok = False; continue
                env = dict(os.environ, VERIF_REPO=wt, VERIF_SELFTEST="1")
                p = subprocess.run([os.path.join(VERIF, "check"), e["property"]], capture_output=True, text=True, env=env)
                out = p.stdout
                if kind == "mutants":
                    # the expected obligation is named by what follows its property tags (tags get extended over time: "C07.x.y" also matches "C07+C09.x.y")
                    import re as _re
                    rest = e["expect_obligation"].split(".", 1)[1] if "." in e["expect_obligation"] else e["expect_obligation"]
                    if "." in e["expect_obligation"]:
                        good = p.returncode == 1 and _re.search(r"obligation=[A-Z0-9+]*\." + _re.escape(rest), out) is not None
                    else:   # only a property id given: any obligation tagged for it
                        good = p.returncode == 1 and _re.search(r"obligation=[A-Z0-9+]*" + _re.escape(rest) + r"[A-Z0-9+]*\.", out) is not None
                else:
                    good = p.returncode == 0
                print("SELFTEST %s %-45s %s -> exit %d %s" % (kind, e["patch"], e["property"], p.returncode, "ok" if good else "UNEXPECTED"))
                if not good:
                    ok = False
                    print("\n".join("    " + l[:240] for l in out.strip().split("\n")[-8:]))
            finally:
                subprocess.run(["git", "-C", "/repo", "worktree", "remove", "--force", wt], capture_output=True)
                shutil.rmtree(wt, ignore_errors=True)
    return 0 if ok else 1
