"""developer helper: python3 -m vx.dev <unit> [--canary fn|loop] [--keep]"""
import sys, os, tempfile
from . import build, verus
from .tok import ExtractError

def main():
    unit = sys.argv[1]
    canary = None
    if "--canary" in sys.argv: canary = sys.argv[sys.argv.index("--canary") + 1]
    try:
        g = build.build_unit(unit, canary)
    except ExtractError as e:
        print("EXTRACT ERROR:", e); sys.exit(2)
    d = os.environ.get("VX_OUT", "/tmp/vx_dev")
    os.makedirs(d, exist_ok=True)
    path = os.path.join(d, unit + ("_canary_" + canary if canary else "") + ".rs")
    open(path, "w").write(g.text())
    print("generated", path, len(g.lines), "lines")
    if "--gen-only" in sys.argv: return
    extra = []
    if "--only" in sys.argv: extra = ["--verify-root", "--verify-function", sys.argv[sys.argv.index("--only") + 1]]
    res = verus.run_verus(path, extra=extra)
    c = verus.classify(res, g.lines)
    js = res["json"]
    if js: print("verification-results:", js.get("verification-results"))
    for k in ("failed", "untagged", "undecided", "tool_errors"):
        for r in c[k]:
            print("==", k, r.get("obl", ""), r["msg"], "|", " ; ".join("%d:%s" % (ln, g.lines[ln-1].strip()[:70]) for ln in r.get("sites", [])[:3] if 0 < ln <= len(g.lines)))
            if "-v" in sys.argv or k in ("tool_errors",): print(r.get("rendered", "")[:1800])
    if js and "--times" in sys.argv:
        for mod in js["times-ms"]["smt"]["smt-run-module-times"]:
            for f in sorted(mod.get("function-breakdown", []), key=lambda x: -x["time"])[:12]:
                print("   %6d ms  %s" % (f["time"], f["function"]))
    print("wall %.1fs" % res["wall_s"], "obligations:", len(verus.obligations_in(g.lines)))
main()
