"""Assemble one Verus file for a unit: prelude + spec + (overlay header + mechanically extracted body)*.

Unit description: units/<unit>/unit.py defines UNIT (dict). Contract overlay: units/<unit>/contracts.rs with
`//@` section markers. See DESIGN §2/§3.
"""
import hashlib, importlib.util, os, re, sys
from .tok import Tok, T, tokenize, match_table, render, ExtractError, pat, text_of, find_seq, find_all_seq
from . import rules as R

VERIF = os.path.dirname(os.path.dirname(os.path.abspath(__file__)))

def repo_root():
    return os.environ.get("VERIF_REPO", "/repo")

def load_unit(name):
    path = os.path.join(VERIF, "units", name, "unit.py")
    spec = importlib.util.spec_from_file_location("unit_" + name, path)
    mod = importlib.util.module_from_spec(spec)
    spec.loader.exec_module(mod)
    u = mod.UNIT
    u["dir"] = os.path.dirname(path)
    return u

# ------------------------------------------------------------------------------------------------
def parse_overlay(path):
    """-> {item_id: {"of": extract_id, "header": str, "prologue": str, "loops": {k: (iter, text)}, "closures": {k: text},
                     "guard": str|None, "epilogue": str}} in file order"""
    items = {}
    order = []
    cur = None
    sec = None
    buf = []
    def close_sec():
        nonlocal buf, sec
        if cur is None or sec is None:
            buf = []; return
        text = "\n".join(buf).rstrip()
        if sec[0] == "header": cur["header"] = text
        elif sec[0] == "prologue": cur["prologue"] = text
        elif sec[0] == "epilogue": cur["epilogue"] = text
        elif sec[0] == "loop": cur["loops"][sec[1]] = (sec[2], text)
        elif sec[0] == "closure": cur["closures"][sec[1]] = text
        elif sec[0] == "closure_ghost": cur["closure_ghosts"][sec[1]] = text
        elif sec[0] == "closure_let": cur["closure_lets"][sec[1]] = text
        elif sec[0] == "raw": cur["raw"] = text
        elif sec[0] == "hint": cur["hints"].append((sec[1], sec[2], text, sec[3]))
        buf = []
    defs = {}
    pending = []
    def expand(ln):
        if "$" in ln:
            for k in sorted(defs, key=lambda x: -len(x)):
                ln = ln.replace("$" + k, defs[k])
        return ln
    blockname = None
    blockbuf = []
    for ln in R.expand_lits(open(path).read()).split("\n"):
        if ln.startswith("//@ defblock "):
            blockname = ln.split()[2]; blockbuf = []; continue
        if blockname is not None:
            if ln.startswith("//@ enddef"):
                defs[blockname] = "\\n".join(expand(x) for x in blockbuf); blockname = None
            else:
                blockbuf.append(ln)
            continue
        if ln.startswith("//@ def "):
            w = ln.split(None, 3)
            defs[w[2]] = expand(w[3]) if len(w) > 3 else ""
            continue
        ln = expand(ln)
        if "\\n" in ln:
            pending.extend(ln.split("\\n")); continue
        pending.append(ln)
    for ln in pending:
        if ln.startswith("//@"):
            close_sec()
            w = ln[3:].split()
            if not w: sec = None; continue
            if w[0] == "item":
                cur = {"id": w[1], "of": w[1], "header": "", "prologue": "", "epilogue": "", "loops": {}, "closures": {}, "closure_ghosts": {}, "closure_lets": {}, "guard": None, "raw": None, "hints": []}
                if len(w) >= 4 and w[2] == "of": cur["of"] = w[3]
                items[w[1]] = cur; order.append(w[1]); sec = None
            elif w[0] in ("header", "prologue", "epilogue", "raw"):
                sec = (w[0],)
            elif w[0] == "loop":
                it = None
                for x in w[2:]:
                    if x.startswith("iter="): it = x[5:]
                if w[1] == "over":
                    # //@ loop over `EXPR` : the (R16-desugared) `for .. in EXPR` loop, whatever its position; `$IT` in the text is its iterator
                    rest = ln[3:].split(None, 2)[2].strip()
                    if not (rest.startswith("`") and rest.endswith("`")): raise ExtractError("overlay %s: bad loop marker %r" % (path, ln))
                    sec = ("loop", "over:" + rest[1:-1], None)
                elif w[1] == "each":
                    # //@ loop each : the same overlay on every loop of the body, however many there are (loops that all do the same job: a body
                    # with one of them removed or one more added is still verified, and then fails or passes on its own merits)
                    sec = ("loop", "each", it)
                else:
                    sec = ("loop", int(w[1]), it)
            elif w[0] == "closure":
                sec = ("closure", int(w[1]))
            elif w[0] == "closure_ghost":
                sec = ("closure_ghost", int(w[1]))
            elif w[0] == "closure_let":
                sec = ("closure_let", int(w[1]))
            elif w[0] in ("hint", "hint?"):
                # //@ hint [n] after `code`  : ghost lines placed right behind the n-th occurrence of the (extracted) code text
                rest = ln[3:].split(None, 1)[1]
                n = 0
                if rest.split()[0].isdigit():
                    n = int(rest.split()[0]); rest = rest.split(None, 1)[1]
                if not rest.startswith("after `") or not rest.rstrip().endswith("`"):
                    raise ExtractError("overlay %s: bad hint marker %r" % (path, ln))
                sec = ("hint", n, rest.rstrip()[7:-1], w[0] == "hint?")
            elif w[0] == "guard":
                cur["guard"] = " ".join(w[1:]); sec = None
            elif w[0] == "end":
                sec = None
            else:
                raise ExtractError("overlay %s: unknown marker %r" % (path, ln))
        else:
            if sec is not None: buf.append(ln)
    close_sec()
    return items, order

# ------------------------------------------------------------------------------------------------
class Source:
    """one /repo file, cfg-resolved once"""
    cache = {}
    def __init__(self, rel):
        self.rel = rel
        self.path = os.path.join(repo_root(), rel)
        try:
            self.text = open(self.path).read()
        except OSError as e:
            raise ExtractError("cannot read %s: %s" % (self.path, e))
        self.stats = {}
        toks = tokenize(self.text)
        self.toks = R.r3_cfg(toks, self.stats)
        self.m = match_table(self.toks)
    @classmethod
    def get(cls, rel):
        key = (repo_root(), rel)
        if key not in cls.cache: cls.cache[key] = Source(rel)
        return cls.cache[key]

def publicize_fields(frag, stats):
    """visibility is irrelevant to verification, but Verus treats a datatype with a restricted field as opaque in public specs:
    every named field of an extracted struct gets `pub`"""
    kw = [i for i, t in enumerate(frag) if t.s in ("struct", "enum")]
    if kw:
        # the type itself: private / pub(crate) -> pub
        k0 = kw[0]
        if k0 >= 4 and frag[k0 - 1].s == ")" and frag[k0 - 3].s == "(" and frag[k0 - 4].s == "pub":
            # pub(crate) / pub(super) on the type -> pub
            del frag[k0 - 3:k0]; stats["R8.pub_type"] = 1
            kw = [i for i, t in enumerate(frag) if t.s in ("struct", "enum")]
            k0 = kw[0]
        if k0 == 0 or frag[k0 - 1].s not in ("pub", ")"):
            frag[k0:k0] = T("pub"); stats["R8.pub_type"] = 1
            kw = [i + 1 for i in kw]
    m = match_table(frag)
    if not kw or frag[kw[0]].s != "struct": return frag
    ob = None
    for i in range(kw[0], len(frag)):
        if frag[i].s == "{": ob = i; break
        if frag[i].s == "(":
            # tuple struct: every field gets `pub`
            cb = m[i]
            ins = []
            k = i + 1
            start = True
            while k < cb:
                t = frag[k]
                if start and t.s != "pub": ins.append(k)
                start = False
                if t.k == "o": k = m[k] + 1; continue
                if t.s == ",": start = True
                if t.s == "<":
                    depth = 1; k += 1
                    while k < cb and depth:
                        if frag[k].s == "<": depth += 1
                        elif frag[k].s == ">": depth -= 1
                        k += 1
                    continue
                k += 1
            for k in reversed(ins):
                frag[k:k] = T("pub"); stats["R8.pub_field"] = stats.get("R8.pub_field", 0) + 1
            return frag
        if frag[i].s == ";": break
    if ob is None: return frag
    cb = m[ob]
    ins = []
    i = ob + 1
    start = True
    while i < cb:
        t = frag[i]
        if t.k == "o": i = m[i] + 1; start = False; continue
        if start and t.k == "id" and i + 1 < cb and frag[i + 1].s == ":" and t.s != "pub":
            ins.append(i)
        if start and t.s == "pub" and i + 1 < cb and frag[i + 1].s == "(":
            # pub(crate) etc. -> pub
            del frag[i + 1:m[i + 1] + 1]
            m = match_table(frag); cb = m[ob]
        start = (t.s == ",")
        if t.s == "pub": start = False
        i += 1
    for i in reversed(ins):
        frag[i:i] = T("pub")
        stats["R8.pub_field"] = stats.get("R8.pub_field", 0) + 1
    return frag

def sha(s):
    return hashlib.sha256(s.encode()).hexdigest()[:16]

def src_lines(toks):
    ls = [t.line for t in toks if t.line is not None]
    return (min(ls), max(ls)) if ls else (0, 0)

# ------------------------------------------------------------------------------------------------
def extract(unit, ex):
    """-> dict(body=tokens, info=...) for one extraction entry of the unit"""
    src = Source.get(ex["src"])
    toks, m = src.toks, src.m
    kind = ex["kind"]
    info = {"src": ex["src"], "kind": kind, "rules": {}}
    for k, v in src.stats.items():
        info["rules"][k + " (file)"] = v
    if kind == "type":
        s, e = R.find_type(toks, m, ex["name"])
        frag = [t.copy() for t in toks[s:e]]
        info["anchor"] = "type:" + ex["name"]
        frag = publicize_fields(frag, info["rules"])
        if ex.get("structural"):
            # `==` on a field-less enum in exec code: Verus wants the Structural marker next to PartialEq/Eq
            for k in range(len(frag)):
                if frag[k].s == "derive":
                    close = k + 1
                    while frag[close].s != ")": close += 1
                    frag[close:close] = T(", Structural")
                    info["rules"]["R3.structural"] = 1
                    break
        if ex.get("drop_derive"):
            # remove the named traits from the (already filtered) derive list
            k = 0
            while k < len(frag):
                if frag[k].s == "derive":
                    close = k + 1
                    while frag[close].s != ")": close += 1
                    keep = [x.s for x in frag[k + 2:close] if x.k == "id" and x.s not in ex["drop_derive"]]
                    new = T("(" + ", ".join(keep) + ")")
                    frag[k + 1:close + 1] = new
                    if not keep:
                        # drop the whole attribute `#[derive()]`
                        a = k - 2
                        b = k + 1 + len(new) + 1
                        del frag[a:b]
                    info["rules"]["R3.drop_derive"] = info["rules"].get("R3.drop_derive", 0) + 1
                    break
                k += 1
        if ex.get("add_derive"):
            # the stand-in field types are Copy (e.g. PathBuf -> PathS): `x.clone()` in the source is a copy of the abstract value
            for k in range(len(frag)):
                if frag[k].s == "derive":
                    close = k + 1
                    while frag[close].s != ")": close += 1
                    frag[close:close] = T(", " + ", ".join(ex["add_derive"]))
                    info["rules"]["R3.add_derive"] = 1
                    break
    elif kind == "fn":
        lo, hi = 0, len(toks)
        if ex.get("impl"):
            lo, hi = R.find_impl(toks, m, ex["impl"], ex.get("impl_nth", 0))
            s, bo, bc = R.find_fn(toks, m, ex["name"], lo + 1, hi, ex.get("nth", 0))
        elif ex.get("nested"):
            s, bo, bc = R.find_fn_anywhere(toks, m, ex["name"], ex.get("nth", 0))
        else:
            s, bo, bc = R.find_fn(toks, m, ex["name"], lo, hi, ex.get("nth", 0))
        fnkw = s
        while toks[fnkw].s != "fn": fnkw += 1
        info["params"] = R.params_of(toks, m, fnkw)
        info["has_ret"] = any(t.s == "->" for t in toks[fnkw:bo])
        frag = [t.copy() for t in toks[bo + 1:bc]]
        info["anchor"] = "fn:" + ((ex.get("impl") + "::") if ex.get("impl") else "") + ex["name"]
        info["sig"] = text_of(toks[s:bo])
    elif kind == "block":
        # fragment of a function: the {...} following the nth occurrence of a token sequence inside fn `within`
        s, bo, bc = R.find_fn_anywhere(toks, m, ex["within"], ex.get("within_nth", 0))
        if "expr_from" in ex:
            # an expression `SEQ {...}` (e.g. `match x.as_str() { arms }`): the token sequence and the brace group that follows it, lifted as the body's value
            q = pat(ex["expr_from"])
            occ = find_all_seq(toks, q, bo, bc)
            if len(occ) <= ex.get("nth", 0): raise ExtractError("anchor lost: %r in %s" % (ex["expr_from"], ex["within"]))
            o = occ[ex.get("nth", 0)]
            j = o + len(q)
            if toks[j].s != "{": raise ExtractError("anchor %r is not followed by a block" % ex["expr_from"])
            frag = [t.copy() for t in toks[o:m[j] + 1]]
            fstart = o
            info["anchor"] = "block:%s[%d]/expr-from:%r" % (ex["within"], ex.get("within_nth", 0), ex["expr_from"])
        elif "after" in ex:
            o, c = R.nth_block_after(toks, m, ex["after"], ex.get("nth", 0), bo, bc)
            frag = [t.copy() for t in toks[o + 1:c]]
            fstart = o
            info["anchor"] = "block:%s/after:%r[%d]" % (ex["within"], ex["after"], ex.get("nth", 0))
        elif "loop" in ex:
            ls = R.loops_in(toks, m, bo, bc)
            if len(ls) <= ex["loop"]: raise ExtractError("anchor lost: loop %d of %s" % (ex["loop"], ex["within"]))
            kw, o, c = ls[ex["loop"]]
            frag = [t.copy() for t in toks[o + 1:c]]
            fstart = o
            info["anchor"] = "block:%s/loop-body[%d]" % (ex["within"], ex["loop"])
        elif "stmts_from" in ex:
            if ex["stmts_from"] == "@start":
                o = bo + 1          # from the first statement of the function body
            else:
                p = pat(ex["stmts_from"])
                occ = find_all_seq(toks, p, bo, bc)
                if len(occ) <= ex.get("nth", 0): raise ExtractError("anchor lost: %r in %s" % (ex["stmts_from"], ex["within"]))
                o = occ[ex.get("nth", 0)]
                # back to statement start
                while toks[o - 1].s not in (";", "{", "}"): o -= 1
            end = bc
            if "stmts_to" in ex:
                p2 = pat(ex["stmts_to"])
                e2 = find_seq(toks, p2, o, bc)
                if e2 < 0: raise ExtractError("anchor lost: %r in %s" % (ex["stmts_to"], ex["within"]))
                if not ex.get("stmts_to_exact"):      # default: stop before the statement that contains the anchor
                    while toks[e2 - 1].s not in (";", "{", "}"): e2 -= 1
                end = e2
            frag = [t.copy() for t in toks[o:end]]
            fstart = o
            info["anchor"] = "block:%s/stmts-from:%r" % (ex["within"], ex["stmts_from"])
        else:
            raise ExtractError("block extraction needs after/loop/stmts_from")
        # select-arm head `PAT = FUT [, if GUARD] =>` that leads to the fragment (must occur before it in the function)
        if ex.get("arm_bind"):
            head = ex["arm_bind"] + ((", if " + ex["arm_guard"]) if ex.get("arm_guard") else "") + " =>"
            p = pat(head)
            a = find_seq(toks, p, bo, fstart)
            if a < 0: raise ExtractError("anchor lost: select arm head %r" % head)
            if not ex.get("bind_only_check"):
                info["arm_bind"] = ex["arm_bind"]
            info["arm_guard"] = ex.get("arm_guard")
        # free variables: names bound in the enclosing function before the fragment
        cands = set(R.bound_names_before(toks, bo, fstart)) | set(R.params_of(toks, m, [i for i in range(s, bo) if toks[i].s == "fn"][0]))
        cands |= set(ex.get("extra_bound", []))
        fv = R.free_vars(frag, cands)
        info["free"] = fv
        want = ex.get("free")
        # a variable the fragment no longer uses is harmless (the generated function keeps the parameter); a new one is outside the contract
        if want is not None and not set(fv) <= set(want):
            raise ExtractError("fragment %s: free variables changed: expected %s, found %s" % (info["anchor"], sorted(want), sorted(fv)))
    else:
        raise ExtractError("unknown extraction kind %r" % kind)
    info["lines"] = src_lines(frag)
    info["sha256_16"] = sha(text_of(frag))
    # ---- rewrite rules -------------------------------------------------------------------------
    st = info["rules"]
    cfg = dict(unit.get("rules", {}))
    cfg.update(ex.get("rules", {}))
    if kind != "type":
        frag = R.r2_trace(frag, st, tuple(cfg.get("drop_macros", ())))
        frag = R.r4_macro(frag, st)
        frag = R.r2_trace(frag, st, tuple(cfg.get("drop_macros", ())))
        for a, b in cfg.get("await_subst", []):
            # an `.await` that stands for an environment interaction is redirected before R1 drops the remaining awaits
            frag = R.r8_subst(frag, st, [(a, b)], "R8a")
        if cfg.get("detached_spawn"):
            frag = R.r18_detached_spawn(frag, st)
        frag = R.r1_await(frag, st, mark=bool(cfg.get("await_mark")))
        for a, b in cfg.get("pre_subst", []):
            frag = R.r8_subst(frag, st, [(a, b)], "R8p")
        frag = R.r17_bool_compound_assign(frag, st)
        if cfg.get("outline"):
            frag = R.r14_outline(frag, st, cfg["outline"])
        if cfg.get("result_unfold"):
            frag = R.r10_result_unfold(frag, st)
        if cfg.get("question"):
            frag = R.r11_question(frag, st, cfg.get("question_from", "vx_from"))
        if cfg.get("vec_idioms"):
            frag = R.r10_vec_idioms(frag, st)
        if cfg.get("option_unfold"):
            # `.map(` is ambiguous with Iterator::map at the token level: unfolded only where the unit says the receiver is an Option
            which = ("map_or", "map_or_else") + (("map",) if cfg.get("option_unfold_map") else ()) + (("unwrap_or_else",) if cfg.get("option_unfold_unwrap_or_else") else ()) + (("and_then",) if cfg.get("option_unfold_and_then") else ()) + (("filter",) if cfg.get("option_unfold_filter") else ())
            frag = R.r10_option_unfold(frag, st, which)
        if cfg.get("drop_nested_fns"):
            frag = R.drop_nested_fns(frag, st)
        if cfg.get("continue_returns") is not None:
            frag = R.r16_continue_returns(frag, st, cfg["continue_returns"])
        if cfg.get("for_desugar") is not None:
            frag = R.r16_for_desugar(frag, st, cfg["for_desugar"])
        if cfg.get("any_idioms"):
            frag = R.r10_any_idioms(frag, st)
        if cfg.get("array_idioms"):
            frag = R.r10_array_idioms(frag, st)
        if cfg.get("strmatch"):
            frag = R.r9_strmatch(frag, st)
        if cfg.get("strlit"):
            frag = R.r9_strlit(frag, st, cfg["strlit"])
        if cfg.get("select"):
            frag = R.r6_select(frag, st)
        if cfg.get("select_full"):
            frag = R.r6b_select(frag, st, fused=cfg.get("select_fused", ()))
        frag = R.r7_env(frag, st, cfg.get("env_methods", ()), cfg.get("env_paths", ()), cfg.get("closures", ()), arg=cfg.get("env_arg", "env"))
        if ex.get("state"):
            frag = R.r5_state(frag, st, ex["state"])
    if cfg.get("subst"):
        frag = R.r8_subst(frag, st, cfg["subst"])
    match_table(frag)
    return frag, info

# ------------------------------------------------------------------------------------------------
def splice_hints(frag, ov, info):
    """ghost statements of the overlay placed behind an anchor in the extracted code (the anchor must be present: a lost anchor is exit 2)"""
    ins = []
    for n, anchor, text, optional in ov.get("hints", []):
        pat = T(anchor)
        hits = [i for i in range(len(frag) - len(pat) + 1) if all(frag[i + j].s == pat[j].s for j in range(len(pat)))]
        if n >= len(hits):
            # `hint?`: a proof aid for a statement whose absence is itself a semantic change: the proof is attempted without it
            if optional: info["rules"]["hint_skipped"] = info["rules"].get("hint_skipped", 0) + 1; continue
            raise ExtractError("item %s: hint anchor %r occurrence %d not found (%d present)" % (ov["id"], anchor, n, len(hits)))
        ins.append((hits[n] + len(pat), [Tok("raw", "\n" + text + "\n", None, 0, True)]))
    for pos, new in sorted(ins, key=lambda x: -x[0]):
        frag[pos:pos] = new
    return frag

def splice_loops(frag, ov, info):
    """insert loop invariants of the overlay; loops are numbered in token order within the fragment"""
    if not ov["loops"]: return frag
    m = match_table(frag)
    ls = R.loops_in(frag, m, 0, len(frag))
    ins = []
    loops = {}
    for k, v in ov["loops"].items():
        if k == "each":
            for n in range(len(ls)): loops.setdefault(n, v)
        else: loops[k] = v
    for k, (it, text) in loops.items():
        if isinstance(k, str) and k.startswith("over:"):
            want = [t.s for t in T(k[5:])]
            hit = None
            for li, (kw0, o0, c0) in enumerate(ls):
                # ... let mut vx_itN = vx_into_iter ( EXPR ) ; loop {
                j = kw0 - 1
                if j < 2 or frag[j].s != ";" or frag[j - 1].s != ")": continue
                op = m[j - 1]
                if op < 4 or frag[op - 1].s != "vx_into_iter": continue
                if [t.s for t in frag[op + 1:j - 1]] == want:
                    hit = (li, frag[op - 3].s); break
            if hit is None: raise ExtractError("item %s: no `for .. in %s` loop (anchor lost)" % (ov["id"], k[5:]))
            k, itname = hit
            text = text.replace("$IT", itname)
        if k >= len(ls): raise ExtractError("item %s: overlay names loop %d but the body has %d loops" % (ov["id"], k, len(ls)))
        kw, o, c = ls[k]
        # lines before the first `invariant`/`decreases` line are ghost statements placed in front of the loop
        # `body_start:` / `body_end:` sections: ghost statements at the head (behind the R16 `let PAT = match it.vx_next() {..};` if there is
        # one) and at the end of the loop body
        for marker in ("body_end:", "body_start:"):
            if "\n" + marker + "\n" in "\n" + text + "\n":
                text, sect = ("\n" + text + "\n").split("\n" + marker + "\n", 1)
                text = text.strip("\n")
                # the section runs to the next marker line
                rest = ""
                for mk2 in ("after:", "body_end:", "body_start:"):
                    if "\n" + mk2 + "\n" in "\n" + sect:
                        sect, r2 = ("\n" + sect).split("\n" + mk2 + "\n", 1)
                        rest = "\n" + mk2 + "\n" + r2 + rest
                text = text + rest
                sect = sect.strip()
                if marker == "body_end:":
                    ins.append((c, [Tok("raw", "\n" + sect + "\n", None, 0, True)]))
                else:
                    at = o + 1
                    if frag[at].s == "let":
                        j = at
                        while j < c and frag[j].s != ";" and frag[j].s != "match": j += 1
                        if frag[j].s == "match" and frag[j + 1].s.startswith("vx_it") and frag[j + 3].s == "vx_next":
                            while frag[j].s != "{": j += 1
                            at = m[j] + 2
                    ins.append((at, [Tok("raw", "\n" + sect + "\n", None, 0, True)]))
        post = None
        if "\nafter:\n" in "\n" + text + "\n":
            # lines after a line `after:` are ghost statements placed right behind the loop
            text, post = ("\n" + text + "\n").split("\nafter:\n", 1)
            text, post = text.strip("\n"), post.strip()
        if post:
            ins.append((c + 1, [Tok("raw", "\n" + post + "\n", None, 0, True)]))
        tl = text.split("\n")
        cut = 0
        while cut < len(tl) and not tl[cut].strip().startswith(("invariant", "decreases", "invariant_except_break", "ensures")): cut += 1
        pre, inv = "\n".join(tl[:cut]).strip(), "\n".join(tl[cut:])
        ins.append((o, [Tok("raw", "\n" + inv + "\n", None, 0, True)]))
        if pre:
            ins.append((kw, [Tok("raw", "\n" + pre + "\n", None, 0, True)]))
        if it:
            if frag[kw].s != "for": raise ExtractError("item %s: iter= on a non-for loop" % ov["id"])
            j = kw
            while frag[j].s != "in": j += 1
            ins.append((j + 1, T(it + " :")))
    info["loops"] = len(ls)
    for pos, new in sorted(ins, key=lambda x: -x[0]):
        frag[pos:pos] = new
    return frag

def closures_in(frag, m):
    """(bar_open_idx, params_end_idx (the closing bar), body_start, body_end_exclusive) for closure literals, in token order"""
    res = []
    for i, t in enumerate(frag):
        if t.s in ("|", "||") and (i == 0 or frag[i - 1].s in ("(", ",", "=", "move", "return", "{", ";", "=>")):
            if t.s == "||": pe = i
            else:
                pe = i + 1
                while frag[pe].s != "|": pe += 1
            b = pe + 1
            if frag[b].s == "{":
                e = m[b] + 1
            else:
                e = b
                while e < len(frag) and frag[e].s not in (",", ")", ";", "}"):
                    if frag[e].k == "o": e = m[e]
                    e += 1
            res.append((i, pe, b, e))
    return res

def splice_closures(frag, ov, info):
    """R10: re-emit closure k as `|params| <overlay clause> { body }` (clause keyed by closure ordinal)"""
    if not ov["closures"]: return frag
    m = match_table(frag)
    cs = closures_in(frag, m)
    ins = []
    for k, text in ov["closures"].items():
        if k >= len(cs): raise ExtractError("item %s: overlay names closure %d but the body has %d closures" % (ov["id"], k, len(cs)))
        i, pe, b, e = cs[k]
        gh = ov["closure_ghosts"].get(k)
        if gh:
            # the ghost twin of the closure is passed as one more argument right after it
            ins.append((e, T(", " + " ".join(gh.split()))))
        cl = ov["closure_lets"].get(k)
        if frag[b].s != "{":
            ins.append((e, [Tok("c", "}", None, 0, True)]))
            ins.append((b, [Tok("o", "{", None, 0, True)] + (T(" ".join(cl.split())) if cl else [])))
        elif cl:
            # re-bind the destructured parameters at the head of the closure body (the clause restates the parameter as one tuple)
            ins.append((b + 1, T(" ".join(cl.split()))))
        txt = " ".join(text.split())
        # an obligation tag `/* OBL:id */` survives as an inline comment token
        tag = re.search(r"/\*\s*OBL:[^*]*\*/", txt)
        code = T(txt.replace(tag.group(0), "") if tag else txt)
        if tag: code.append(Tok("cmt", tag.group(0), None, 0, True))
        if txt.startswith("|"):
            # the clause restates the (typed) parameter list: replace `|params|`
            ins.append((i, "DEL", pe + 1))
            ins.append((i, code))
        else:
            ins.append((pe + 1, code))
    info["closures"] = len(cs)
    # apply from the right; at equal positions insertions were appended in the order they must appear right-to-left
    for item in sorted(ins, key=lambda x: -x[0]):
        if len(item) == 3 and item[1] == "DEL":
            del frag[item[0]:item[2]]
        else:
            frag[item[0]:item[0]] = item[1]
    return frag

def render_item(frag):
    """render with raw (overlay) chunks expanded onto their own lines"""
    lines = []
    lmap = []
    chunk = []
    def flush():
        nonlocal chunk
        if chunk:
            txt, lm = render(chunk)
            lines.extend(txt.split("\n")); lmap.extend(lm)
            chunk = []
    for t in frag:
        if t.k == "raw":
            flush()
            for ln in t.s.strip("\n").split("\n"):
                lines.append(ln); lmap.append(None)
        else:
            chunk.append(t)
    flush()
    return lines, lmap

class Generated:
    def __init__(self):
        self.lines = []
        self.origin = []      # per line: None or (item_id, src_rel, src_line)
        self.items = []       # info dicts
        self.body_ranges = {} # item_id -> (first_line_idx, last_line_idx) of body
        self.item_ranges = {} # item_id -> (first_line_idx of header, last_line_idx)
    def add(self, text, origin=None):
        for ln in text.split("\n"):
            self.lines.append(ln); self.origin.append(origin)
    def text(self):
        return "\n".join(self.lines) + "\n"

def build_unit(name, canary=None):
    """canary: None | 'fn' | 'loop' -> insert assert(false) canaries (vacuity check)"""
    unit = load_unit(name)
    ov_items, order = parse_overlay(os.path.join(unit["dir"], "contracts.rs"))
    exs = {e["id"]: e for e in unit["extract"]}
    g = Generated()
    g.unit = unit
    g.canaries = []
    g.add("// GENERATED by /verif/vx from %s (unit %s). Do not edit." % (repo_root(), name))
    g.add("#![allow(unused_imports, unused_variables, unused_mut, unused_assignments, dead_code, unreachable_code, non_snake_case, unused_parens, unused_braces, irrefutable_let_patterns, unreachable_patterns)]")
    g.add("use vstd::prelude::*;")
    g.add("verus! {")
    for p in unit.get("prelude", []):
        g.add("// ---- prelude/%s ----" % p)
        g.add(open(os.path.join(VERIF, "prelude", p)).read())
    for p in unit.get("spec", []):
        g.add("// ---- units/%s/%s ----" % (name, p))
        g.add(R.expand_lits(open(os.path.join(unit["dir"], p)).read()))
    for hook in unit.get("gen_spec", []):
        g.add("// ---- generated spec (%s) ----" % hook.__name__)
        g.add(hook(sys.modules[__name__], R))
    extracted = {}
    for iid in order:
        ov = ov_items[iid]
        if ov["raw"] is not None:
            g.add("// ---- overlay (proof/spec text) %s ----" % iid)
            g.add(ov["raw"])
            continue
        ex = exs.get(ov["of"])
        if ex is None: raise ExtractError("overlay item %s refers to unknown extraction %s" % (iid, ov["of"]))
        frag, info = extract(unit, ex)
        frag = [t.copy() for t in frag]
        info = dict(info); info["id"] = iid; info["of"] = ov["of"]
        g.add("// ---- item %s: %s  [%s lines %d-%d sha256/16 %s] ----" % (iid, info["anchor"], info["src"], info["lines"][0], info["lines"][1], info["sha256_16"]))
        if ex["kind"] == "type":
            lines, lmap = render_item(frag)
            pre = ov["header"]
            if pre: g.add(pre)
            for ln, sl in zip(lines, lmap):
                g.lines.append(ln); g.origin.append((iid, info["src"], sl) if sl else None)
            g.items.append(info)
            continue
        # signature check: parameter names of the overlay header must start with the real ones
        hdr = ov["header"]
        if not hdr.strip(): raise ExtractError("overlay item %s has no header" % iid)
        if ex["kind"] == "fn":
            htoks = tokenize(hdr)
            hm = match_table(htoks)
            fnkw = [i for i, t in enumerate(htoks) if t.s == "fn"][0]
            hp = R.params_of(htoks, hm, fnkw)
            real = info["params"]
            extra = [p for p in hp if p not in real]
            if [p for p in hp if p in real] != real or any(p not in ("env",) and not p.startswith("gh_") for p in extra):
                raise ExtractError("item %s: signature drift: real parameters %s, overlay %s" % (iid, real, hp))
        if ov["guard"] is not None:
            if ex.get("guard") is None or pat(ex["guard"]) != pat(ov["guard"]):
                raise ExtractError("item %s: guard mismatch" % iid)
        if "loop_isolation(false)" in hdr:
            # Verus neither checks nor assumes the `ensures` of a non-isolated loop: an obligation placed there would count as discharged unchecked
            for k, (it, text) in ov["loops"].items():
                inens = False
                for ln in text.split("\n"):
                    t = ln.strip()
                    if t.startswith("ensures"): inens = True
                    elif t.startswith(("invariant", "decreases", "after:", "body_start:", "body_end:")): inens = False
                    if inens and "OBL:" in ln:
                        raise ExtractError("item %s loop %s: tagged obligation inside the `ensures` of a non-isolated loop (unchecked by Verus): move it to an `after:` assert" % (iid, k))
        frag = splice_closures(frag, ov, info)
        frag = splice_loops(frag, ov, info)
        frag = splice_hints(frag, ov, info)
        wrap = ex.get("emit_impl", ex.get("impl"))
        item_start = len(g.lines)
        if wrap: g.add(wrap + " {")
        g.add(hdr)
        g.add("{")
        if canary == "fn":
            g.add("assert(false); // CANARY:%s.entry" % iid); g.canaries.append("%s.entry" % iid)
        if ov["prologue"]: g.add(ov["prologue"])
        if info.get("arm_guard") or info.get("arm_bind"):
            st = info["rules"]
            cfg = dict(unit.get("rules", {})); cfg.update(ex.get("rules", {}))
            def rw(text):
                a = tokenize(text)
                a = R.r1_await(a, st)
                a = R.r7_env(a, st, cfg.get("env_methods", ()), cfg.get("env_paths", ()), cfg.get("closures", ()))
                if ex.get("state"): a = R.r5_state(a, st, ex["state"])
                return render(a)[0].strip()
            if info.get("arm_guard"):
                # tokio runs a select! arm only if its `if` guard held when the select was entered (mechanical, from the source)
                g.add("if !(" + rw(info["arm_guard"]) + ") { return vx_branch_disabled(); }")
            if info.get("arm_bind"):
                g.add("let " + rw(info["arm_bind"]) + ";")
        lines, lmap = render_item(frag)
        first = len(g.lines)
        loopno = 0
        for ln, sl in zip(lines, lmap):
            g.lines.append(ln); g.origin.append((iid, info["src"], sl) if sl else None)
        if canary == "loop":
            # canary at the head of each loop body
            pass
        g.body_ranges[iid] = (first, len(g.lines) - 1)
        if ov["epilogue"]: g.add(ov["epilogue"])
        g.add("}")
        if wrap: g.add("}")
        g.item_ranges[iid] = (item_start, len(g.lines) - 1)
        g.items.append(info)
    g.add("} // verus!")
    g.add("fn main() {}")
    if canary and canary.startswith("loop"):
        _loop_canaries(g, int(canary[4:] or 0))
    return g

def _loop_canaries(g, only=0):
    """insert `assert(false)` after the opening brace of the `only`-th loop body of every extracted body; g.loop_total = the largest number
    of loops in one body. One build per ordinal: a canary in one loop body makes what follows its `break` (and nested loops) unreachable."""
    g.loop_total = 0
    for iid, (a, b) in g.body_ranges.items():
        text = "\n".join(g.lines[a:b + 1])
        toks = tokenize(text)
        if not toks: continue
        m = match_table(toks)
        ls = R.loops_in(toks, m, 0, len(toks))
        # token line numbers are relative to the body text
        g.loop_total = max(g.loop_total, len(ls))
        for n, (kw, o, c) in enumerate(ls):
            if n != only: continue
            ln = a + toks[o].line - 1
            col = toks[o].col
            s = g.lines[ln]
            g.lines[ln] = s[:col + 1] + " assert(false); /* CANARY:%s.loop%d */ " % (iid, n) + s[col + 1:]
            g.canaries.append("%s.loop%d" % (iid, n))


def structural_checks(unit):
    """-> list of dict(id, ok, detail). Every occurrence of `pattern` in the globbed non-test sources must lie inside one of allowed_fns."""
    import glob as _glob
    res = []
    for sc in unit.get("structural", []):
        if sc.get("count_in_file"):
            # exactly `expect` occurrences of the token sequence anywhere in one file (declarations: struct fields, consts)
            try:
                src = Source.get(sc["file"])
            except Exception as e:
                res.append({"id": sc["id"], "ok": False, "detail": str(e), "why": sc.get("why", ""), "lost": True}); continue
            if sc.get("raw_regex"):
                # a regular expression counted on the file's text as written (for declarations whose attributes R3 normalises away)
                n = len(re.findall(sc["raw_regex"], src.text, re.M))
                res.append({"id": sc["id"], "ok": n == sc["expect"], "detail": "%d match(es) of /%s/ in %s (expected %d)" % (n, sc["raw_regex"], sc["file"], sc["expect"]), "why": sc.get("why", ""), "lost": False})
                continue
            # raw=True: count on the file's token stream as written (derive lists and cfg attributes are otherwise normalised away by R3)
            n = len(find_all_seq(tokenize(src.text) if sc.get("raw") else src.toks, pat(sc["pattern"])))
            res.append({"id": sc["id"], "ok": n == sc["expect"], "detail": "%d occurrence(s) of `%s` in %s (expected %d)" % (n, sc["pattern"], sc["file"], sc["expect"]), "why": sc.get("why", ""), "lost": False})
            continue
        if "count_in_fn" in sc:
            # exactly `expect` occurrences of the token sequence inside the body of fn `count_in_fn` of one file
            src = Source.get(sc["file"])
            toks, m = src.toks, src.m
            try:
                if sc.get("impl"):
                    lo, hi = R.find_impl(toks, m, sc["impl"])
                    s0, bo, bc = R.find_fn(toks, m, sc["count_in_fn"], lo + 1, hi)
                else:
                    s0, bo, bc = R.find_fn_anywhere(toks, m, sc["count_in_fn"])
            except ExtractError as e:
                res.append({"id": sc["id"], "ok": False, "detail": str(e), "why": sc.get("why", ""), "lost": True}); continue
            # logging is not behaviour: tracing macros are dropped (R2) before anything is counted, so adding or removing a trace!/debug! line
            # never changes a structural verdict
            body = R.r2_trace([t.copy() for t in toks[bo:bc + 1]], {})
            toks, m, bo, bc = body, R.match_table(body), 0, len(body) - 1
            if sc.get("before"):
                # each of the two token sequences occurs exactly once in the body, the first one earlier, and the first one at the top level of the
                # function body (not inside a nested block or closure)
                a, b = sc["before"]
                ia, ib = find_all_seq(toks, pat(a), bo, bc), find_all_seq(toks, pat(b), bo, bc)
                depth = None
                if len(ia) == 1:
                    depth = 0
                    for t in toks[bo + 1:ia[0]]:
                        if t.k == "o": depth += 1
                        elif t.k == "c": depth -= 1
                ok = len(ia) == 1 and len(ib) == 1 and ia[0] < ib[0] and depth == 0
                res.append({"id": sc["id"], "ok": ok, "detail": "`%s` occurs %d time(s)%s, `%s` %d time(s)%s in fn %s of %s (expected: once each, the first at the top level and earlier)"
                            % (a, len(ia), "" if depth is None else " at nesting depth %d" % depth, b, len(ib), "" if not (len(ia) == 1 and len(ib) == 1) else (", in this order" if ia[0] < ib[0] else ", in the wrong order"), sc["count_in_fn"], sc["file"]),
                            "why": sc.get("why", ""), "lost": False})
                continue
            if sc.get("token_regex"):
                n = len([1 for t in toks[bo:bc] if t.k == "id" and re.fullmatch(sc["token_regex"], t.s)])
                sc = dict(sc, pattern="/" + sc["token_regex"] + "/")
            else:
                n = len(find_all_seq(toks, pat(sc["pattern"]), bo, bc))
            res.append({"id": sc["id"], "ok": n == sc["expect"], "detail": "%d occurrence(s) of `%s` in fn %s of %s (expected %d)" % (n, sc["pattern"], sc["count_in_fn"], sc["file"], sc["expect"]),
                        "why": sc.get("why", ""), "lost": False})
            continue
        files = sorted(_glob.glob(os.path.join(repo_root(), sc["glob"]), recursive=True))
        bad, seen = [], 0
        p = pat(sc["pattern"])
        for f in files:
            if any(f.endswith("/" + e) or os.path.basename(f) == e for e in sc.get("exclude", [])): continue
            rel = os.path.relpath(f, repo_root())
            src = Source.get(rel)
            toks, m = src.toks, src.m
            for i in find_all_seq(toks, p):
                seen += 1
                fn = enclosing_fn(toks, m, i)
                if fn not in sc["allowed_fns"]:
                    bad.append("%s:%s in fn %s" % (rel, toks[i].line, fn))
        ok = not bad and seen > 0
        res.append({"id": sc["id"], "ok": ok, "detail": ("%d occurrence(s), all inside %s" % (seen, sc["allowed_fns"])) if ok else
                    ("no occurrence found (anchor lost)" if seen == 0 else "occurrence outside the allowed functions: " + "; ".join(bad)),
                    "why": sc.get("why", ""), "lost": seen == 0})
    return res

def enclosing_fn(toks, m, idx):
    """name of the innermost `fn` whose body contains token idx (None at file level)"""
    best = None
    for i, t in enumerate(toks):
        if i > idx: break
        if t.s == "fn" and i + 1 < len(toks) and toks[i + 1].k == "id":
            j = i
            while j < len(toks) and toks[j].s not in ("{", ";"):
                if toks[j].k == "o": j = m[j]
                j += 1
            if j < len(toks) and toks[j].s == "{" and j < idx < m[j]:
                best = toks[i + 1].s
    return best
