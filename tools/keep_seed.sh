#!/bin/sh
# usage: tools/keep_seed.sh <worktree> <seed dir name> <demo path relative to worktree>  : copies patch.diff + demo into seeded/<name>/ (meta.json is written by hand)
WT="$1"; N="$2"; D="$3"
mkdir -p /verif/seeded/"$N"
git -C "$WT" diff -- crates > /verif/seeded/"$N"/patch.diff
cp "$WT/$D" /verif/seeded/"$N"/
ls -la /verif/seeded/"$N"
