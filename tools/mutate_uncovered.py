#!/usr/bin/env python3
"""Mechanical mutation of the lines the properties' anchors name as mechanism but that no extracted item covers (developer tool). Each mutant that
compiles is run through the owning property's QUICK check (engines included). usage: tools/mutate_uncovered.py [--workers N] [--max-per-range K]"""
import json, os, re, subprocess, sys, random, argparse, queue, threading
from concurrent.futures import ThreadPoolExecutor
sys.path.insert(0, "/verif")
from vx import build, props as P
sys.argv_saved = sys.argv
ap = argparse.ArgumentParser(); ap.add_argument("--workers", type=int, default=8); ap.add_argument("--max-per-range", type=int, default=12)
ap.add_argument("--out", default="/tmp/mutation_unc.jsonl"); ap.add_argument("--skip-files", default="serde_formats.rs,signals/src/lib.rs,events/src/process.rs")
A = ap.parse_args(); random.seed(7)
import importlib.util
spec = importlib.util.spec_from_file_location("mut", "/verif/tools/mutate.py")
src = open("/verif/tools/mutate.py").read()
OPS_SRC = src[src.index("OPS = ["):src.index("jobs = []")]
ns = {"re": re}
exec(OPS_SRC, ns)
mutants_for = ns["mutants_for"]
cov = {}
for prop, d in P.PROPS.items():
    for u in d.get("units", []):
        try: g = build.build_unit(u)
        except Exception: continue
        for it in g.items:
            if it and it.get("lines") and it.get("src"): cov.setdefault(it["src"], []).append(tuple(it["lines"]))
jobs = []; seen = set()
for l in open("/verif/properties.jsonl"):
    j = json.loads(l)
    if j["id"] not in P.PROPS: continue
    for m in j["anchors"]["mechanism"]:
        for part in m["where"].split(", "):
            mm = re.match(r"(crates\S+?):(\d+)-(\d+)", part.strip())
            if not mm: continue
            f, a, b = mm.group(1), int(mm.group(2)), int(mm.group(3))
            if any(s in f for s in A.skip_files.split(",")): continue
            text = open("/repo/" + f).read().split("\n")
            ms = [x for x in mutants_for(f, a, min(b, len(text)), text) if not any(lo <= x[0] <= hi for lo, hi in cov.get(f, []))]
            random.shuffle(ms)
            for (ln, what, new) in ms[:A.max_per_range]:
                k = (j["id"], f, ln, what)
                if k in seen: continue
                seen.add(k); jobs.append(dict(prop=j["id"], src=f, line=ln, what=what, new=new))
print("%d mutants" % len(jobs))
CRATE = lambda src: {"lib": "watchexec", "supervisor": "watchexec-supervisor", "cli": "watchexec-cli", "events": "watchexec-events", "signals": "watchexec-signals",
                     "ignore-files": "ignore-files", "project-origins": "project-origins"}.get(src.split("/")[1]) or {"globset": "watchexec-filterer-globset", "ignore": "watchexec-filterer-ignore"}[src.split("/")[2]]
wts = queue.Queue()
for i in range(A.workers):
    wt = "/tmp/mut/w%d" % i
    if not os.path.isdir(wt):
        os.makedirs("/tmp/mut", exist_ok=True)
        subprocess.run(["git", "-C", "/repo", "worktree", "add", "-q", "--detach", wt, "HEAD"], check=True)
    subprocess.run(["git", "-C", wt, "checkout", "-q", "--", "."], check=True)
    wts.put(wt)
lock = threading.Lock(); outf = open(A.out, "a")
def run(job):
    wt = wts.get()
    try:
        path = os.path.join(wt, job["src"]); orig = open(path).read(); lines = orig.split("\n"); old = lines[job["line"] - 1]
        lines[job["line"] - 1] = (re.match(r"\s*", old).group(0) + "// (statement deleted by mutation)") if job["new"] == "" else job["new"]
        open(path, "w").write("\n".join(lines))
        env = dict(os.environ, CARGO_NET_OFFLINE="true", CARGO_TARGET_DIR=os.path.join(wt, "target"))
        c = subprocess.run(["cargo", "check", "-q", "--offline", "-p", CRATE(job["src"])], cwd=wt, env=env, capture_output=True, text=True)
        res = dict(job, old=old.strip(), compiles=c.returncode == 0, clean=c.returncode == 0 and "warning: unused" not in c.stderr and "warning: unreachable" not in c.stderr)
        if c.returncode == 0:
            r = subprocess.run(["/verif/check", job["prop"], "--tier", "quick"], capture_output=True, text=True, env=dict(os.environ, VERIF_REPO=wt, VERIF_SELFTEST="1"))
            res["rc"] = r.returncode
            mo = re.search(r"obligation=(\S+)", r.stdout); res["obl"] = mo.group(1) if mo else ""
        open(path, "w").write(orig)
        with lock:
            outf.write(json.dumps(res) + "\n"); outf.flush()
            print("%s %-40s L%-4d %-22s compiles=%s rc=%s %s" % (job["prop"], job["src"][-40:], job["line"], job["what"][:22], res["compiles"], res.get("rc"), res.get("obl", "")[:60]))
    finally:
        wts.put(wt)
with ThreadPoolExecutor(A.workers) as ex: list(ex.map(run, jobs))
