#!/bin/sh
# usage: tools/try_seed.sh <patch.diff> <Cxx>...  : apply the patch to /repo, run the given checks, undo the patch
P="$(readlink -f "$1")"; shift
git -C /repo apply "$P" || { echo "patch does not apply"; exit 2; }
for c in "$@"; do VERIF_SELFTEST=1 /verif/check "$c" | cut -c1-260; done
git -C /repo checkout -- .
git -C /repo status --short | head -3
