#!/bin/sh
# usage: tools/try_seed_wt.sh <worktree with the change applied> <Cxx>...  : run the given checks against that tree (never touches /repo)
WT="$(readlink -f "$1")"; shift
for c in "$@"; do VERIF_SELFTEST=1 VERIF_REPO="$WT" /verif/check "$c" | cut -c1-260; done
