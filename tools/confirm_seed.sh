#!/bin/sh
# usage: tools/confirm_seed.sh <worktree> <cargo test args...>  -> prints CONFIRM with=<rc> without=<rc>
# (no `git stash`: refs/stash is shared between the worktrees of one repository)
WT="$1"; shift
cd "$WT" || exit 2
P="$(mktemp /tmp/confirm_XXXXXX.diff)"
git diff > "$P"
CARGO_TARGET_DIR="$WT/target" CARGO_NET_OFFLINE=true cargo test --offline "$@" >/tmp/confirm_with.log 2>&1; A=$?
git apply -R "$P"
CARGO_TARGET_DIR="$WT/target" CARGO_NET_OFFLINE=true cargo test --offline "$@" >/tmp/confirm_without.log 2>&1; B=$?
git apply "$P"; rm -f "$P"
echo "CONFIRM $WT: with-change rc=$A (want !=0), without rc=$B (want 0)"
