#!/bin/sh
# usage: tools/confirm_seed.sh <worktree> <cargo test args...>  -> prints CONFIRMED with=<rc> without=<rc>
WT="$1"; shift
cd "$WT" || exit 2
CARGO_NET_OFFLINE=true cargo test --offline "$@" >/tmp/confirm_with.log 2>&1; A=$?
git stash -q
CARGO_NET_OFFLINE=true cargo test --offline "$@" >/tmp/confirm_without.log 2>&1; B=$?
git stash pop -q
echo "CONFIRM $WT: with-change rc=$A (want !=0), without rc=$B (want 0)"
