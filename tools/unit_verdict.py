#!/usr/bin/env python3
"""developer helper for tools/mutate.py: verify ONE unit against $VERIF_REPO and print a JSON verdict regardless of property tags"""
import sys, os, json, tempfile
sys.path.insert(0, "/verif")
from vx import build, verus
from vx.tok import ExtractError
unit = sys.argv[1]
out = {"failed": [], "untagged": 0, "tool_errors": [], "structural_failed": [], "extract_error": None}
try:
    g = build.build_unit(unit)
    d = tempfile.mkdtemp(prefix="vx_uv_")
    path = os.path.join(d, unit + ".rs")
    open(path, "w").write(g.text())
    res = verus.run_verus(path)
    c = verus.classify(res, g.lines)
    out["failed"] = sorted(set(r.get("obl", "") for r in c["failed"]))
    out["untagged"] = len(c["untagged"]) + len(c["undecided"])
    out["tool_errors"] = [r["msg"][:120] for r in c["tool_errors"]]
    import shutil; shutil.rmtree(d, ignore_errors=True)
except ExtractError as e:
    out["extract_error"] = str(e)[:200]
except Exception as e:
    out["extract_error"] = "exception: " + str(e)[:200]
try:
    for r in build.structural_checks(build.load_unit(unit)):
        if not r["ok"]: out["structural_failed"].append(r["id"])
except Exception as e:
    out["structural_failed"].append("exception: " + str(e)[:100])
print(json.dumps(out))
