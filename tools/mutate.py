#!/usr/bin/env python3
"""Mechanical mutation run (developer tool, not registered): for every real function / block under contract, apply token-level mutation operators
inside its line range, keep the mutants that still compile, run the owning properties' quick checks against the mutated scratch tree, and list the
mutants no check reports (exit 0 = survivor, exit 2 = undecided). Survivors are triaged by hand (equivalent mutant or gap).
usage: tools/mutate.py [--workers N] [--props C01,C02] [--max-per-item K] [--out FILE]"""
import json, os, re, subprocess, sys, tempfile, shutil, random, argparse
from concurrent.futures import ThreadPoolExecutor
sys.path.insert(0, "/verif")
from vx import build, props as P

ap = argparse.ArgumentParser()
ap.add_argument("--workers", type=int, default=6)
ap.add_argument("--props", default="")
ap.add_argument("--max-per-item", type=int, default=12)
ap.add_argument("--out", default="/tmp/mutation_run.jsonl")
ap.add_argument("--seed", type=int, default=1)
ap.add_argument("--units", default="")
A = ap.parse_args()
random.seed(A.seed)
want = [p for p in A.props.split(",") if p] or [p for p in P.PROPS]

# 1. items under contract per unit
unit_items = {}
unit_props = {}
for prop, d in P.PROPS.items():
    for u in d.get("units", []):
        unit_props.setdefault(u, set()).add(prop)
for u in unit_props:
    try:
        g = build.build_unit(u)
    except Exception as e:
        print("skip unit", u, e); continue
    unit_items[u] = [it for it in g.items if it and it.get("kind") in ("fn", "block") and it.get("lines")]

OPS = [
    (r"==", "!="), (r"!=", "=="), (r"<=", "<"), (r">=", ">"), (r"(?<![<=>-])<(?![<=])", "<="), (r"(?<![<=>-])>(?![>=])", ">="),
    (r"&&", "||"), (r"\|\|", "&&"), (r"\btrue\b", "false"), (r"\bfalse\b", "true"), (r"\.is_some\(\)", ".is_none()"), (r"\.is_none\(\)", ".is_some()"),
    (r"\.is_ok\(\)", ".is_err()"), (r"\.is_empty\(\)", ".len() == 1"), (r"\bcontinue;", "break;"), (r"\bbreak;", "continue;"),
    (r"!(?=[a-z_(])", ""), (r"\bSome\(([a-z_]+)\)", r"None"), (r"\bPriority::Urgent\b", "Priority::High"), (r"\bPriority::High\b", "Priority::Normal"), (r"\bPriority::Normal\b", "Priority::High"),
]
def mutants_for(src, lo, hi, text_lines):
    out = []
    for ln in range(lo, hi + 1):
        line = text_lines[ln - 1]
        s = line.strip()
        if not s or s.startswith("//") or s.startswith("#[") or re.match(r"^(trace|debug|info|warn|error|eprintln|println)!\(", s) or "trace!(" in s or "debug!(" in s: continue
        code = line.split("//")[0]
        for pat, rep in ([] if os.environ.get("NEG_ONLY") else OPS):
            for m in re.finditer(pat, code):
                new = code[:m.start()] + re.sub(pat, rep, code[m.start():m.end()]) + code[m.end():] + line[len(code):]
                if new != line: out.append((ln, "%s -> %s" % (m.group(0), rep or "(removed)"), new))
        # negated condition of a single-line `if COND {` (not `if let`)
        mneg = re.match(r"^(\s*(?:\} else )?if )(?!let )(.+) \{\s*$", code)
        if mneg and "NEG_ONLY" in os.environ or (mneg and os.environ.get("WITH_NEG")):
            out.append((ln, "negate condition", mneg.group(1) + "!(" + mneg.group(2) + ") {"))
        if os.environ.get("NEG_ONLY"): continue
        # statement deletion: a single-line statement
        if s.endswith(";") and not s.startswith(("let ", "use ", "return", "pub ", "}", "const ")) and s.count("(") == s.count(")") and not s.startswith("."):
            out.append((ln, "delete statement", re.match(r"\s*", line).group(0) + "();" if False else ""))
    return out

jobs = []
seen = set()
for u, items in unit_items.items():
    props_u = sorted(unit_props[u] & set(want))
    if not props_u: continue
    if A.units and u not in A.units.split(","): continue
    for it in items:
        key = (it["src"], tuple(it["lines"]))
        if key in seen: continue
        seen.add(key)
        text = open(os.path.join("/repo", it["src"])).read().split("\n")
        ms = mutants_for(it["src"], it["lines"][0], it["lines"][1], text)
        random.shuffle(ms)
        for (ln, what, new) in ms[:A.max_per_item]:
            jobs.append(dict(unit=u, item=it["id"], src=it["src"], line=ln, what=what, new=new, props=props_u))
print("%d mutants over %d items" % (len(jobs), len(seen)))

CRATE = lambda src: {"lib": "watchexec", "supervisor": "watchexec-supervisor", "cli": "watchexec-cli", "events": "watchexec-events", "signals": "watchexec-signals",
                     "ignore-files": "ignore-files", "project-origins": "project-origins"}.get(src.split("/")[1]) or {"globset": "watchexec-filterer-globset", "ignore": "watchexec-filterer-ignore"}[src.split("/")[2]]
import queue, threading
wts = queue.Queue()
for i in range(A.workers):
    wt = "/tmp/mut/w%d" % i
    if not os.path.isdir(wt):
        os.makedirs("/tmp/mut", exist_ok=True)
        subprocess.run(["git", "-C", "/repo", "worktree", "add", "-q", "--detach", wt, "HEAD"], check=True)
    subprocess.run(["git", "-C", wt, "checkout", "-q", "--", "."], check=True)      # never start from a tree a killed run left mutated
    wts.put(wt)
lock = threading.Lock()
outf = open(A.out, "a")
def run(job):
    wt = wts.get()
    try:
        path = os.path.join(wt, job["src"])
        orig = open(path).read()
        lines = orig.split("\n")
        old = lines[job["line"] - 1]
        if job["new"] == "": lines[job["line"] - 1] = re.match(r"\s*", old).group(0) + "// (statement deleted by mutation)"
        else: lines[job["line"] - 1] = job["new"]
        open(path, "w").write("\n".join(lines))
        env = dict(os.environ, CARGO_NET_OFFLINE="true", CARGO_TARGET_DIR=os.path.join(wt, "target"))
        c = subprocess.run(["cargo", "check", "-q", "--offline", "-p", CRATE(job["src"])], cwd=wt, env=env, capture_output=True, text=True)
        res = dict(job, old=old.strip(), compiled=c.returncode == 0 and "warning: unused" not in c.stderr and "warning: unreachable" not in c.stderr, results={})
        if c.returncode == 0:
            res["warnings"] = len(re.findall(r"^warning", c.stderr, re.M))
            e2 = dict(os.environ, VERIF_REPO=wt)
            r = subprocess.run(["python3", "/verif/tools/unit_verdict.py", job["unit"]], capture_output=True, text=True, env=e2)
            try: v = json.loads(r.stdout.strip().split("\n")[-1])
            except Exception: v = {"extract_error": "no verdict: " + (r.stdout + r.stderr)[-200:], "failed": [], "untagged": 0, "tool_errors": [], "structural_failed": []}
            res["verdict"] = v
            res["outcome"] = "killed" if (v["failed"] or v["structural_failed"]) else ("undecided" if (v["untagged"] or v["tool_errors"] or v["extract_error"]) else "SURVIVED")
        open(path, "w").write(orig)
        with lock:
            outf.write(json.dumps(res) + "\n"); outf.flush()
            print("%-12s %-28s L%-4d %-22s clean=%s %s %s" % (job["unit"], job["item"][:28], job["line"], job["what"][:22], res["compiled"], res.get("outcome", "does-not-compile"), (res.get("verdict", {}).get("failed") or res.get("verdict", {}).get("structural_failed") or [""])[0][:60]))
    finally:
        wts.put(wt)
with ThreadPoolExecutor(A.workers) as ex:
    list(ex.map(run, jobs))
