#!/usr/bin/env python3
"""regenerate MANIFEST.json from vx/props.py (claimed checks) + properties.jsonl (not_applicable for the rest)"""
import json, os, sys
V = os.path.dirname(os.path.dirname(os.path.abspath(__file__)))
sys.path.insert(0, V)
from vx import props
allp = [json.loads(l)["id"] for l in open(os.path.join(V, "properties.jsonl"))]
NA = props.NOT_APPLICABLE
checks = []
for p in allp:
    if p not in props.PROPS: continue
    c = props.PROPS[p]
    checks.append({
        "property_id": p,
        "quick_cmd": "./check %s --tier quick" % p,
        "thorough_cmd": "./check %s --tier thorough" % p,
        "evidence_file": "/verif/evidence/%s.json" % p,
        "replay_cmd_template": "cat {path}",
        "engine": "vx",
        "level_claimed": {"category": c.get("category", "proof"), "text": c["claim"], "design_ref": c.get("design_ref", "DESIGN.md §6")},
        "level_note": c["trusted"],
        "technique": c.get("technique", "contract-based deductive verification (Verus) of mechanically extracted real functions"),
    })
m = {
    "version": 1,
    "setup_cmd": "true",
    "hooks": {"guard": "watchexec_verif", "enable": "none needed: Verus sees text extracted from /repo on every run, Kani sees a scratch copy with one appended module",
              "baseline_off_cmd": "cd /repo && cargo test --workspace --no-fail-fast --offline", "source_commits": [], "add_only": True},
    "engines": [{"name": "vx", "path": "/verif/vx", "serves_properties": [c["property_id"] for c in checks],
                 "kind_free_text": "Python extractor (token-level anchors + fixed rewrite rules) + contract overlay splicer + Verus/Kani driver and classifier"}],
    "checks": checks,
    "notes": "fix: commits in /repo are listed in known_findings.jsonl; ./check --selftest runs the seeded/selftest mutants (developer command)",
    "not_applicable": [{"property_id": p, "reason": NA.get(p, "check not built yet (see DESIGN.md build order)")} for p in allp if p not in props.PROPS],
}
json.dump(m, open(os.path.join(V, "MANIFEST.json"), "w"), indent=1)
print("MANIFEST.json: %d checks, %d not_applicable" % (len(checks), len(m["not_applicable"])))
