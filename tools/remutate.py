#!/usr/bin/env python3
"""re-run selected mutants of a previous tools/mutate.py run: tools/remutate.py <jsonl> <outcome,...> [unit]"""
import json, sys, os, re, subprocess
rows = [json.loads(l) for l in open(sys.argv[1])]
want = sys.argv[2].split(",")
unit = sys.argv[3] if len(sys.argv) > 3 else None
wt = "/tmp/mut/w0"
for r in rows:
    if r.get("outcome") not in want or (unit and r["unit"] != unit): continue
    path = os.path.join(wt, r["src"])
    orig = open(path).read(); lines = orig.split("\n"); old = lines[r["line"] - 1]
    lines[r["line"] - 1] = (re.match(r"\s*", old).group(0) + "// (statement deleted by mutation)") if r["new"] == "" else r["new"]
    open(path, "w").write("\n".join(lines))
    p = subprocess.run(["python3", "/verif/tools/unit_verdict.py", r["unit"]], capture_output=True, text=True, env=dict(os.environ, VERIF_REPO=wt))
    open(path, "w").write(orig)
    try: v = json.loads(p.stdout.strip().split("\n")[-1])
    except Exception: v = {"extract_error": p.stdout[-200:] + p.stderr[-200:], "failed": [], "untagged": 0, "tool_errors": [], "structural_failed": []}
    out = "killed" if (v["failed"] or v["structural_failed"]) else ("undecided" if (v["untagged"] or v["tool_errors"] or v["extract_error"]) else "SURVIVED")
    print("%-11s %-26s %s:%d [%s] was %s now %s %s" % (r["unit"], r["item"][:26], r["src"].split("/")[-1], r["line"], r["what"], r["outcome"], out, (v["failed"] or v["structural_failed"] or v["tool_errors"] or [v.get("extract_error") or ""])[0][:80]))
