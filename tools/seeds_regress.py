#!/usr/bin/env python3
"""Developer tool: re-run every kept seeded change (seeded/<name>/patch.diff) against the CURRENT machinery.
Each patch is applied to its own scratch worktree of /repo HEAD under /tmp/seedreg (never to /repo), the quick check of the seed's property is
run with VERIF_REPO pointing at that worktree, and the worktree is removed again. Expected: exit 1 for every seed that still applies.
usage: tools/seeds_regress.py [-j N] [substring ...]"""
import json, os, subprocess, sys, shutil
from concurrent.futures import ThreadPoolExecutor
VERIF = os.path.dirname(os.path.dirname(os.path.abspath(__file__)))
ROOT = "/tmp/seedreg"

def one(name):
    d = os.path.join(VERIF, "seeded", name)
    try:
        meta = json.load(open(os.path.join(d, "meta.json")))
    except Exception as e:
        return name, "?", "no meta (%s)" % e, ""
    prop = meta["property"].split()[0]
    wt = os.path.join(ROOT, name)
    subprocess.run(["git", "-C", "/repo", "worktree", "remove", "--force", wt], capture_output=True)
    shutil.rmtree(wt, ignore_errors=True)
    p = subprocess.run(["git", "-C", "/repo", "worktree", "add", "--detach", wt, "HEAD"], capture_output=True, text=True)
    if p.returncode: return name, prop, "worktree failed", p.stderr[-200:]
    try:
        p = subprocess.run(["git", "-C", wt, "apply", os.path.join(d, "patch.diff")], capture_output=True, text=True)
        if p.returncode: return name, prop, "does-not-apply", p.stderr.strip().split("\n")[0][:160]
        env = dict(os.environ, VERIF_SELFTEST="1", VERIF_REPO=wt)
        p = subprocess.run([os.path.join(VERIF, "check"), prop], capture_output=True, text=True, env=env)
        obs = sorted(set(l.split("obligation=")[1].split()[0] for l in p.stdout.split("\n") if "obligation=" in l))
        return name, prop, "exit %d" % p.returncode, " ".join(obs)[:200] if p.returncode == 1 else p.stdout.strip().split("\n")[-1][:200]
    finally:
        subprocess.run(["git", "-C", "/repo", "worktree", "remove", "--force", wt], capture_output=True)
        shutil.rmtree(wt, ignore_errors=True)

def main():
    args = sys.argv[1:]
    j = 4
    if args[:1] == ["-j"]: j = int(args[1]); args = args[2:]
    names = sorted(n for n in os.listdir(os.path.join(VERIF, "seeded")) if os.path.isdir(os.path.join(VERIF, "seeded", n)) and (not args or any(a in n for a in args)))
    os.makedirs(ROOT, exist_ok=True)
    bad = 0
    with ThreadPoolExecutor(max_workers=j) as ex:
        for name, prop, verdict, detail in ex.map(one, names):
            flag = "ok " if verdict == "exit 1" else ("--" if verdict == "does-not-apply" else "!! ")
            if flag == "!! ": bad += 1
            print("%s %-75s %s %-14s %s" % (flag, name, prop, verdict, detail), flush=True)
    subprocess.run(["git", "-C", "/repo", "worktree", "prune"], capture_output=True)
    shutil.rmtree(ROOT, ignore_errors=True)
    print("seeds: %d, not caught: %d" % (len(names), bad))
    return 1 if bad else 0

if __name__ == "__main__":
    sys.exit(main())
