// Kani harness module appended to a scratch copy of crates/signals (as `mod verif_kani`). Loop-free, full-domain symbolic inputs:
// every harness is a complete proof over all i32 / all enum values, not a bounded one.
use super::*;
use nix::sys::signal::Signal as NixSignal;

fn any_signal() -> Signal {
    match kani::any::<u8>() % 8 {
        0 => Signal::Hangup, 1 => Signal::ForceStop, 2 => Signal::Interrupt, 3 => Signal::Quit,
        4 => Signal::Terminate, 5 => Signal::User1, 6 => Signal::User2, _ => Signal::Custom(kani::any()),
    }
}
// POSIX number of a first-class signal (property statement: "the first-class signals map to their POSIX numbers")
fn posix(s: Signal) -> Option<i32> {
    match s {
        Signal::Hangup => Some(1), Signal::Interrupt => Some(2), Signal::Quit => Some(3), Signal::ForceStop => Some(9),
        Signal::User1 => Some(10), Signal::User2 => Some(12), Signal::Terminate => Some(15), Signal::Custom(_) => None, _ => None,
    }
}
fn is_first_class_number(raw: i32) -> bool { matches!(raw, 1 | 2 | 3 | 9 | 10 | 12 | 15) }

// ---- contracts on thin wrappers of the real functions ----
// OBL:C19.signal_from_i32.first_class_iff_posix_number
#[kani::ensures(|r: &Signal| if is_first_class_number(raw) { posix(*r) == Some(raw) } else { *r == Signal::Custom(raw) })]
fn w_from_i32(raw: i32) -> Signal { Signal::from(raw) }

// OBL:C19+C06.signal_to_nix.number_preserved
#[kani::ensures(|r: &Option<i32>| match posix(s) { Some(n) => *r == Some(n), None => match s { Signal::Custom(n) => r.is_none() || *r == Some(n), _ => false } })]
fn w_to_nix_number(s: Signal) -> Option<i32> { s.to_nix().map(|n| n as i32) }

// OBL:C19.signal_from_nix.same_os_signal  (from_nix never loses the OS signal: converting back gives the same nix signal)
#[kani::requires(NixSignal::try_from(raw).is_ok())]
#[kani::ensures(|r: &Option<i32>| *r == Some(raw))]
fn w_from_nix_roundtrip(raw: i32) -> Option<i32> {
    let nix = NixSignal::try_from(raw).unwrap();
    Signal::from_nix(nix).to_nix().map(|n| n as i32)
}

// OBL:C19.signal_from_nix.first_class_for_posix_numbers
#[kani::requires(NixSignal::try_from(raw).is_ok())]
#[kani::ensures(|r: &Signal| if is_first_class_number(raw) { posix(*r) == Some(raw) } else { *r == Signal::Custom(raw) })]
fn w_from_nix(raw: i32) -> Signal { Signal::from_nix(NixSignal::try_from(raw).unwrap()) }

// OBL:C19.signal_to_nix_from_nix.same_os_signal  (for every signal with an OS number, to_nix then from_nix denotes the same OS signal)
#[kani::ensures(|r: &bool| *r)]
fn w_to_from_nix(s: Signal) -> bool {
    match s.to_nix() {
        None => matches!(s, Signal::Custom(_)),
        Some(n) => Signal::from_nix(n).to_nix() == Some(n),
    }
}

// OBL:C16.serde_signal.roundtrip  (Signal <-> SerdeSignal, private serde representation)
#[kani::ensures(|r: &Signal| *r == s)]
fn w_serde_signal_roundtrip(s: Signal) -> Signal { Signal::from(serde_support::SerdeSignal::from(s)) }

#[kani::proof_for_contract(w_from_i32)]
fn h_from_i32() { w_from_i32(kani::any()); }
#[kani::proof_for_contract(w_to_nix_number)]
fn h_to_nix_number() { w_to_nix_number(any_signal()); }
#[kani::proof_for_contract(w_from_nix_roundtrip)]
fn h_from_nix_roundtrip() { w_from_nix_roundtrip(kani::any()); }
#[kani::proof_for_contract(w_from_nix)]
fn h_from_nix() { w_from_nix(kani::any()); }
#[kani::proof_for_contract(w_to_from_nix)]
fn h_to_from_nix() { w_to_from_nix(any_signal()); }
#[kani::proof_for_contract(w_serde_signal_roundtrip)]
fn h_serde_signal_roundtrip() { w_serde_signal_roundtrip(any_signal()); }

// vacuity: the requires of the nix wrappers is satisfiable (a cover that must be reachable)
#[kani::proof]
fn h_cover_nix_domain() {
    let raw: i32 = kani::any();
    kani::cover!(NixSignal::try_from(raw).is_ok(), "some i32 is a nix signal");
    kani::cover!(NixSignal::try_from(raw).is_err(), "some i32 is not a nix signal");
}
