// Kani harness module appended to a scratch copy of crates/events/src/serde_formats.rs as a CHILD module (`mod verif_kani`), so that
// the private SerdeTag and its private fields are reachable. Loop-free, full-domain symbolic inputs: complete proofs.
// The ProcessEnd wrappers carry Kani function contracts (proof_for_contract). The Tag/SerdeTag clauses are asserted in plain
// loop-free harnesses instead: Kani's contract instrumentation (goto-instrument --dfcc) costs 70-160 s and 4-13 GB per harness on
// these heap-carrying types, the plain harness 4-6 s; over full-domain symbolic inputs both are complete proofs of the same clause.
use crate::*;
use super::*;
use std::num::{NonZeroI32, NonZeroI64};
use std::os::unix::process::ExitStatusExt;
use std::process::ExitStatus;
use watchexec_signals::Signal;

fn any_signal() -> Signal {
    match kani::any::<u8>() % 8 {
        0 => Signal::Hangup, 1 => Signal::ForceStop, 2 => Signal::Interrupt, 3 => Signal::Quit,
        4 => Signal::Terminate, 5 => Signal::User1, 6 => Signal::User2, _ => Signal::Custom(kani::any()),
    }
}
fn any_nz32() -> NonZeroI32 { let x: i32 = kani::any(); kani::assume(x != 0); NonZeroI32::new(x).unwrap() }
fn any_nz64() -> NonZeroI64 { let x: i64 = kani::any(); kani::assume(x != 0); NonZeroI64::new(x).unwrap() }
fn any_end() -> ProcessEnd {
    match kani::any::<u8>() % 6 {
        0 => ProcessEnd::Success, 1 => ProcessEnd::ExitError(any_nz64()), 2 => ProcessEnd::ExitSignal(any_signal()),
        3 => ProcessEnd::ExitStop(any_nz32()), 4 => ProcessEnd::Exception(any_nz32()), _ => ProcessEnd::Continued,
    }
}
fn any_source() -> Source {
    match kani::any::<u8>() % 6 { 0 => Source::Filesystem, 1 => Source::Keyboard, 2 => Source::Mouse, 3 => Source::Os, 4 => Source::Time, _ => Source::Internal }
}
// ---- C19: OS exit status -> portable process end ----
// wait status encoding (POSIX/Linux): exited: low 7 bits 0, code = bits 8..15; signaled: low 7 bits in 1..=126 (bit 7 = core dumped);
// stopped: low byte 0x7f, signal in bits 8..15; continued: 0xffff
fn wifexited(raw: i32) -> bool { raw & 0x7f == 0 }
fn wexitstatus(raw: i32) -> i32 { (raw >> 8) & 0xff }
fn wifsignaled(raw: i32) -> bool { ((raw & 0x7f) + 1) as i8 >= 2 }
fn wtermsig(raw: i32) -> i32 { raw & 0x7f }

// OBL:C19.process_end_from_exitstatus.preserves_success_code_and_signal
#[kani::ensures(|r: &ProcessEnd|
    if wifexited(raw) { if wexitstatus(raw) == 0 { *r == ProcessEnd::Success } else { *r == ProcessEnd::ExitError(NonZeroI64::new(wexitstatus(raw) as i64).unwrap()) } }
    else if wifsignaled(raw) { *r == ProcessEnd::ExitSignal(Signal::from(wtermsig(raw))) }
    else { matches!(r, ProcessEnd::ExitStop(_) | ProcessEnd::Continued | ProcessEnd::Success) })]
fn w_end_from_raw(raw: i32) -> ProcessEnd { ProcessEnd::from(ExitStatus::from_raw(raw)) }

// OBL:C19.process_end_into_exitstatus.roundtrip_on_representable  (success, exit codes 1..=255, signals with an OS number)
// (Continued/ExitStop are left out: std never reports stop/continue statuses, and into_exitstatus(Continued) reads back as Success)
#[kani::ensures(|r: &ProcessEnd| match e {
    ProcessEnd::Success => *r == e,
    ProcessEnd::ExitError(c) => if c.get() >= 1 && c.get() <= 255 { *r == e } else { true },
    ProcessEnd::ExitSignal(s) => match s.to_nix() { Some(n) => (n as i32) >= 128 || *r == ProcessEnd::ExitSignal(Signal::from(n as i32)), None => true },
    _ => true })]
fn w_end_roundtrip(e: ProcessEnd) -> ProcessEnd {
    match e {
        ProcessEnd::ExitStop(_) | ProcessEnd::Exception(_) => e,      // into_exitstatus is unimplemented!() for these (documented)
        _ => ProcessEnd::from(e.into_exitstatus()),
    }
}

// ---- C16: Tag <-> SerdeTag, one wrapper per tag kind (Path: heap path, and FileEventKind: format!, are decided elsewhere) ----
// (results are compared through the payload, not with Tag::eq, whose Path arm drags PathBuf comparison into every query)
fn rt_completion(end: Option<ProcessEnd>) -> Option<Option<ProcessEnd>> {
    match Tag::from(SerdeTag::from(Tag::ProcessCompletion(end))) { Tag::ProcessCompletion(x) => Some(x), _ => None }
}
fn rt_signal(s: Signal) -> Option<Signal> { match Tag::from(SerdeTag::from(Tag::Signal(s))) { Tag::Signal(x) => Some(x), _ => None } }
fn rt_process(pid: u32) -> Option<u32> { match Tag::from(SerdeTag::from(Tag::Process(pid))) { Tag::Process(x) => Some(x), _ => None } }
fn rt_source(src: Source) -> Option<Source> { match Tag::from(SerdeTag::from(Tag::Source(src))) { Tag::Source(x) => Some(x), _ => None } }
fn any_file_type() -> Option<FileType> {
    match kani::any::<u8>() % 5 { 0 => None, 1 => Some(FileType::File), 2 => Some(FileType::Dir), 3 => Some(FileType::Symlink), _ => Some(FileType::Other) }
}

// OBL:C16.tag_serde.roundtrip_completion
#[kani::proof]
fn h_rt_completion() { let end = if kani::any() { Some(any_end()) } else { None }; assert!(rt_completion(end) == Some(end)); }
// OBL:C16.tag_serde.roundtrip_signal
#[kani::proof]
fn h_rt_signal() { let s = any_signal(); assert!(rt_signal(s) == Some(s)); }
// OBL:C16.tag_serde.roundtrip_process
#[kani::proof]
fn h_rt_process() { let pid: u32 = kani::any(); assert!(rt_process(pid) == Some(pid)); }
// OBL:C16.tag_serde.roundtrip_source
#[kani::proof]
fn h_rt_source() { let src = any_source(); assert!(rt_source(src) == Some(src)); }
// OBL:C16.tag_serde.roundtrip_keyboard_and_unknown
#[kani::proof]
fn h_rt_keyboard_unknown() {
    assert!(matches!(Tag::from(SerdeTag::from(Tag::Keyboard(Keyboard::Eof))), Tag::Keyboard(Keyboard::Eof)));
    assert!(matches!(Tag::from(SerdeTag::from(Tag::Unknown)), Tag::Unknown));
}
// OBL:C16.tag_serde.roundtrip_path_file_type  (the path itself is a fixed one: its bytes are moved, never inspected)
#[kani::proof]
fn h_rt_path() {
    let ft = any_file_type();
    match Tag::from(SerdeTag::from(Tag::Path { path: std::path::PathBuf::new(), file_type: ft })) {
        Tag::Path { path: _, file_type } => assert!(file_type == ft),
        _ => assert!(false),
    }
}

// ---- strictness: an ARBITRARY tag object (every optional field present or absent, every value symbolic; `full` absent: the name table is
// decided in the Verus unit `names`) parses without panicking to a tag of the kind it names, or to the explicit Unknown tag when the
// fields that kind requires are missing or contradictory; never to a tag of another kind.
fn any_opt<T>(x: T) -> Option<T> { if kani::any() { Some(x) } else { None } }
fn any_serde_tag() -> SerdeTag {
    SerdeTag {
        kind: match kani::any::<u8>() % 8 { 0 => TagKind::None, 1 => TagKind::Path, 2 => TagKind::Fs, 3 => TagKind::Source, 4 => TagKind::Keyboard, 5 => TagKind::Process, 6 => TagKind::Signal, _ => TagKind::Completion },
        absolute: any_opt(std::path::PathBuf::new()),
        filetype: any_file_type(),
        simple: any_opt(match kani::any::<u8>() % 5 { 0 => FsEventKind::Access, 1 => FsEventKind::Create, 2 => FsEventKind::Modify, 3 => FsEventKind::Remove, _ => FsEventKind::Other }),
        full: None,
        source: any_opt(any_source()),
        keycode: any_opt(Keyboard::Eof),
        pid: any_opt(kani::any()),
        signal: any_opt(any_signal()),
        disposition: any_opt(match kani::any::<u8>() % 7 { 0 => ProcessDisposition::Unknown, 1 => ProcessDisposition::Success, 2 => ProcessDisposition::Error, 3 => ProcessDisposition::Signal, 4 => ProcessDisposition::Stop, 5 => ProcessDisposition::Exception, _ => ProcessDisposition::Continued }),
        code: any_opt(kani::any()),
    }
}
// OBL:C16.tag_from_serde.known_kind_or_explicit_unknown_never_another_kind
#[kani::proof]
fn h_tag_from_arbitrary() {
    let st = any_serde_tag();
    let (kind, has_abs, has_simple, has_source, has_key, has_pid, has_sig) =
        (st.kind, st.absolute.is_some(), st.simple.is_some(), st.source.is_some(), st.keycode.is_some(), st.pid.is_some(), st.signal.is_some());
    let (disp, code) = (st.disposition, st.code);
    let fits32 = |c: i64| c != 0 && c >= i32::MIN as i64 && c <= i32::MAX as i64;
    let t = Tag::from(st);
    match kind {
        TagKind::None => assert!(matches!(t, Tag::Unknown)),
        TagKind::Path => assert!(if has_abs { matches!(t, Tag::Path { .. }) } else { matches!(t, Tag::Unknown) }),
        TagKind::Fs => assert!(if has_simple { matches!(t, Tag::FileEventKind(_)) } else { matches!(t, Tag::Unknown) }),
        TagKind::Source => assert!(if has_source { matches!(t, Tag::Source(_)) } else { matches!(t, Tag::Unknown) }),
        TagKind::Keyboard => assert!(if has_key { matches!(t, Tag::Keyboard(_)) } else { matches!(t, Tag::Unknown) }),
        TagKind::Process => assert!(if has_pid { matches!(t, Tag::Process(_)) } else { matches!(t, Tag::Unknown) }),
        TagKind::Signal => assert!(if has_sig { matches!(t, Tag::Signal(_)) } else { matches!(t, Tag::Unknown) }),
        TagKind::Completion => {
            let complete = match disp {
                None | Some(ProcessDisposition::Unknown) | Some(ProcessDisposition::Success) | Some(ProcessDisposition::Continued) => true,
                Some(ProcessDisposition::Signal) => has_sig,
                Some(ProcessDisposition::Error) => matches!(code, Some(c) if c != 0),
                Some(ProcessDisposition::Stop) | Some(ProcessDisposition::Exception) => matches!(code, Some(c) if fits32(c)),
            };
            assert!(if complete { matches!(t, Tag::ProcessCompletion(_)) } else { matches!(t, Tag::Unknown) });
            // and the disposition/code/signal that were given are the ones that come out
            if let Tag::ProcessCompletion(Some(end)) = t {
                match end {
                    ProcessEnd::Success => assert!(matches!(disp, Some(ProcessDisposition::Success))),
                    ProcessEnd::Continued => assert!(matches!(disp, Some(ProcessDisposition::Continued))),
                    ProcessEnd::ExitError(c) => assert!(matches!(disp, Some(ProcessDisposition::Error)) && code == Some(c.get())),
                    ProcessEnd::ExitStop(c) => assert!(matches!(disp, Some(ProcessDisposition::Stop)) && code == Some(c.get() as i64)),
                    ProcessEnd::Exception(c) => assert!(matches!(disp, Some(ProcessDisposition::Exception)) && code == Some(c.get() as i64)),
                    ProcessEnd::ExitSignal(_) => assert!(matches!(disp, Some(ProcessDisposition::Signal)) && has_sig),
                }
            }
        }
    }
}

#[kani::proof_for_contract(w_end_from_raw)]
fn h_end_from_raw() { w_end_from_raw(kani::any()); }
#[kani::proof_for_contract(w_end_roundtrip)]
fn h_end_roundtrip() { w_end_roundtrip(any_end()); }
#[kani::proof]
fn h_cover_end_domain() {
    let raw: i32 = kani::any();
    kani::cover!(wifexited(raw) && wexitstatus(raw) != 0, "exited with error reachable");
    kani::cover!(wifsignaled(raw), "signaled reachable");
    kani::cover!(!wifexited(raw) && !wifsignaled(raw), "stopped/continued reachable");
}
