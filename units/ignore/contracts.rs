// Contract overlay for unit `ignore` (C03)
//@ item Ignore
//@ item IgnoreFilter
//@ item IgnoreFilter::match_path
//@ header
#[verifier::loop_isolation(false)]
pub fn match_path(&self, path: &PathS, is_dir: bool, env: &mut IEnv) -> (r: Match<&Glob>)
    requires wf_filter(self),
    ensures
        final(env).consulted@.len() >= old(env).consulted@.len() && final(env).consulted@.subrange(0, old(env).consulted@.len() as int) =~= old(env).consulted@,
        final(env).mark@ == old(env).consulted@.len(),
        // only ignore files of directories that contain the path are matched against it, nearest directory first, each at most once; every
        // file consulted before the deciding one said nothing; the verdict is the deciding file's answer
        walk_ok(*path, is_dir, cur(final(env)), view_match(r)), // OBL:C03+C14+C11.match_path.walk_in_scope_nearest_first_verdict_of_the_nearest_match
        // the files asked are the ones stored in the filter for those directories, asked in the mode the path's position calls for
        forall|i: int| 0 <= i < cur(final(env)).len() ==> self.ignores.m@.contains_key((#[trigger] cur(final(env))[i]).g.root)
            && self.ignores.m@[cur(final(env))[i].g.root].gitignore == cur(final(env))[i].g && cur(final(env))[i].parents == path_anc(self.origin, *path), // OBL:C03+C14.match_path.asks_the_stored_file_of_each_directory
        // completeness: "nearest directory first, then farther ones, then global files": when no file matched, every stored ignore file
        // of a directory that contains the path was consulted
        view_match(r) is None ==> covered_all(self.ignores.m@, *path, cur(final(env))), // OBL:C03+C14.match_path.no_applicable_ignore_file_is_skipped
//@ prologue
broadcast use axiom_parent_shorter, axiom_str_prefix_len, axiom_anc_is_str_prefix;
env.mark = Ghost(env.consulted@.len() as int);
env.p = Ghost(*path);
//@ loop 0
invariant
    wf_filter(self), env.p@ == *path, env.mark@ == old(env).consulted@.len(), env.consulted@.len() >= env.mark@, env.consulted@.subrange(0, env.mark@) =~= old(env).consulted@,
    walk_ok(*path, is_dir, cur(env), Match::<Glob>::None), // OBL:C03+C14.match_path.inv_walk_so_far
    cur(env).len() > 0 ==> disp_len(*search_path) < disp_len(cur(env).last().g.root),
    forall|i: int| 0 <= i < cur(env).len() ==> self.ignores.m@.contains_key((#[trigger] cur(env)[i]).g.root)
        && self.ignores.m@[cur(env)[i].g.root].gitignore == cur(env)[i].g && cur(env)[i].parents == path_anc(self.origin, *path), // OBL:C03+C14.match_path.inv_asks_the_stored_files
    path_anc(*search_path, *path), // OBL:C03+C14.match_path.inv_search_stays_on_the_ancestor_chain
    covered_below(self.ignores.m@, *path, *search_path, cur(env)), // OBL:C03+C14.match_path.inv_every_nearer_ignore_file_consulted
decreases disp_len(*search_path), // OBL:C03+C14.match_path.the_walk_terminates
//@ item FileType
//@ item IgnoreFilterer
//@ item IgnoreFilterer::check_event
//@ header
pub fn check_event(&self, event: &Event, _priority: Priority, env: &mut IEnv) -> (r: Result<bool, RuntimeError>)
    requires wf_filter(&self.0),
    ensures
        r is Ok,
        // an event without paths always passes
        event.path_tags@.len() == 0 ==> r == Ok::<bool, RuntimeError>(true), // OBL:C03+C11.check_event.no_paths_passes
        // a single-path event passes unless the walk over the ignore files of its ancestor directories ends in an in-scope ignore
        event.path_tags@.len() == 1 ==> walk_ok(event.path_tags@[0].0, event.path_tags@[0].1 == Some(FileType::Dir), cur(final(env)), verdict_of(cur(final(env)), event.path_tags@[0].0, event.path_tags@[0].1 == Some(FileType::Dir)))
            && r == Ok::<bool, RuntimeError>(!ignored(verdict_of(cur(final(env)), event.path_tags@[0].0, event.path_tags@[0].1 == Some(FileType::Dir)), event.path_tags@[0].0)), // OBL:C03+C11.check_event.single_path_verdict
        // any number of paths: each path's verdict comes from a complete walk over the stored ignore files, and the event's verdict is their left-to-right
        // fold (an in-scope ignore rejects, a negated match re-admits, anything else keeps the verdict so far)
        event_passes_by_fold(&self.0, event.path_tags@, r->Ok_0), // OBL:C03+C11.check_event.multi_path_verdict_is_the_fold_of_the_per_path_verdicts
//@ loop 0 iter=vx_it
let ghost vx_tags = event.path_tags@;
let ghost mut walks: Seq<Seq<Asked>> = Seq::empty();
invariant
    walks.len() == vx_it.index@,
    forall|i: int| 0 <= i < vx_it.index@ ==> full_walk(&self.0, (#[trigger] vx_tags[i]).0, tag_is_dir(vx_tags[i]), walks[i]), // OBL:C03+C11.check_event.multi_path_verdict_is_the_fold_of_the_per_path_verdicts
    pass == fold_pass(vx_tags, walks, vx_it.index@), // OBL:C03+C11.check_event.multi_path_verdict_is_the_fold_of_the_per_path_verdicts
    wf_filter(&self.0), vx_tags == event.path_tags@, vx_it.seq() == vx_tags, 0 <= vx_it.index@ <= vx_tags.len(),
    vx_it.index@ == 0 ==> pass, // OBL:C03.check_event.inv_starts_passing
    vx_it.index@ == 1 ==> walk_ok(vx_tags[0].0, vx_tags[0].1 == Some(FileType::Dir), cur(env), verdict_of(cur(env), vx_tags[0].0, vx_tags[0].1 == Some(FileType::Dir)))
        && pass == !ignored(verdict_of(cur(env), vx_tags[0].0, vx_tags[0].1 == Some(FileType::Dir)), vx_tags[0].0), // OBL:C03.check_event.inv_first_path_verdict
body_end:
proof {
    let ghost w0 = walks;
    walks = walks.push(cur(env));
    assert(forall|i: int| 0 <= i < w0.len() ==> walks[i] == w0[i]);
    lemma_fold_prefix(vx_tags, w0, walks, w0.len() as int);
}
after:
proof { assert(event_verdict_ok(&self.0, event.path_tags@, walks, pass)); assert(event_passes_by_fold(&self.0, event.path_tags@, pass)); }
//@ item IgnoreFilter::check_dir
//@ header
pub fn check_dir(&self, path: &PathS, env: &mut IEnv) -> (r: bool)
    requires wf_filter(self),
    ensures
        walk_ok(*path, true, cur(final(env)), verdict_of(cur(final(env)), *path, true)) && r == !ignored(verdict_of(cur(final(env)), *path, true), *path), // OBL:C03+C14.check_dir.pass_unless_an_in_scope_ignore
        final(env).mark@ == old(env).consulted@.len(),
//@ end
