// spec for unit `ignore` (C03), from the property statement
// the trie is keyed by directories, and the file stored under a key applies in exactly that directory (keying obligation of the
// constructors new/add_file/add_globs: GitignoreBuilder::new(&applies_in) is inserted under applies_in.display().to_string())
pub open spec fn wf_filter(f: &IgnoreFilter) -> bool {
    forall|d: PathS| f.ignores.m@.contains_key(d) ==> (#[trigger] f.ignores.m@[d]).gitignore.root == d
}
// "an ignore pattern applies only inside its directory": an Ignore whose pattern comes from a directory that is not an ancestor of the
// path does not count
pub open spec fn in_scope(m: Match<Glob>, p: PathS) -> bool {
    match m { Match::Ignore(g) => g.from_dir is None || path_anc(g.from_dir->Some_0, p), _ => true }
}
// strictly decreasing display lengths: each ignore file is consulted at most once, nearest (longest) first
pub open spec fn nearest_first(s: Seq<PathS>) -> bool { forall|i: int, j: int| 0 <= i < j < s.len() ==> disp_len(#[trigger] s[i]) > disp_len(#[trigger] s[j]) }

// the walk recorded in `c`: every file asked applies in a directory that contains the path (in scope), nearest directory first and each
// at most once, every file but the last said nothing; the verdict is the last one's answer
pub open spec fn roots_decreasing(c: Seq<Asked>) -> bool { forall|i: int, j: int| 0 <= i < j < c.len() ==> disp_len((#[trigger] c[i]).g.root) > disp_len((#[trigger] c[j]).g.root) }
pub open spec fn walk_ok(p: PathS, is_dir: bool, c: Seq<Asked>, v: Match<Glob>) -> bool {
    (forall|i: int| 0 <= i < c.len() ==> path_anc((#[trigger] c[i]).g.root, p))
    && roots_decreasing(c)
    && (forall|i: int| 0 <= i < c.len() - 1 ==> answer(#[trigger] c[i], p, is_dir) is None)
    && v == (if c.len() == 0 { Match::<Glob>::None } else { answer(c.last(), p, is_dir) })
}
pub open spec fn verdict_of(c: Seq<Asked>, p: PathS, is_dir: bool) -> Match<Glob> { if c.len() == 0 { Match::<Glob>::None } else { answer(c.last(), p, is_dir) } }
pub open spec fn cur(env: &IEnv) -> Seq<Asked> { env.consulted@.subrange(env.mark@, env.consulted@.len() as int) }
// "A path is ignored exactly when ... yields an ignore": an in-scope Ignore verdict
pub open spec fn ignored(v: Match<Glob>, p: PathS) -> bool { v is Ignore && in_scope(v, p) }

// ---- proved wrappers around the matcher stand-ins: the sequence reasoning about the recorded walk lives here (verified) ----
impl Gitignore {
    pub fn matched(&self, p: &PathS, is_dir: bool, env: &mut IEnv) -> (r: Match<&Glob>)
        requires
            // C03: an ignore file is only ever asked about paths inside the directory it applies in
            path_anc(self.root, *p), // OBL:C03+C14.match_path.only_ignore_files_of_ancestor_directories_are_consulted
            0 <= old(env).mark@ <= old(env).consulted@.len(), walk_ok(*p, is_dir, cur(old(env)), Match::<Glob>::None),
            // nearest first, each file at most once
            cur(old(env)).len() > 0 ==> disp_len(self.root) < disp_len(cur(old(env)).last().g.root), // OBL:C03+C14.match_path.files_are_consulted_nearest_first_each_once
        ensures
            view_match(r) == g_matched(*self, *p, is_dir), final(env).mark == old(env).mark, final(env).consulted@ == old(env).consulted@.push(Asked { g: *self, parents: false }),
            walk_ok(*p, is_dir, cur(final(env)), view_match(r)), cur(final(env)).len() == cur(old(env)).len() + 1, cur(final(env)).last() == (Asked { g: *self, parents: false }),
            forall|i: int| 0 <= i < cur(old(env)).len() ==> #[trigger] cur(final(env))[i] == cur(old(env))[i],
            final(env).p == old(env).p, extends(cur(old(env)), cur(final(env))), asked(cur(final(env)), self.root),
    {
        let r = self.matched_raw(p, is_dir, env);
        proof { lemma_walk_push(*p, is_dir, cur(old(env)), Asked { g: *self, parents: false }); assert(cur(env) =~= cur(old(env)).push(Asked { g: *self, parents: false })); assert(cur(env)[cur(env).len() - 1].g.root == self.root); }
        r
    }
    pub fn matched_path_or_any_parents(&self, p: &PathS, is_dir: bool, env: &mut IEnv) -> (r: Match<&Glob>)
        requires
            path_anc(self.root, *p), // OBL:C03+C14.match_path.only_ignore_files_of_ancestor_directories_are_consulted
            0 <= old(env).mark@ <= old(env).consulted@.len(), walk_ok(*p, is_dir, cur(old(env)), Match::<Glob>::None),
            cur(old(env)).len() > 0 ==> disp_len(self.root) < disp_len(cur(old(env)).last().g.root), // OBL:C03+C14.match_path.files_are_consulted_nearest_first_each_once
        ensures
            view_match(r) == g_matched_parents(*self, *p, is_dir), final(env).mark == old(env).mark, final(env).consulted@ == old(env).consulted@.push(Asked { g: *self, parents: true }),
            walk_ok(*p, is_dir, cur(final(env)), view_match(r)), cur(final(env)).len() == cur(old(env)).len() + 1, cur(final(env)).last() == (Asked { g: *self, parents: true }),
            forall|i: int| 0 <= i < cur(old(env)).len() ==> #[trigger] cur(final(env))[i] == cur(old(env))[i],
            final(env).p == old(env).p, extends(cur(old(env)), cur(final(env))), asked(cur(final(env)), self.root),
    {
        let r = self.matched_path_or_any_parents_raw(p, is_dir, env);
        proof { lemma_walk_push(*p, is_dir, cur(old(env)), Asked { g: *self, parents: true }); assert(cur(env) =~= cur(old(env)).push(Asked { g: *self, parents: true })); assert(cur(env)[cur(env).len() - 1].g.root == self.root); }
        r
    }
}
pub proof fn lemma_walk_push(p: PathS, is_dir: bool, c: Seq<Asked>, a: Asked)
    requires walk_ok(p, is_dir, c, Match::<Glob>::None), path_anc(a.g.root, p), c.len() > 0 ==> disp_len(a.g.root) < disp_len(c.last().g.root),
    ensures walk_ok(p, is_dir, c.push(a), answer(a, p, is_dir)),
{
    let c2 = c.push(a);
    assert forall|i: int, j: int| 0 <= i < j < c2.len() implies disp_len((#[trigger] c2[i]).g.root) > disp_len((#[trigger] c2[j]).g.root) by {
        if j < c.len() { assert(c2[i] == c[i] && c2[j] == c[j]); }
        else { assert(c2[i] == c[i]); if i < c.len() - 1 { assert(disp_len(c[i].g.root) > disp_len(c[c.len() - 1].g.root)); } }
    }
    assert forall|i: int| 0 <= i < c2.len() - 1 implies answer(#[trigger] c2[i], p, is_dir) is None by {
        assert(c2[i] == c[i]);
        if i == c.len() - 1 { assert(c.last() == c[i]); }
    }
}

// ---- completeness of the walk ----
pub open spec fn asked(c: Seq<Asked>, d: PathS) -> bool { exists|i: int| 0 <= i < c.len() && (#[trigger] c[i]).g.root == d }
pub open spec fn extends(c: Seq<Asked>, c2: Seq<Asked>) -> bool { c.len() <= c2.len() && forall|i: int| 0 <= i < c.len() ==> #[trigger] c2[i] == c[i] }
// every stored ignore file of a directory that contains the path and is not an ancestor-or-self of `upto` has been consulted
pub open spec fn covered_below(m: Map<PathS, Ignore>, p: PathS, upto: PathS, c: Seq<Asked>) -> bool {
    forall|d: PathS| #[trigger] m.contains_key(d) && path_anc(d, p) && !path_anc(d, upto) ==> asked(c, d)
}
pub open spec fn covered_all(m: Map<PathS, Ignore>, p: PathS, c: Seq<Asked>) -> bool {
    forall|d: PathS| #[trigger] m.contains_key(d) && path_anc(d, p) ==> asked(c, d)
}
pub proof fn lemma_asked_extends(c: Seq<Asked>, c2: Seq<Asked>, d: PathS)
    requires asked(c, d), extends(c, c2)
    ensures asked(c2, d)
{
    let i = choose|i: int| 0 <= i < c.len() && (#[trigger] c[i]).g.root == d;
    assert(c2[i] == c[i]);
}
// ancestors of one path form a chain
pub proof fn lemma_chain(a: PathS, b: PathS, s: PathS)
    requires path_anc(a, s), path_anc(b, s)
    ensures path_anc(a, b) || path_anc(b, a)
    decreases depth(s)
{
    broadcast use axiom_parent_shorter;
    if a == s || b == s { }
    else { lemma_chain(a, b, parent_of(s)->Some_0); }
}
pub proof fn lemma_anc_trans(a: PathS, b: PathS, c: PathS)
    requires path_anc(a, b), path_anc(b, c)
    ensures path_anc(a, c)
    decreases depth(c)
{
    broadcast use axiom_parent_shorter;
    if b == c { } else { lemma_anc_trans(a, b, parent_of(c)->Some_0); }
}
// moving the search from s to parent(k), where k is the stored directory with the longest textual-prefix key for s:
// nothing between is missed, provided k itself was consulted or does not contain the path
pub proof fn lemma_step(m: Map<PathS, Ignore>, p: PathS, s: PathS, k: PathS, c: Seq<Asked>, c2: Seq<Asked>)
    requires
        path_anc(s, p), covered_below(m, p, s, c), m.contains_key(k), str_prefix(k, s), parent_of(k) is Some,
        forall|d: PathS| m.contains_key(d) && #[trigger] str_prefix(d, s) ==> disp_len(d) <= disp_len(k),
        extends(c, c2), asked(c2, k) || !path_anc(k, p),
    ensures path_anc(parent_of(k)->Some_0, p), covered_below(m, p, parent_of(k)->Some_0, c2),
{
    broadcast use axiom_parent_shorter, axiom_str_prefix_len, axiom_anc_is_str_prefix, axiom_parent_of_textual_prefix;
    let q = parent_of(k)->Some_0;
    assert(path_anc(q, s));
    lemma_anc_trans(q, s, p);
    assert forall|d: PathS| #[trigger] m.contains_key(d) && path_anc(d, p) && !path_anc(d, q) implies asked(c2, d) by {
        if path_anc(d, s) {
            lemma_chain(d, q, s);
            assert(path_anc(q, d));
            assert(str_prefix(d, s));
            axiom_longest_textual_prefix_on_chain(k, s, d);
            assert(d == k);
        } else {
            assert(asked(c, d));
            lemma_asked_extends(c, c2, d);
        }
    }
}
// no stored directory has a key that is a textual prefix of s: none of them contains s
pub proof fn lemma_none_left(m: Map<PathS, Ignore>, p: PathS, s: PathS, c: Seq<Asked>)
    requires path_anc(s, p), covered_below(m, p, s, c), forall|d: PathS| m.contains_key(d) ==> !#[trigger] str_prefix(d, s),
    ensures covered_all(m, p, c)
{
    broadcast use axiom_anc_is_str_prefix;
    assert forall|d: PathS| #[trigger] m.contains_key(d) && path_anc(d, p) implies asked(c, d) by {
        if path_anc(d, s) { assert(str_prefix(d, s)); }
    }
}
// what the walk may do after looking up the entry k for the search position s: once k has been consulted (or found not to contain
// the path) the search continues at parent(k) without missing anything; if k has no parent everything is covered
pub open spec fn step_ready(m: Map<PathS, Ignore>, p: PathS, k: PathS, c: Seq<Asked>) -> bool {
    forall|c2: Seq<Asked>| #![trigger covered_below(m, p, parent_of(k)->Some_0, c2)] #![trigger covered_all(m, p, c2)]
        extends(c, c2) && (asked(c2, k) || !path_anc(k, p)) ==>
            (parent_of(k) is Some ==> path_anc(parent_of(k)->Some_0, p) && covered_below(m, p, parent_of(k)->Some_0, c2))
            && (parent_of(k) is None ==> covered_all(m, p, c2))
}
impl TrieS {
    pub fn get_ancestor(&self, key: &StrS, env: &mut IEnv) -> (r: Option<&TrieNode>)
        requires 0 <= old(env).mark@ <= old(env).consulted@.len(), path_anc(key.of, old(env).p@), covered_below(self.m@, old(env).p@, key.of, cur(old(env))),
        ensures *final(env) == *old(env),
            r is Some ==> self.m@.contains_key(r->Some_0.k.of) && self.m@[r->Some_0.k.of] == r->Some_0.v && str_prefix(r->Some_0.k.of, key.of)
                && step_ready(self.m@, old(env).p@, r->Some_0.k.of, cur(old(env)))
                && (parent_of(r->Some_0.k.of) is Some ==> path_anc(parent_of(r->Some_0.k.of)->Some_0, old(env).p@)),
            r is None ==> covered_all(self.m@, old(env).p@, cur(old(env))),
    {
        let r = self.get_ancestor_raw(key);
        proof {
            let (m, p, s, c) = (self.m@, env.p@, key.of, cur(env));
            match r {
                None => { lemma_none_left(m, p, s, c); }
                Some(node) => {
                    let k = node.k.of;
                    if parent_of(k) is Some {
                        broadcast use axiom_parent_of_textual_prefix;
                        assert(path_anc(parent_of(k)->Some_0, s));
                        lemma_anc_trans(parent_of(k)->Some_0, s, p);
                    }
                    assert forall|c2: Seq<Asked>| #![trigger covered_below(m, p, parent_of(k)->Some_0, c2)] #![trigger covered_all(m, p, c2)]
                        extends(c, c2) && (asked(c2, k) || !path_anc(k, p)) implies
                            (parent_of(k) is Some ==> path_anc(parent_of(k)->Some_0, p) && covered_below(m, p, parent_of(k)->Some_0, c2))
                            && (parent_of(k) is None ==> covered_all(m, p, c2)) by {
                        if parent_of(k) is Some { lemma_step(m, p, s, k, c, c2); }
                        else { lemma_root(m, p, s, k, c, c2); }
                    }
                }
            }
        }
        r
    }
}
// k has no parent (it is the root): after consulting it nothing is left
pub proof fn lemma_root(m: Map<PathS, Ignore>, p: PathS, s: PathS, k: PathS, c: Seq<Asked>, c2: Seq<Asked>)
    requires path_anc(s, p), covered_below(m, p, s, c), m.contains_key(k), str_prefix(k, s), parent_of(k) is None,
        forall|d: PathS| m.contains_key(d) && #[trigger] str_prefix(d, s) ==> disp_len(d) <= disp_len(k),
        extends(c, c2), asked(c2, k) || !path_anc(k, p),
    ensures covered_all(m, p, c2),
{
    broadcast use axiom_anc_is_str_prefix, axiom_str_prefix_len;
    assert forall|d: PathS| #[trigger] m.contains_key(d) && path_anc(d, p) implies asked(c2, d) by {
        if path_anc(d, s) {
            // d contains s and is stored, so its key is a textual prefix of s no longer than k's; k is the root, the shortest path: d == k
            assert(str_prefix(d, s));
            axiom_root_is_shortest(k, d);
        } else {
            assert(asked(c, d));
            lemma_asked_extends(c, c2, d);
        }
    }
}

// ---- multi-path events (IgnoreFilterer::check_event) ----
// The property text defines "the loaded ignore files reject it" for one path; for an event with several paths the filterer folds the per-path
// verdicts from left to right: an in-scope ignore rejects, a negated (whitelist) match re-admits, anything else keeps the verdict so far.
// This fold is TAKEN FROM THE CODE AND ITS DOC COMMENT ("Ok(false) if the event is ignored according to the ignore files"); what the
// property fixes are its consequences: no path ignored => passes; without negated matches, rejected iff some path is ignored.
pub open spec fn tag_is_dir(t: (PathS, Option<FileType>)) -> bool { t.1 == Some(FileType::Dir) }
pub open spec fn fold_pass(tags: Seq<(PathS, Option<FileType>)>, ws: Seq<Seq<Asked>>, n: int) -> bool decreases n {
    if n <= 0 { true } else {
        let v = verdict_of(ws[n - 1], tags[n - 1].0, tag_is_dir(tags[n - 1]));
        if ignored(v, tags[n - 1].0) { false } else if v is Whitelist { true } else { fold_pass(tags, ws, n - 1) }
    }
}
// one path's walk is a complete, correct walk over the files stored in the filter
pub open spec fn full_walk(f: &IgnoreFilter, p: PathS, d: bool, c: Seq<Asked>) -> bool {
    walk_ok(p, d, c, verdict_of(c, p, d))
    && (forall|i: int| 0 <= i < c.len() ==> f.ignores.m@.contains_key((#[trigger] c[i]).g.root) && f.ignores.m@[c[i].g.root].gitignore == c[i].g && c[i].parents == path_anc(f.origin, p))
    && (verdict_of(c, p, d) is None ==> covered_all(f.ignores.m@, p, c))
}
pub open spec fn event_verdict_ok(f: &IgnoreFilter, tags: Seq<(PathS, Option<FileType>)>, ws: Seq<Seq<Asked>>, pass: bool) -> bool {
    ws.len() == tags.len()
    && (forall|i: int| 0 <= i < tags.len() ==> full_walk(f, (#[trigger] tags[i]).0, tag_is_dir(tags[i]), ws[i]))
    && pass == fold_pass(tags, ws, tags.len() as int)
}
pub open spec fn event_passes_by_fold(f: &IgnoreFilter, tags: Seq<(PathS, Option<FileType>)>, pass: bool) -> bool {
    exists|ws: Seq<Seq<Asked>>| #[trigger] event_verdict_ok(f, tags, ws, pass)
}
// consequences the property states
pub proof fn lemma_no_path_ignored_passes(tags: Seq<(PathS, Option<FileType>)>, ws: Seq<Seq<Asked>>, n: int)
    requires 0 <= n <= tags.len(), forall|i: int| 0 <= i < n ==> !ignored(verdict_of(ws[i], (#[trigger] tags[i]).0, tag_is_dir(tags[i])), tags[i].0),
    ensures fold_pass(tags, ws, n),
    decreases n,
{ if n > 0 { lemma_no_path_ignored_passes(tags, ws, n - 1); } }
pub proof fn lemma_without_negations_rejected_iff_some_path_ignored(tags: Seq<(PathS, Option<FileType>)>, ws: Seq<Seq<Asked>>, n: int)
    requires 0 <= n <= tags.len(), forall|i: int| 0 <= i < n ==> !(verdict_of(ws[i], (#[trigger] tags[i]).0, tag_is_dir(tags[i])) is Whitelist),
    ensures fold_pass(tags, ws, n) == !(exists|i: int| 0 <= i < n && ignored(verdict_of(ws[i], (#[trigger] tags[i]).0, tag_is_dir(tags[i])), tags[i].0)),
    decreases n,
{
    if n > 0 {
        lemma_without_negations_rejected_iff_some_path_ignored(tags, ws, n - 1);
        let last = ignored(verdict_of(ws[n - 1], tags[n - 1].0, tag_is_dir(tags[n - 1])), tags[n - 1].0);
        if last { assert(0 <= n - 1 < n && ignored(verdict_of(ws[n - 1], tags[n - 1].0, tag_is_dir(tags[n - 1])), tags[n - 1].0)); }
        else {
            if exists|i: int| 0 <= i < n && ignored(verdict_of(ws[i], (#[trigger] tags[i]).0, tag_is_dir(tags[i])), tags[i].0) {
                let i = choose|i: int| 0 <= i < n && ignored(verdict_of(ws[i], (#[trigger] tags[i]).0, tag_is_dir(tags[i])), tags[i].0);
                assert(i < n - 1);
            }
        }
    }
}
pub proof fn lemma_fold_prefix(tags: Seq<(PathS, Option<FileType>)>, a: Seq<Seq<Asked>>, b: Seq<Seq<Asked>>, n: int)
    requires 0 <= n <= a.len(), n <= b.len(), forall|i: int| 0 <= i < n ==> #[trigger] a[i] == b[i],
    ensures fold_pass(tags, a, n) == fold_pass(tags, b, n),
    decreases n,
{ if n > 0 { lemma_fold_prefix(tags, a, b, n - 1); } }
