# unit `ignore`: crates/ignore-files/src/filter.rs — serves C03
F = "crates/ignore-files/src/filter.rs"
UNIT = dict(
    name="ignore",
    prelude=["ignore_env.rs"],
    spec=["spec.rs"],
    rules=dict(
        env_methods=["matched", "matched_path_or_any_parents", "match_path", "check_dir", "get_ancestor"],
        option_unfold=True,
        pre_subst=[
            ("&search_path.display().to_string()", "&vx_display(search_path)"),
            ("Path::new(trie_node.key().unwrap())", "vx_path_of(trie_node.key().unwrap())"),
        ],
        subst=[
            ("Trie<String, Ignore>", "TrieS"), ("PathBuf", "PathS"), ("Option<GitignoreBuilder>", "Option<GitignoreBuilder>"),
        ],
    ),
    extract=[
        dict(id="Ignore", kind="type", src=F, name="Ignore", drop_derive=["Clone"]),
        dict(id="IgnoreFilter", kind="type", src=F, name="IgnoreFilter", drop_derive=["Clone"]),
        dict(id="IgnoreFilter::match_path", kind="fn", src=F, impl="impl IgnoreFilter", name="match_path"),
        dict(id="FileType", kind="type", src="crates/events/src/fs.rs", name="FileType", structural=True),
        dict(id="IgnoreFilterer", kind="type", src="crates/filterer/ignore/src/lib.rs", name="IgnoreFilterer", drop_derive=["Clone"]),
        dict(id="IgnoreFilterer::check_event", kind="fn", src="crates/filterer/ignore/src/lib.rs", impl="impl Filterer for IgnoreFilterer", name="check_event", emit_impl="impl IgnoreFilterer",
             rules=dict(pre_subst=[("dunce::simplified(path).normalize()", "simplify_path(&path)"), ("pass &= true;", "pass = pass && true;"), ("pass &= false;", "pass = pass && false;")])),
        dict(id="IgnoreFilter::check_dir", kind="fn", src=F, impl="impl IgnoreFilter", name="check_dir"),
    ],
)
