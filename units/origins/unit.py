# unit `origins`: crates/project-origins/src/lib.rs — serves C20
F = "crates/project-origins/src/lib.rs"
def gen_marked(build, R):
    """spec twin of check_list's marker table, generated from the extracted body on every run:
       `list.has_dir("X")` -> e_dir(e, id(X)), `list.has_file("X")` -> e_file(e, id(X)), the array `.any(|f| f)` -> a disjunction"""
    src = build.Source.get(F)
    s, bo, bc = R.find_fn_anywhere(src.toks, src.m, "check_list")
    t = src.toks
    terms = []
    for i in range(bo, bc):
        if t[i].s == "list" and t[i + 1].s == "." and t[i + 2].s in ("has_dir", "has_file") and t[i + 3].s == "(" and t[i + 4].k == "str" and t[i + 5].s == ")":
            terms.append("%s(e, %d)" % ("e_dir" if t[i + 2].s == "has_dir" else "e_file", R.lit_id(t[i + 4].s[1:-1])))
    if not terms: raise R.ExtractError("gen_marked: no marker rows found in check_list")
    return ("// GENERATED from the marker table of check_list (%d rows): \"a recognised project marker\"\n"
            "pub open spec fn marked(e: Map<int, Kind>) -> bool {\n    !(e.dom() =~= Set::<int>::empty()) && (\n        "
            % len(terms)) + "\n        || ".join(terms) + ")\n}\n"

UNIT = dict(
    gen_spec=[gen_marked],
    name="origins",
    prelude=["origins_env.rs"],
    spec=["spec.rs"],
    rules=dict(
        strlit="Name::lit({})",
        option_unfold=True,
        array_idioms=True,
        pre_subst=[
            ("std::fs::FileType::is_file", "FileType::is_file"),
            ("std::fs::FileType::is_dir", "FileType::is_dir"),
            ("HashSet::new()", "PathSet::new()"),
        ],
        subst=[
            ("HashMap<PathBuf, FileType>", "EntryMap"),
            ("Self::default()", "Self::default()"),
        ],
    ),
    # DirList::obtain (an async stream with async closures) is outside the extraction subset: the directory listing enters as an arbitrary map from
    # entry name to node kind. What that map records is pinned structurally, and exercised by the bounded execution (files, directories, symbolic links).
    structural=[
        dict(id="C20.structure.the_listing_records_each_entrys_own_name_and_type", file=F, impl="impl DirList", count_in_fn="obtain",
             pattern="if let (Ok(path), Ok(file_type)) = (entry.path().strip_prefix(path), entry.file_type().await) { Some((path.to_owned(), file_type)) } else { None }", expect=1,
             why="a marker 'present as a file / as a directory' is judged on the directory entry's own type (links are not followed) under its own name relative to the listed directory"),
        dict(id="C20.structure.the_listing_is_of_the_asked_directory", file=F, impl="impl DirList", count_in_fn="obtain", pattern="if let Ok(s) = read_dir(path).await { Self( ReadDirStream::new(s)", expect=1,
             why="and it is the listing of the directory asked about; an unreadable directory has no entries"),
    ],
    extract=[
        dict(id="ProjectType", kind="type", src=F, name="ProjectType"),
        dict(id="DirList", kind="type", src=F, name="DirList"),
        dict(id="ProjectType::is_vcs", kind="fn", src=F, impl="impl ProjectType", name="is_vcs"),
        dict(id="ProjectType::is_soft", kind="fn", src=F, impl="impl ProjectType", name="is_soft"),
        dict(id="DirList::is_empty", kind="fn", src=F, impl="impl DirList", name="is_empty"),
        dict(id="DirList::has_file", kind="fn", src=F, impl="impl DirList", name="has_file"),
        dict(id="DirList::has_dir", kind="fn", src=F, impl="impl DirList", name="has_dir"),
        dict(id="DirList::if_has_file", kind="fn", src=F, impl="impl DirList", name="if_has_file"),
        dict(id="DirList::if_has_dir", kind="fn", src=F, impl="impl DirList", name="if_has_dir"),
        dict(id="check_list", kind="fn", src=F, name="check_list", nested=True),
        dict(id="origins", kind="fn", src=F, name="origins", rules=dict(drop_nested_fns=True)),
        dict(id="types", kind="fn", src=F, name="types"),
    ],
)
