// spec for unit `origins` (C20), written from the property statement and the doc comments of ProjectType / origins / types

// "VCS:" vs "Soft:" in the per-variant docs of ProjectType; every type is one or the other (property statement), so a type that is
// not documented as VCS is a software suite
pub open spec fn doc_is_vcs(t: ProjectType) -> bool {
    match t {
        ProjectType::Bazaar | ProjectType::Darcs | ProjectType::Fossil | ProjectType::Git | ProjectType::Mercurial | ProjectType::Pijul | ProjectType::Subversion => true,
        _ => false,
    }
}
pub open spec fn e_file(e: Map<int, Kind>, n: int) -> bool { e.contains_key(n) && e[n] == Kind::File }
pub open spec fn e_dir(e: Map<int, Kind>, n: int) -> bool { e.contains_key(n) && e[n] == Kind::Dir }
// the markers of each project type, transcribed from the "Detects when ..." sentence of each variant's doc comment
// (Zig has no doc comment; its only mention is the `build.zig` row of types())
pub open spec fn doc_has(e: Map<int, Kind>, t: ProjectType) -> bool {
    match t {
        ProjectType::Bazaar => e_dir(e, $LIT(".bzr")) || e_file(e, $LIT(".bzrignore")),
        ProjectType::Darcs => e_dir(e, $LIT("_darcs")),
        ProjectType::Fossil => e_dir(e, $LIT(".fossil-settings")),
        ProjectType::Git => e_file(e, $LIT(".git")) || e_dir(e, $LIT(".git")) || e_file(e, $LIT(".gitattributes")) || e_file(e, $LIT(".gitmodules")),
        ProjectType::Mercurial => e_dir(e, $LIT(".hg")) || e_file(e, $LIT(".hgignore")) || e_file(e, $LIT(".hgtags")),
        ProjectType::Pijul => false,
        ProjectType::Subversion => e_dir(e, $LIT(".svn")),
        ProjectType::Bundler => e_file(e, $LIT("Gemfile")),
        ProjectType::C => e_file(e, $LIT(".ctags")),
        ProjectType::Cargo => e_file(e, $LIT("Cargo.toml")),
        ProjectType::Docker => e_file(e, $LIT("Dockerfile")),
        ProjectType::Elixir => e_file(e, $LIT("mix.exs")),
        ProjectType::Go => e_file(e, $LIT("go.mod")) || e_file(e, $LIT("go.sum")),
        ProjectType::Gradle => e_file(e, $LIT("build.gradle")),
        ProjectType::JavaScript => e_file(e, $LIT("package.json")) || e_file(e, $LIT("cgmanifest.json")),
        ProjectType::Leiningen => e_file(e, $LIT("project.clj")),
        ProjectType::Maven => e_file(e, $LIT("pom.xml")),
        ProjectType::Perl => e_file(e, $LIT(".perltidyrc")) || e_file(e, $LIT("Makefile.PL")),
        ProjectType::PHP => e_file(e, $LIT("composer.json")),
        ProjectType::Pip => e_file(e, $LIT("requirements.txt")) || e_file(e, $LIT("Pipfile")),
        ProjectType::V => e_file(e, $LIT("v.mod")),
        ProjectType::Zig => e_file(e, $LIT("build.zig")),
    }
}
// "a recognised project marker": the set of markers is not enumerated in any documentation; `marked` is GENERATED from the marker table
// of check_list on every run (see units/origins/unit.py). What is proved: check_list computes exactly that table with the right node
// kinds, every marker of a documented project type is an origin marker (lemma below), and origins() walks exactly the chain.
pub open spec fn doc_any_type(e: Map<int, Kind>) -> bool { exists|t: ProjectType| doc_has(e, t) }
pub proof fn lemma_typed_dirs_are_origins(e: Map<int, Kind>)
    requires doc_any_type(e)
    ensures marked(e) // OBL:C20.check_list.every_typed_marker_is_an_origin_marker
{
    let t = choose|t: ProjectType| doc_has(e, t);
    assert(doc_has(e, t));
    // some entry exists, so the listing is not empty
    assert(exists|n: int| e.contains_key(n)) by {
        match t {
            ProjectType::Bazaar => { if e_dir(e, $LIT(".bzr")) { assert(e.contains_key($LIT(".bzr"))); } else { assert(e.contains_key($LIT(".bzrignore"))); } }
            ProjectType::Darcs => { assert(e.contains_key($LIT("_darcs"))); }
            ProjectType::Fossil => { assert(e.contains_key($LIT(".fossil-settings"))); }
            ProjectType::Git => { if e.contains_key($LIT(".git")) { } else if e_file(e, $LIT(".gitattributes")) { assert(e.contains_key($LIT(".gitattributes"))); } else { assert(e.contains_key($LIT(".gitmodules"))); } }
            ProjectType::Mercurial => { if e_dir(e, $LIT(".hg")) { assert(e.contains_key($LIT(".hg"))); } else if e_file(e, $LIT(".hgignore")) { assert(e.contains_key($LIT(".hgignore"))); } else { assert(e.contains_key($LIT(".hgtags"))); } }
            ProjectType::Pijul => { }
            ProjectType::Subversion => { assert(e.contains_key($LIT(".svn"))); }
            ProjectType::Bundler => { assert(e.contains_key($LIT("Gemfile"))); }
            ProjectType::C => { assert(e.contains_key($LIT(".ctags"))); }
            ProjectType::Cargo => { assert(e.contains_key($LIT("Cargo.toml"))); }
            ProjectType::Docker => { assert(e.contains_key($LIT("Dockerfile"))); }
            ProjectType::Elixir => { assert(e.contains_key($LIT("mix.exs"))); }
            ProjectType::Go => { if e_file(e, $LIT("go.mod")) { assert(e.contains_key($LIT("go.mod"))); } else { assert(e.contains_key($LIT("go.sum"))); } }
            ProjectType::Gradle => { assert(e.contains_key($LIT("build.gradle"))); }
            ProjectType::JavaScript => { if e_file(e, $LIT("package.json")) { assert(e.contains_key($LIT("package.json"))); } else { assert(e.contains_key($LIT("cgmanifest.json"))); } }
            ProjectType::Leiningen => { assert(e.contains_key($LIT("project.clj"))); }
            ProjectType::Maven => { assert(e.contains_key($LIT("pom.xml"))); }
            ProjectType::Perl => { if e_file(e, $LIT(".perltidyrc")) { assert(e.contains_key($LIT(".perltidyrc"))); } else { assert(e.contains_key($LIT("Makefile.PL"))); } }
            ProjectType::PHP => { assert(e.contains_key($LIT("composer.json"))); }
            ProjectType::Pip => { if e_file(e, $LIT("requirements.txt")) { assert(e.contains_key($LIT("requirements.txt"))); } else { assert(e.contains_key($LIT("Pipfile"))); } }
            ProjectType::V => { assert(e.contains_key($LIT("v.mod"))); }
            ProjectType::Zig => { assert(e.contains_key($LIT("build.zig"))); }
        }
    }
    let n = choose|n: int| e.contains_key(n);
    assert(e.dom().contains(n));
    assert(!(e.dom() =~= Set::<int>::empty()));
}

// a is p or one of its ancestors
pub open spec fn is_anc(a: PathS, p: PathS) -> bool decreases depth(p) {
    a == p || (parent_of(p) is Some && depth(parent_of(p)->Some_0) < depth(p) && is_anc(a, parent_of(p)->Some_0))
}
pub open spec fn strict_anc(a: PathS, c: PathS) -> bool { parent_of(c) is Some && is_anc(a, parent_of(c)->Some_0) }
// the chain is closed under taking parents
pub broadcast proof fn lemma_anc_parent(a: PathS, p: PathS)
    requires is_anc(a, p), parent_of(a) is Some,
    ensures #[trigger] is_anc(parent_of(a)->Some_0, p)
    decreases depth(p)
{
    broadcast use axiom_parent_depth;
    if a == p {
        assert(is_anc(parent_of(p)->Some_0, parent_of(p)->Some_0));
    } else {
        lemma_anc_parent(a, parent_of(p)->Some_0);
    }
}
