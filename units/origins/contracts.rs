// Contract overlay for unit `origins` (C20)
//@ item ProjectType
//@ item DirList
//@ item DirList_obtain
//@ raw
impl DirList {
    // DirList::obtain (tokio read_dir stream; not extractable): the listing of `path`, empty if unreadable. ASSUMED.
    #[verifier::external_body]
    fn obtain(path: &PathS) -> (r: DirList) ensures r.0.m@ == fs_entries(*path) { unimplemented!() }
}
//@ item ProjectType::is_vcs
//@ header
pub fn is_vcs(self) -> (r: bool)
    ensures r == doc_is_vcs(self), // OBL:C20.is_vcs.exactly_the_documented_vcs_types
//@ item ProjectType::is_soft
//@ header
pub fn is_soft(self) -> (r: bool)
    ensures r == !doc_is_vcs(self), // OBL:C20.is_soft.every_type_is_vcs_or_soft_never_both_never_neither
//@ item DirList::is_empty
//@ header
fn is_empty(&self) -> (r: bool)
    ensures r == (self.0.m@.dom() =~= Set::<int>::empty()),
//@ item DirList::has_file
//@ header
fn has_file(&self, name: Name) -> (r: bool)
    ensures r == e_file(self.0.m@, name.id), // OBL:C20.has_file.name_present_as_a_regular_file
//@ item DirList::has_dir
//@ header
fn has_dir(&self, name: Name) -> (r: bool)
    ensures r == e_dir(self.0.m@, name.id), // OBL:C20.has_dir.name_present_as_a_directory
//@ item DirList::if_has_file
//@ header
fn if_has_file(&self, name: Name, project: ProjectType) -> (r: Option<ProjectType>)
    ensures r == (if e_file(self.0.m@, name.id) { Some(project) } else { None::<ProjectType> }), // OBL:C20.if_has_file.exact
//@ item DirList::if_has_dir
//@ header
fn if_has_dir(&self, name: Name, project: ProjectType) -> (r: Option<ProjectType>)
    ensures r == (if e_dir(self.0.m@, name.id) { Some(project) } else { None::<ProjectType> }), // OBL:C20.if_has_dir.exact
//@ item check_list
//@ header
fn check_list(list: &DirList) -> (r: bool)
    ensures r == marked(list.0.m@), // OBL:C20.check_list.computes_the_marker_table_with_node_kinds
//@ item origins
//@ header
#[verifier::loop_isolation(false)]   // a function-level `broadcast use` does not reach the bodies of isolated loops
pub fn origins(path: &PathS) -> (r: PathSet)
    ensures
        // exactly the marked directories among the path and its ancestors, and nothing outside that chain
        forall|a: PathS| r.v@.contains(a) ==> is_anc(a, *path) && marked(fs_entries(a)), // OBL:C20.origins.only_marked_members_of_the_chain
        forall|a: PathS| is_anc(a, *path) && marked(fs_entries(a)) ==> r.v@.contains(a), // OBL:C20.origins.every_marked_member_of_the_chain
//@ prologue
broadcast use axiom_parent_depth, lemma_anc_parent;
//@ loop 0
invariant
    is_anc(*current, *path), // OBL:C20.origins.walk_stays_on_the_chain
    forall|a: PathS| origins.v@.contains(a) ==> is_anc(a, *path) && marked(fs_entries(a)), // OBL:C20.origins.inv_only_marked_members_of_the_chain
    forall|a: PathS| is_anc(a, *path) && marked(fs_entries(a)) && !strict_anc(a, *current) ==> origins.v@.contains(a), // OBL:C20.origins.inv_every_marked_member_visited_so_far
decreases depth(*current), // OBL:C20.origins.the_walk_up_terminates
//@ item types
//@ header
pub fn types(path: &PathS) -> (r: TypeSet)
    ensures
        forall|t: ProjectType| r.v@.contains(t) <==> doc_has(fs_entries(*path), t), // OBL:C20.types.exactly_the_types_whose_markers_are_present
//@ end
