// spec for unit `cliaction` (C05, C08), from the property statements
// C05: what the handler does with the job for one change, by running state and on-busy mode
pub open spec fn stop_sig(stop_signal: Option<Signal>) -> Signal { match stop_signal { Some(s) => s, None => Signal::Terminate } }
pub open spec fn busy_sig(stop_signal: Option<Signal>, signal: Option<Signal>) -> Signal {
    match stop_signal { Some(s) => s, None => match signal { Some(s) => s, None => Signal::Terminate } }
}
pub open spec fn on_busy_acts(is_running: bool, mode: OnBusyUpdate, stop_signal: Option<Signal>, signal: Option<Signal>, stop_timeout: Duration, was_queued: bool) -> Seq<Act> {
    if !is_running {
        // "a change while the command is idle starts it"
        seq![Act::Send(Ctl::Start), Act::Send(Ctl::RunSetup)]
    } else {
        match mode {
            // "a change while it runs does nothing (do-nothing)"
            OnBusyUpdate::DoNothing => Seq::<Act>::empty(),
            // "only sends the configured signal (signal)"
            OnBusyUpdate::Signal => seq![Act::Send(Ctl::Signal(busy_sig(stop_signal, signal)))],
            // "stops it gracefully and starts a fresh run (restart)"
            OnBusyUpdate::Restart => seq![Act::Send(Ctl::RestartWithSignal(stop_sig(stop_signal), stop_timeout)), Act::Send(Ctl::RunSetup)],
            // "causes exactly one further run after the current one ends (queue)"
            OnBusyUpdate::Queue => if was_queued { Seq::<Act>::empty() } else { seq![Act::SpawnQueueTask] },
        }
    }
}
// C08: the three-step quit escalation of the CLI
pub open spec fn quit_manner(nth: nat, stop_signal: Option<Signal>, stop_timeout: Duration) -> QuitManner {
    if nth == 0 { QuitManner::Graceful { signal: stop_sig(stop_signal), grace: stop_timeout } }
    else if nth == 1 { QuitManner::Graceful { signal: Signal::ForceStop, grace: Duration::ZERO } }
    else { QuitManner::Abort }
}
// the effect of calling the `quit` closure (proved for item quit_closure, assumed where the closure is called)
pub open spec fn quit_effect(e0: &AEnv, e1: &AEnv, a1: Handler, stop_signal: Option<Signal>, stop_timeout: Duration) -> bool {
    e1.quit_again@ == e0.quit_again@ + 1 && e1.log == e0.log && e1.queued == e0.queued
    && a1.quit == Some(quit_manner(e0.quit_again@, stop_signal, stop_timeout))
}
pub uninterp spec fn cli_stop_signal() -> Option<Signal>;
pub uninterp spec fn cli_stop_timeout() -> Duration;
#[verifier::external_body]
pub fn vx_quit(action: Handler, env: &mut AEnv) -> (r: Handler)
    requires old(env).quit_again@ < 255,
    ensures quit_effect(old(env), final(env), r, cli_stop_signal(), cli_stop_timeout()), r.sigs == action.sigs,
{ unimplemented!() }
