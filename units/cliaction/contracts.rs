// Contract overlay for unit `cliaction` (C05, C08)
//@ item Signal
//@ item QuitManner
//@ item OnBusyUpdate
//@ item Handler::quit
//@ header
    pub fn quit(&mut self)
        ensures final(self).quit == Some(QuitManner::Abort), final(self).sigs == old(self).sigs, // OBL:C08.handler.quit_requests_abort
//@ item Handler::quit_gracefully
//@ header
    pub fn quit_gracefully(&mut self, signal: Signal, grace: Duration)
        ensures final(self).quit == Some(QuitManner::Graceful { signal, grace }), final(self).sigs == old(self).sigs, // OBL:C08.handler.quit_gracefully_requests_graceful
//@ item normalise_on_busy
//@ header
pub struct EventsArgsS { pub signal: Option<Signal>, pub restart: bool, pub on_busy_update: OnBusyUpdate }
pub fn normalise_on_busy(vx_self: &mut EventsArgsS)
    ensures
        // --signal and -r/--restart are shorthands for the signal and restart modes; otherwise the mode given stands
        old(vx_self).signal is Some ==> final(vx_self).on_busy_update == OnBusyUpdate::Signal, // OBL:C05.normalise.shorthands_select_the_mode
        old(vx_self).signal is None && old(vx_self).restart ==> final(vx_self).on_busy_update == OnBusyUpdate::Restart, // OBL:C05.normalise.shorthands_select_the_mode
        old(vx_self).signal is None && !old(vx_self).restart ==> final(vx_self).on_busy_update == old(vx_self).on_busy_update, // OBL:C05.normalise.shorthands_select_the_mode
        final(vx_self).signal == old(vx_self).signal, final(vx_self).restart == old(vx_self).restart,
//@ item quit_closure
//@ header
pub fn quit_closure(quit_again: &QuitAgainS, stop_signal: Option<Signal>, stop_timeout: Duration, mut action: Handler, env: &mut AEnv) -> (r: Handler)
    requires old(env).quit_again@ < 255,
    ensures
        // first request: graceful with the configured stop signal and timeout; second: forced stop, no grace; further ones: abort
        quit_effect(old(env), final(env), r, stop_signal, stop_timeout), // OBL:C08+C06.cli.quit_escalates_graceful_forced_abort
        r.sigs == action.sigs,
//@ item signal_gate
//@ header
pub fn signal_gate(action: Handler, signal_map: &SignalMap, env: &mut AEnv) -> (r: Handler)
    requires old(env).quit_again@ < 255, action.quit is None,
    ensures
        // an interrupt or terminate signal that is not remapped leads to the quit (and to nothing else)
        ((action.sigs@.contains(Signal::Terminate) && !signal_map.m@.contains_key(Signal::Terminate))
            || (action.sigs@.contains(Signal::Interrupt) && !signal_map.m@.contains_key(Signal::Interrupt)))
            ==> quit_effect(old(env), final(env), r, cli_stop_signal(), cli_stop_timeout()), // OBL:C08.cli.unmapped_interrupt_or_terminate_quits
        !((action.sigs@.contains(Signal::Terminate) && !signal_map.m@.contains_key(Signal::Terminate))
            || (action.sigs@.contains(Signal::Interrupt) && !signal_map.m@.contains_key(Signal::Interrupt)))
            ==> r.quit is None && *final(env) == *old(env), // OBL:C08.cli.unmapped_interrupt_or_terminate_quits
//@ epilogue
    action
//@ item event_gate
//@ header
// the gate in front of the run / on-busy logic: an action goes on to it exactly when it carries a filesystem change (an event naming a path) or a
// synthetic empty event (the start-up event); anything else (signals only, keyboard, ...) is handed back without starting anything
pub fn event_gate(action: Handler) -> (r: GateOut)
    ensures
        r.skipped == (!action.has_path@ && !action.has_empty@), // OBL:C05.event_gate.changes_and_the_start_up_event_go_on_to_the_run_logic
        r.action == action,
//@ epilogue
    vx_go_on(action)
//@ item queue_task
//@ header
pub fn queue_task(job: Job, queued: QueuedS, env: &mut AEnv)
    requires old(env).queued@,
    ensures
        // waits for the current run to end, then starts exactly one further run and re-arms the queue flag
        final(env).log@ =~= old(env).log@ + seq![Act::Send(Ctl::ToWait), Act::Await(Ctl::ToWait), Act::Send(Ctl::Start), Act::Send(Ctl::RunSetup), Act::Await(Ctl::RunSetup)], // OBL:C05.queue_task.one_further_run_after_the_current_one_ends
        // the flag is cleared, and not before the current run has ended (else a second follow-up could be queued for the same run)
        !final(env).queued@ && final(env).cleared_at@ >= old(env).log@.len() + 2, // OBL:C05.queue_task.flag_cleared_only_after_the_current_run_ended
//@ item on_busy
//@ header
pub fn on_busy(job: Job, is_running: bool, on_busy: OnBusyUpdate, stop_signal: Option<Signal>, signal: Option<Signal>, stop_timeout: Duration, queued: QueuedS, env: &mut AEnv)
    ensures
        final(env).log@ =~= old(env).log@ + on_busy_acts(is_running, on_busy, stop_signal, signal, stop_timeout, old(env).queued@), // OBL:C05.on_busy.acts_as_documented_per_mode
        final(env).queued@ == (old(env).queued@ || (is_running && on_busy == OnBusyUpdate::Queue)), // OBL:C05.on_busy.queues_at_most_one_follow_up
        final(env).quit_again == old(env).quit_again,
//@ end
