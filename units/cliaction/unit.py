# unit `cliaction`: the CLI's action handler pieces (crates/cli/src/config.rs), flag shorthands (args/events.rs), Handler quit setters — serves C05, C08
C = "crates/cli/src/config.rs"
SETUP = "move |context| {\n clear_screen();\n setup_process(\n innerjob.clone(),\n context.command.clone(),\n outflags,\n );\n }"
UNIT = dict(
    name="cliaction",
    prelude=["cliaction_env.rs"],
    spec=["spec.rs"],
    rules=dict(
        await_mark=True,
        env_methods=["start", "signal", "restart", "restart_with_signal", "run", "to_wait", "stop", "stop_with_signal", "try_restart", "try_restart_with_signal", "delete", "fetch_or", "store", "fetch_add", "vx_awaited"],
        env_paths=["vx_spawn", "vx_quit"],
        subst=[("ActionHandler", "Handler")],
    ),
    structural=[
        dict(id="C05.structure.first_run_unless_postponed", file="crates/cli/src/lib.rs", count_in_fn="run_watchexec", pattern="if !args.events.postpone {", expect=1,
             why="the first run happens at start-up unless --postpone: the start-up event is sent under exactly this condition"),
        dict(id="C05.structure.start_up_event_is_empty_and_urgent", file="crates/cli/src/lib.rs", count_in_fn="run_watchexec", pattern="wx.send_event(Event::default(), Priority::Urgent)", expect=1,
             why="one empty urgent event (it by-passes the filterer and the debounce) starts the first run"),
        dict(id="C05.structure.postpone_read_once", file="crates/cli/src/lib.rs", count_in_fn="run_watchexec", pattern="postpone", expect=1, why="see above"),
    ],
    extract=[
        dict(id="Signal", kind="type", src="crates/signals/src/lib.rs", name="Signal", structural=True),
        dict(id="QuitManner", kind="type", src="crates/lib/src/action/quit.rs", name="QuitManner", structural=True),
        dict(id="OnBusyUpdate", kind="type", src="crates/cli/src/args/events.rs", name="OnBusyUpdate"),
        dict(id="Handler::quit", kind="fn", src="crates/lib/src/action/handler.rs", impl="impl Handler", name="quit"),
        dict(id="Handler::quit_gracefully", kind="fn", src="crates/lib/src/action/handler.rs", impl="impl Handler", name="quit_gracefully"),
        dict(id="normalise_on_busy", kind="block", src="crates/cli/src/args/events.rs", within="normalise", stmts_from="@start",
             stmts_to="if command.no_environment", free=["self"], rules=dict(pre_subst=[("self.", "vx_self.")])),
        dict(id="quit_closure", kind="block", src=C, within="make_config", after="let quit = |mut action: ActionHandler|",
             free=["quit_again", "stop_signal", "stop_timeout", "action"], extra_bound=["action"]),
        dict(id="signal_gate", kind="block", src=C, within="make_config", stmts_from="let signals: Vec<Signal> = action.signals().collect();",
             stmts_to="for signal in signals", free=["action", "signal_map", "show_events", "quit"], extra_bound=["action"],
             rules=dict(pre_subst=[("action.signals().collect()", "action.vx_signals()"), ("show_events();", ""), ("return quit(action);", "return vx_quit(action);")])),
        dict(id="event_gate", kind="block", src=C, within="make_config", stmts_from="if action.paths().next().is_none()", stmts_to="if let Some(delay) = delay_run",
             free=["action", "show_events"], extra_bound=["action"],
             rules=dict(pre_subst=[("action.paths().next().is_none()", "action.vx_no_paths()"), ("action.events.iter().any(watchexec_events::Event::is_empty)", "action.vx_any_empty()"),
                                   ("show_events();", ""), ("return action;", "return vx_skip(action);")])),
        dict(id="queue_task", kind="block", src=C, within="make_config", after=["tokio::spawn(", "async move"],
             free=["job", "queued", "innerjob", "clear_screen", "outflags"], rules=dict(pre_subst=[(SETUP, "VxSetup")])),
        dict(id="on_busy", kind="block", src=C, within="make_config", after="let is_running = matches!(context.current, CommandState::Running { .. }); Box::new(async move",
             free=["job", "is_running", "on_busy", "stop_signal", "signal", "stop_timeout", "queued", "clear_screen", "outflags"],
             rules=dict(outline=[("vx_spawn(", "VxQueueTask", "keep_anchor")], pre_subst=[(SETUP, "VxSetup"), ("tokio::spawn(", "vx_spawn(")])),
    ],
)
