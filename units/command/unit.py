# unit `command`: crates/supervisor/src/command — serves C18
C = "crates/supervisor/src/command"
UNIT = dict(
    name="command",
    prelude=["command_env.rs"],
    spec=["spec.rs"],
    rules=dict(
        subst=[
            ("PathBuf", "OsS"), ("String", "OsS"), ("Cow<'static, OsStr>", "OsS"),
            ("process_wrap::tokio::ProcessSession", "ProcessSession"),
            ("process_wrap::tokio::ProcessGroup::leader()", "ProcessGroup::leader()"),
            ("process_wrap::tokio::ResetSigmask", "ResetSigmask"),
        ],
    ),
    extract=[
        dict(id="SpawnOptions", kind="type", src=C + ".rs", name="SpawnOptions", drop_derive=["PartialEq", "Eq"]),
        dict(id="Shell", kind="type", src=C + "/shell.rs", name="Shell", drop_derive=["Clone", "PartialEq", "Eq"]),
        dict(id="Program", kind="type", src=C + "/program.rs", name="Program", drop_derive=["Clone", "PartialEq", "Eq"]),
        dict(id="Command", kind="type", src=C + ".rs", name="Command", drop_derive=["Clone", "PartialEq", "Eq"]),
        dict(id="WrapMode", kind="type", src="crates/cli/src/args/command.rs", name="WrapMode"),
        dict(id="interpret_tail", kind="block", src="crates/cli/src/config.rs", within="interpret_command_args",
             stmts_from="let program = if let Some(shell) = shell", free=["args", "cmd", "shell"],
             rules=dict(pre_subst=[('cmd.join(" ")', "vx_join_space(&cmd)"), ("cmd.remove(0).into()", "cmd.remove(0)"), ("Arc::new(", "vx_arc(")])),
        dict(id="Command::to_spawnable", kind="fn", src=C + "/conversions.rs", impl="impl Command", name="to_spawnable"),
    ],
)
