# unit `command`: crates/supervisor/src/command — serves C18
C = "crates/supervisor/src/command"
UNIT = dict(
    name="command",
    prelude=["command_env.rs"],
    spec=["spec.rs"],
    rules=dict(
        subst=[
            ("PathBuf", "OsS"), ("String", "OsS"), ("Cow<'static, OsStr>", "OsS"),
            ("process_wrap::tokio::ProcessSession", "ProcessSession"),
            ("process_wrap::tokio::ProcessGroup::leader()", "ProcessGroup::leader()"),
            ("process_wrap::tokio::ResetSigmask", "ResetSigmask"),
        ],
    ),
    # the shell-selection head of interpret_command_args is string code outside the extraction subset: its two precedence decisions are pinned
    # structurally and exercised on the real binary (replay/cli_argv.py, with and without $SHELL set)
    structural=[
        dict(id="C18.structure.no_shell_flag_comes_first", file="crates/cli/src/config.rs", count_in_fn="interpret_command_args", pattern="let shell = if args.command.no_shell { None } else {", expect=1,
             why="-n means no shell, whatever --shell or $SHELL say"),
        dict(id="C18.structure.an_explicit_shell_wins_over_the_environment", file="crates/cli/src/config.rs", count_in_fn="interpret_command_args",
             pattern="let shell = args.command.shell.clone().or_else(|| var(\"SHELL\").ok());", expect=1,
             why="--shell (including --shell=none: arguments byte for byte) is not overridden by $SHELL, which is only the fallback"),
        dict(id="C18.structure.words_after_the_double_dash_get_their_at_sign_back", file="crates/cli/src/args.rs", count_in_fn="expand_args_up_to_doubledash",
             pattern="while let Some(next) = todo.pop_front() { expanded_args.push(match next { Argument::PassThrough(arg) => arg, Argument::Path(path) => { let path = path.as_os_str(); let mut restored = OsString::with_capacity(path.len() + 1); restored.push(OsStr::new(\"@\")); restored.push(path); restored } }); }", expect=1,
             why="every command-line word is first parsed as a possible @argfile, which strips a leading `@`; the words after `--` (the command) are not argfiles and must be handed on byte for byte, `@` included (string code outside the extraction subset; exercised by replay/cli_argv.py with `@`-prefixed arguments)"),
        dict(id="C18.structure.the_environment_shell_is_read_once", file="crates/cli/src/config.rs", count_in_fn="interpret_command_args", pattern="var(\"SHELL\")", expect=1, why="see above"),
    ],
    extract=[
        dict(id="SpawnOptions", kind="type", src=C + ".rs", name="SpawnOptions", drop_derive=["PartialEq", "Eq"]),
        dict(id="Shell", kind="type", src=C + "/shell.rs", name="Shell", drop_derive=["Clone", "PartialEq", "Eq"]),
        dict(id="Program", kind="type", src=C + "/program.rs", name="Program", drop_derive=["Clone", "PartialEq", "Eq"]),
        dict(id="Command", kind="type", src=C + ".rs", name="Command", drop_derive=["Clone", "PartialEq", "Eq"]),
        dict(id="WrapMode", kind="type", src="crates/cli/src/args/command.rs", name="WrapMode"),
        dict(id="interpret_tail", kind="block", src="crates/cli/src/config.rs", within="interpret_command_args",
             stmts_from="let program = if let Some(shell) = shell", free=["args", "cmd", "shell"],
             rules=dict(pre_subst=[('cmd.join(" ")', "vx_join_space(&cmd)"), ("cmd.remove(0).into()", "cmd.remove(0)"), ("Arc::new(", "vx_arc(")])),
        dict(id="Command::to_spawnable", kind="fn", src=C + "/conversions.rs", impl="impl Command", name="to_spawnable"),
    ],
)
