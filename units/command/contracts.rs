// Contract overlay for unit `command` (C18)
//@ item SpawnOptions
//@ item Shell
//@ item Program
//@ item Command
//@ item SpawnOptionsDefault
//@ raw
// #[derive(Default)] on SpawnOptions: all flags false (ASSUMED: what derive(Default) generates for bool fields)
impl Default for SpawnOptions {
    fn default() -> (r: Self) ensures !r.grouped && !r.session && !r.reset_sigmask { SpawnOptions { grouped: false, session: false, reset_sigmask: false } }
}
//@ item WrapMode
//@ item interpret_tail
//@ header
// tail of interpret_command_args (from `let program = ..`): how the command words and the chosen shell become a Command.
// requires: the `assert!(!cmd.is_empty())` at the head of the function
fn interpret_tail(args: &Args, mut cmd: Vec<OsS>, shell: Option<Shell>) -> (r: Result<Command, ()>)
    requires cmd@.len() > 0,
    ensures
        r is Ok,
        // no shell: the first word is the program, the remaining words are its arguments, unchanged and in order
        shell is None ==> r->Ok_0.program is Exec && expected_argv(r->Ok_0.program) =~= ids(cmd@), // OBL:C18.interpret.no_shell_words_become_program_and_arguments
        // shell: the words joined by single spaces are the command string; no extra arguments
        shell is Some ==> r->Ok_0.program is Shell && r->Ok_0.program->Shell_shell == shell->Some_0
            && r->Ok_0.program->Shell_command.id == joined_with_space(ids(cmd@)) && r->Ok_0.program->Shell_args@.len() == 0, // OBL:C18.interpret.shell_command_is_the_joined_words
        r->Ok_0.options.grouped == (args.command.wrap_process is Group) && r->Ok_0.options.session == (args.command.wrap_process is Session)
            && !r->Ok_0.options.reset_sigmask, // OBL:C18.interpret.wrap_mode_selects_group_or_session
//@ item Command::to_spawnable
//@ header
pub fn to_spawnable(&self) -> (r: TokioCommandWrap)
    ensures
        r.argv@ =~= expected_argv(self.program), // OBL:C18.to_spawnable.exact_program_and_arguments_in_order
        r.wrappers@ =~= expected_wrappers(self.options), // OBL:C18+C08+C04.to_spawnable.group_session_and_sigmask_wrappers
//@ loop 0 iter=vx_it
let ghost vx_base = c.argv@; let ghost vx_args = ids(args@);
invariant
    0 <= vx_it.index@ <= args@.len(), vx_it.seq().len() == args@.len(), vx_args == ids(args@),
    forall|i: int| 0 <= i < args@.len() ==> (#[trigger] vx_it.seq()[i]).id == args@[i].id,
    c.argv@ =~= vx_base + vx_args.subrange(0, vx_it.index@ as int), // OBL:C18.to_spawnable.inv_extra_arguments_appended_in_order
//@ end
