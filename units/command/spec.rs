// spec for unit `command` (C18), from the property statement
pub open spec fn opt_seq(o: Option<OsS>) -> Seq<int> { match o { Some(x) => seq![x.id], None => Seq::<int>::empty() } }
// "without a shell the child receives the program and every argument byte for byte; with a shell it is invoked as the shell, its options,
// the program option, the command string, then the extra arguments, in that order"
pub open spec fn expected_argv(p: Program) -> Seq<int> {
    match p {
        Program::Exec { prog, args } => seq![prog.id] + ids(args@),
        Program::Shell { shell, command, args } => seq![shell.prog.id] + ids(shell.options@) + opt_seq(shell.program_option) + seq![command.id] + ids(args@),
    }
}
// "process-group and session options place the child in its own group or session" (+ kill-on-drop always, signal-mask reset on request)
pub open spec fn expected_wrappers(o: SpawnOptions) -> Seq<WrapKind> {
    seq![WrapKind::KillOnDrop]
        + (if o.session { seq![WrapKind::ProcessSession] } else if o.grouped { seq![WrapKind::ProcessGroupLeader] } else { Seq::<WrapKind>::empty() })
        + (if o.reset_sigmask { seq![WrapKind::ResetSigmask] } else { Seq::<WrapKind>::empty() })
}
