// spec for unit maintask (C08, C15)
