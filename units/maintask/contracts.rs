// Contract overlay for unit `maintask`
//@ item main_loop
//@ header
#[verifier::exec_allows_no_decreases_clause]
#[verifier::loop_isolation(false)]
pub fn main_loop(mut tasks: JoinSetS, ev_s: EvTx, env: &mut MEnv) -> (r: Result<(), CriticalError>)
    requires !old(env).action_ended@, !old(env).shut_down@, !old(env).crit_seen@, !old(env).exit_seen@,
    ensures
        // a critical error raised by any worker (other than the graceful-exit request) ends the main task with that error
        r is Err ==> !(r->Err_0 is Exit), // OBL:C15.main_task.ends_with_the_critical_error_raised
        r is Ok ==> !final(env).crit_seen@, // OBL:C15.main_task.ends_with_the_critical_error_raised
        // a normal end shuts every other worker down first
        r is Ok ==> final(env).shut_down@, // OBL:C08.main_task.shuts_the_other_workers_down
//@ loop 0
invariant
    !env.action_ended@, !env.shut_down@, // OBL:C08.main_task.ends_as_soon_as_the_action_worker_returns
    // the loop never goes on after a worker has raised a critical error
    !env.crit_seen@, // OBL:C15.main_task.ends_with_the_critical_error_raised
    // a graceful-exit request raised through the error path closes the event queue, which ends the action worker and with it the main task
    env.exit_seen@ ==> env.events_closed@, // OBL:C15+C08.main_task.a_graceful_exit_request_closes_the_event_queue
//@ end
