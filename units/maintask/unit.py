# unit `maintask`: crates/lib/src/watchexec.rs — the main task's supervision loop; serves C08 (ends when the action worker returns) and C15 (a critical error ends it)
F = "crates/lib/src/watchexec.rs"
UNIT = dict(
    name="maintask",
    prelude=["maintask_env.rs"],
    spec=["spec.rs"],
    rules=dict(
        env_methods=["join_next", "shutdown", "close"],
        pre_subst=[('Ok("action") =>', "Ok(task) if task.is_action() =>")],
    ),
    extract=[
        dict(id="main_loop", kind="block", src=F, within="with_config", stmts_from="while let Some(Ok(res)) = tasks.join_next().await", stmts_to="});", stmts_to_exact=True,
             free=["tasks", "ev_s"]),
    ],
)
