# unit `maintask`: crates/lib/src/watchexec.rs — the main task's supervision loop; serves C08 (ends when the action worker returns) and C15 (a critical error ends it)
F = "crates/lib/src/watchexec.rs"
UNIT = dict(
    name="maintask",
    prelude=["maintask_env.rs"],
    spec=["spec.rs"],
    rules=dict(
        env_methods=["join_next", "shutdown", "close"],
        pre_subst=[('Ok("action") =>', "Ok(task) if task.is_action() =>")],
    ),
    structural=[
        # the wiring of the five workers: one event queue (ev_s -> ev_r), one error channel (er_s -> er_r), the shared configuration
        dict(id="C01+C08+C15.structure.action_worker_reads_the_one_event_queue", file=F, impl="impl Watchexec", count_in_fn="with_config",
             pattern='tasks.spawn(action::worker(config.clone(), er_s.clone(), ev_r).map_ok(|()| "action"));', expect=1,
             why="the action worker consumes the receiving end of the queue every source sends to, reports to the one error channel, and is the task named \"action\" whose end stops the main task"),
        dict(id="C01+C13+C15.structure.fs_worker_is_wired_to_the_event_queue_and_the_error_channel", file=F, impl="impl Watchexec", count_in_fn="with_config",
             pattern='tasks.spawn(fs::worker(config.clone(), er_s.clone(), ev_s.clone()).map_ok(|()| "fs"));', expect=1, why="see above"),
        dict(id="C01+C15.structure.signal_worker_is_wired_to_the_event_queue_and_the_error_channel", file=F, impl="impl Watchexec", count_in_fn="with_config",
             pattern='signal::worker(config.clone(), er_s.clone(), ev_s.clone()).map_ok(|()| "signal"),', expect=1, why="see above"),
        dict(id="C01+C13+C15.structure.keyboard_worker_is_wired_to_the_event_queue_and_the_error_channel", file=F, impl="impl Watchexec", count_in_fn="with_config",
             pattern='keyboard::worker(config.clone(), er_s.clone(), ev_s.clone()) .map_ok(|()| "keyboard"),', expect=1, why="see above"),
        dict(id="C15.structure.error_hook_reads_the_one_error_channel_with_the_configured_handler_cell", file=F, impl="impl Watchexec", count_in_fn="with_config",
             pattern='tasks.spawn(error_hook(er_r, config.error_handler.clone()).map_ok(|()| "error"));', expect=1,
             why="every worker's errors reach the error hook, which calls the configuration's handler cell (a clone of a cell is that cell: unit cfgwatch)"),
        dict(id="C01+C15.structure.one_event_queue_and_one_error_channel", file=F, impl="impl Watchexec", count_in_fn="with_config", token_regex=r"bounded|channel", expect=2,
             why="exactly one priority::bounded(..) and one mpsc::channel(..) are created"),
        dict(id="C01.structure.send_event_feeds_that_queue", file=F, impl="impl Watchexec", count_in_fn="with_config", pattern="let event_input = ev_s.clone();", expect=1,
             why="Watchexec::send_event (proved in unit sources) sends to a clone of the same sender"),
    ],
    extract=[
        dict(id="main_loop", kind="block", src=F, within="with_config", stmts_from="while let Some(Ok(res)) = tasks.join_next().await", stmts_to="});", stmts_to_exact=True,
             free=["tasks", "ev_s"]),
    ],
)
