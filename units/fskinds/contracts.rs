// Contract overlay for unit `fskinds` (C16)
//@ item AccessMode
//@ item AccessKind
//@ item CreateKind
//@ item DataChange
//@ item MetadataKind
//@ item RenameMode
//@ item ModifyKind
//@ item RemoveKind
//@ item EventKind
//@ item parse_full
//@ header
fn parse_full(full: &StrS) -> (r: EventKind)
    ensures
        // "every filesystem event kind" survives the round trip: the text written for a kind (derive(Debug), C16.structure.the_full_kind_is_written_as_its_debug_text) parses back to that kind
        forall|k: EventKind| *full == debug_name(k) ==> r == k, // OBL:C16.fs_kind.every_kind_parses_back_from_the_text_written_for_it
//@ prologue
broadcast use axiom_lit_injective;
//@ end
