// Contract overlay for unit `fskinds` (C16)
//@ item AccessMode
//@ item AccessKind
//@ item CreateKind
//@ item DataChange
//@ item MetadataKind
//@ item RenameMode
//@ item ModifyKind
//@ item RemoveKind
//@ item EventKind
//@ item FsEventKind
//@ item FsEventKind::from
//@ header
fn from(value: EventKind) -> (r: Self)
    ensures
        // the `simple` field written next to `full` is the class of the kind
        (r is Access) == (value is Access) && (r is Create) == (value is Create) && (r is Modify) == (value is Modify) && (r is Remove) == (value is Remove)
            && (r is Other) == (value is Any || value is Other), // OBL:C16.fs_kind.simple_is_the_class_of_the_kind
//@ item simple_to_kind
//@ header
fn simple_to_kind(simple: FsEventKind) -> (r: EventKind)
    ensures
        // a tag of kind fs that carries only `simple` parses to the generic kind of that class (never to a kind of another class)
        (simple is Access ==> r == EventKind::Access(AccessKind::Any)) && (simple is Create ==> r == EventKind::Create(CreateKind::Any))
            && (simple is Modify ==> r == EventKind::Modify(ModifyKind::Any)) && (simple is Remove ==> r == EventKind::Remove(RemoveKind::Any))
            && (simple is Other ==> r == EventKind::Other), // OBL:C16.fs_kind.simple_alone_parses_to_the_generic_kind_of_its_class
//@ item parse_full
//@ header
fn parse_full(full: &StrS) -> (r: EventKind)
    ensures
        // "every filesystem event kind" survives the round trip: the text written for a kind (derive(Debug), C16.structure.the_full_kind_is_written_as_its_debug_text) parses back to that kind
        forall|k: EventKind| *full == debug_name(k) ==> r == k, // OBL:C16.fs_kind.every_kind_parses_back_from_the_text_written_for_it
//@ prologue
broadcast use axiom_lit_injective;
//@ end
