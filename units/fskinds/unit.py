# unit `fskinds`: crates/events/src/serde_formats.rs, the filesystem-event-kind name table of the JSON format — serves C16
# The nine kind enums are notify-types' own (re-exported by watchexec-events): their definitions are extracted from the dependency's source in the
# cargo registry on every run (data types only), the 55-row name table is the real `match full.as_str()` of `From<SerdeTag> for Tag`.
import glob, os
F = "crates/events/src/serde_formats.rs"
_c = sorted(glob.glob(os.path.expanduser("~/.cargo/registry/src/*/notify-types-2.0.0/src/event.rs")))
N = _c[0] if _c else "/nonexistent/notify-types-2.0.0/src/event.rs"
ENUMS = ["AccessMode", "AccessKind", "CreateKind", "DataChange", "MetadataKind", "RenameMode", "ModifyKind", "RemoveKind", "EventKind"]

def gen_debug_name(build, R):
    """spec twin of `#[derive(Debug)]` on the extracted enums (documented meaning: a unit variant prints its name, a tuple variant `Name(inner)`):
       debug_name(k) for every value of EventKind, as interned string literals; all_kinds() enumerates the values"""
    src = build.Source.get(N)
    t, m = src.toks, src.m
    defs = {}
    for name in ENUMS:
        s, e = R.find_type(t, m, name)
        i = s
        while t[i].s != "{": i += 1
        close = m[i]
        vs = []
        k = i + 1
        while k < close:
            if t[k].s == "#":            # attribute on a variant
                k = m[k + 1] + 1; continue
            if t[k].k == "id":
                v = t[k].s; payload = None
                if t[k + 1].s == "(":
                    payload = t[k + 2].s; k = m[k + 1]
                vs.append((v, payload))
            k += 1
        if not vs: raise R.ExtractError("gen_debug_name: no variants found for %s" % name)
        defs[name] = vs
    def values(name):
        out = []
        for v, payload in defs[name]:
            if payload is None: out.append(("%s::%s" % (name, v), v))
            else:
                if payload not in defs: raise R.ExtractError("gen_debug_name: payload type %s of %s::%s is not one of the kind enums" % (payload, name, v))
                for expr, text in values(payload): out.append(("%s::%s(%s)" % (name, v, expr), "%s(%s)" % (v, text)))
        return out
    vals = values("EventKind")
    arms = "\n".join("        %s => lit(%d), // %s" % (expr, R.lit_id(text), text) for expr, text in vals)
    return ("// GENERATED from the extracted enum definitions: the text derive(Debug) prints for each of the %d values of EventKind\n"
            "pub open spec fn debug_name(k: EventKind) -> StrS {\n    match k {\n%s\n    }\n}\n" % (len(vals), arms))

UNIT = dict(
    name="fskinds",
    gen_spec=[gen_debug_name],
    prelude=["names_env.rs"],
    spec=[],
    rules=dict(strmatch=True),
    structural=[
        dict(id="C16.structure.the_full_kind_is_written_as_its_debug_text", file=F, impl="impl From<Tag> for SerdeTag", count_in_fn="from",
             pattern='Tag::FileEventKind(fek) => Self { kind: TagKind::Fs, full: Some(format!("{fek:?}")), simple: Some(fek.into()), ..Default::default() },', expect=1,
             why="a filesystem kind is serialised as kind fs with `full` = the text derive(Debug) prints for it (the name table below is proved to parse exactly that text back)"),
        dict(id="C16.structure.the_full_kind_is_parsed_by_the_name_table", file=F, impl="impl From<SerdeTag> for Tag", count_in_fn="from",
             pattern="SerdeTag { kind: TagKind::Fs, full: Some(full), .. } => Self::FileEventKind(match full.as_str() {", expect=1,
             why="a tag of kind fs that carries `full` is parsed by the name table, whatever `simple` says"),
    ],
    extract=[dict(id=n, kind="type", src=N, name=n, structural=True) for n in ENUMS] + [
        dict(id="FsEventKind", kind="type", src=F, name="FsEventKind"),
        dict(id="FsEventKind::from", kind="fn", src=F, impl="impl From<EventKind> for FsEventKind", name="from", emit_impl="impl FsEventKind"),
        dict(id="simple_to_kind", kind="block", src=F, within="from", within_nth=2, expr_from="match simple", extra_bound=["simple"], free=["simple"]),
        dict(id="parse_full", kind="block", src=F, within="from", within_nth=2, expr_from="match full.as_str()", extra_bound=["full"], free=["full"]),
    ],
)
