// Contract overlay for unit `actionloop`
//@ item Signal
//@ item QuitManner
//@ item Handler::new
//@ header
    pub fn new(events: ArcEvents, jobs: JobMap) -> (r: Handler)
        // a fresh action: the batch it is about, no new job yet, no quit requested
        ensures r.events.v == events.v, r.new@.len() == 0, r.quit is None, // OBL:C01+C08.handler_new.carries_the_batch_and_asks_nothing
//@ item quit_job_task
//@ header
pub fn quit_job_task(job: Job, signal: Signal, grace: Duration, env: &mut JEnv)
    ensures
        // the graceful stop is sent first, then the delete, and the task ends only when the job has gone
        final(env).log@ =~= old(env).log@ + seq![JAct::StopWithSignal(job, signal, grace), JAct::Delete(job), JAct::AwaitDelete(job)], // OBL:C08+C06.quit_job_task.stops_gracefully_then_deletes_and_waits
//@ item worker
//@ header
#[verifier::exec_allows_no_decreases_clause]
#[verifier::loop_isolation(false)]
#[verifier::allow_complex_invariants]
pub fn worker(config: &ArcConfig, errors: ErrTx, events: EvRx, env: &mut LEnv) -> (r: Result<(), CriticalError>)
    requires batches(old(env).log@) =~= handled(old(env).log@), old(env).created@ =~= Set::<TaskH>::empty(),
    ensures
        // every batch that throttle_collect returned was handed to the action handler exactly once, in order, and nothing else was
        batches(final(env).log@) =~= handled(final(env).log@), // OBL:C01+C02+C08.worker.each_batch_goes_to_the_handler_exactly_once
//@ prologue
    broadcast use lemma_batches_push, lemma_handled_push;
    let ghost mut quit_seen: Option<QuitManner> = None;
    let ghost mut log_at_quit: Seq<LAct> = Seq::empty();
    let ghost mut jobs_at_quit: Map<Id, Job> = Map::empty();
    let ghost mut drained: Seq<(Id, Job)> = Seq::empty();
    let ghost mut adopted: Set<TaskH> = Set::empty();      // the tasks of all jobs taken over so far
    let ghost mut newjobs: Seq<(Id, (Job, TaskH))> = Seq::empty();   // the jobs the current action created
//@ loop 0
invariant_except_break
    quit_seen is None,
invariant
    batches(env.log@) =~= handled(env.log@), // OBL:C01+C02+C08.worker.each_batch_goes_to_the_handler_exactly_once
    jobtasks.tasks@ =~= adopted && jobtasks.quit_tasks@ == 0, // OBL:C08.worker.job_tasks_are_all_kept_for_the_final_join
    adopted =~= env.created@, // OBL:C08+C06.worker.every_created_job_is_held_by_the_worker
after:
// (a non-isolated loop's `ensures` is neither checked nor assumed by Verus: every way out of the loop continues here)
proof {
    if let Some(QuitManner::Graceful { signal, grace }) = quit_seen {
        let sp = spawns(drained, drained.len() as int, signal, grace);
        let l1 = log_at_quit + sp;
        lemma_push_many(log_at_quit, sp);
        lemma_push(l1, LAct::JoinAll(drained.len(), Set::<TaskH>::empty()));
        lemma_push(l1.push(LAct::JoinAll(drained.len(), Set::<TaskH>::empty())), LAct::JoinAll(0, adopted));
    }
    // the loop ends only because the event channel is closed or the handler asked to quit
    assert(quit_seen is None ==> env.closed@); // OBL:C08.worker.ends_only_on_quit_or_closed_channel
    // abort: nothing more is done (the job tasks are aborted and their children killed when the sets are dropped: LateJoinSet::drop, kill_on_drop)
    assert(quit_seen == Some(QuitManner::Abort) ==> env.log@ == log_at_quit); // OBL:C08.worker.abort_quits_at_once
    // graceful: every job is stopped with the requested signal and grace and deleted, and the worker waits for all of it
    assert(forall|signal: Signal, grace: Duration| quit_seen == Some(QuitManner::Graceful { signal, grace }) ==> graceful_quit_done(log_at_quit, env.log@, drained, jobs_at_quit, adopted, signal, grace)); // OBL:C08+C06.worker.graceful_quit_stops_every_job_and_waits_for_all
}
//@ loop over `action.new`
let ghost ad0 = adopted; let ghost jm0 = jobs.m@;
invariant
    0 <= $IT.pos@ <= $IT.v@.len(), $IT.v@ == newjobs,
    jobtasks.tasks@ =~= adopted && jobtasks.quit_tasks@ == 0, // OBL:C08.worker.job_tasks_are_all_kept_for_the_final_join
    adopted =~= ad0.union(tasks_of(newjobs, $IT.pos@)), // OBL:C08+C06.worker.every_created_job_is_held_by_the_worker
    forall|i: int| 0 <= i < $IT.pos@ ==> jobs.m@.contains_key((#[trigger] newjobs[i]).0) && jobs.m@[newjobs[i].0] == newjobs[i].1.0, // OBL:C08+C06.worker.every_created_job_is_held_by_the_worker
body_end:
proof { adopted = adopted.insert(task); }
//@ loop over `jobs.drain()`
let ghost dr = $IT.v@;
proof { drained = dr; }
invariant
    0 <= $IT.pos@ <= $IT.v@.len(), $IT.v@ == dr,
    env.log@ =~= log_at_quit + spawns(dr, $IT.pos@, signal, grace), // OBL:C08+C06.worker.graceful_quit_stops_every_job_and_waits_for_all
    tasks.quit_tasks@ == $IT.pos@, tasks.tasks@ =~= Set::<TaskH>::empty(),
    env.closed@ == false || true,
ensures
    $IT.pos@ == $IT.v@.len(),
//@ loop over `gc`
invariant
    0 <= $IT.pos@ <= $IT.v@.len(),
//@ hint after `ActionReturn::Async(action) => (action), };`
proof { newjobs = action.new@; }
//@ hint after `if let Some(manner) = action.quit {`
proof {
    quit_seen = Some(manner); log_at_quit = env.log@; jobs_at_quit = jobs.m@;
    // a quit requested in the very action that created a job covers that job too: it is in the map (so it is stopped and deleted) and its task
    // is in the set that is joined (or aborted when the set is dropped)
    assert(adopted =~= env.created@); // OBL:C08+C06.worker.every_created_job_is_held_by_the_worker
    assert(forall|i: int| 0 <= i < newjobs.len() ==> jobs.m@.contains_key((#[trigger] newjobs[i]).0) && jobs.m@[newjobs[i].0] == newjobs[i].1.0); // OBL:C08+C06.worker.every_created_job_is_held_by_the_worker
}
//@ end
