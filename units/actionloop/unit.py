# unit `actionloop`: crates/lib/src/action/worker.rs::worker — serves C08 (quit), C01/C02 (each batch goes to the handler exactly once)
W = "crates/lib/src/action/worker.rs"
GC = "jobs\n\t\t\t.iter()\n\t\t\t.filter_map(|(id, job)| {\n\t\t\t\tif job.is_dead() {\n\t\t\t\t\tSome(*id)\n\t\t\t\t} else {\n\t\t\t\t\tNone\n\t\t\t\t}\n\t\t\t})\n\t\t\t.collect()"
UNIT = dict(
    name="actionloop",
    prelude=["actionloop_env.rs"],
    spec=["spec.rs"],
    rules=dict(
        env_methods=["call", "spawn", "join_all", "stop_with_signal", "delete", "delete_now", "stop", "signal", "vx_awaited"],
        env_paths=["throttle_collect"],
        question=True,
        subst=[("HashMap::<Id, Job>::new()", "JobMap::new()"), ("Arc<Config>", "&ArcConfig"), ("mpsc::Sender<RuntimeError>", "ErrTx"), ("priority::Receiver<Event, Priority>", "EvRx")],
    ),
    extract=[
        dict(id="Signal", kind="type", src="crates/signals/src/lib.rs", name="Signal", structural=True),
        dict(id="QuitManner", kind="type", src="crates/lib/src/action/quit.rs", name="QuitManner", structural=True),
        dict(id="Handler::new", kind="fn", src="crates/lib/src/action/handler.rs", impl="impl Handler", name="new",
             rules=dict(subst=[("Arc<[Event]>", "ArcEvents"), ("HashMap<Id, Job>", "JobMap"), ("HashMap::new()", "Vec::new()")])),
        dict(id="quit_job_task", kind="block", src=W, within="worker", after="tasks.spawn(async move", free=["job", "signal", "grace"],
             rules=dict(await_mark=True)),
        dict(id="worker", kind="fn", src=W, name="worker",
             rules=dict(for_desugar=[0, 1, 2],
                        outline=[("tasks.spawn(async", "VxQuitJobTask { job, signal, grace }")],
                        pre_subst=[("Arc::from(take(&mut set).into_boxed_slice())", "vx_arc_events(&mut set)"), (GC, "vx_dead_jobs(&jobs)"),
                                   ("let events: Arc<[Event]> =", "let events: ArcEvents ="), ("config.clone()", "config"), ("let mut tasks = LateJoinSet::default();", "let mut tasks = LateJoinSet::default();")])),
    ],
)
