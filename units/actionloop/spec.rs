// spec for unit `actionloop` (C08; C01/C02 hand-over)
pub open spec fn batches(l: Seq<LAct>) -> Seq<Seq<int>> decreases l.len() {
    if l.len() == 0 { Seq::empty() } else { match l.last() { LAct::Batch(b) => batches(l.drop_last()).push(b), _ => batches(l.drop_last()) } }
}
pub open spec fn handled(l: Seq<LAct>) -> Seq<Seq<int>> decreases l.len() {
    if l.len() == 0 { Seq::empty() } else { match l.last() { LAct::Handler(b) => handled(l.drop_last()).push(b), _ => handled(l.drop_last()) } }
}
pub proof fn lemma_push(l: Seq<LAct>, x: LAct)
    ensures batches(l.push(x)) == (match x { LAct::Batch(b) => batches(l).push(b), _ => batches(l) }),
            handled(l.push(x)) == (match x { LAct::Handler(b) => handled(l).push(b), _ => handled(l) }),
{
    assert(l.push(x).drop_last() =~= l);
    assert(l.push(x).last() == x);
}
pub broadcast proof fn lemma_batches_push(l: Seq<LAct>, x: LAct)
    ensures #[trigger] batches(l.push(x)) == (match x { LAct::Batch(b) => batches(l).push(b), _ => batches(l) }),
{ lemma_push(l, x); }
pub broadcast proof fn lemma_handled_push(l: Seq<LAct>, x: LAct)
    ensures #[trigger] handled(l.push(x)) == (match x { LAct::Handler(b) => handled(l).push(b), _ => handled(l) }),
{ lemma_push(l, x); }
pub open spec fn spawns(drained: Seq<(Id, Job)>, n: int, signal: Signal, grace: Duration) -> Seq<LAct> {
    Seq::new(n as nat, |i: int| LAct::SpawnQuitTask(drained[i].1, signal, grace))
}
// "graceful quit: stop_with_signal + delete per job, join all, then break"
pub open spec fn graceful_quit_done(log0: Seq<LAct>, log1: Seq<LAct>, drained: Seq<(Id, Job)>, jobs0: Map<Id, Job>, tasks0: Set<TaskH>, signal: Signal, grace: Duration) -> bool {
    // one quit task per job the worker holds, each with the requested signal and grace; then all quit tasks and all job tasks are awaited
    log1 =~= log0 + spawns(drained, drained.len() as int, signal, grace) + seq![LAct::JoinAll(drained.len(), Set::<TaskH>::empty()), LAct::JoinAll(0, tasks0)]
    && (forall|k: Id| #[trigger] jobs0.contains_key(k) ==> 0 <= vx_pos(drained, k) < drained.len() && drained[vx_pos(drained, k)] == (k, jobs0[k]))
}
pub proof fn lemma_push_many(l: Seq<LAct>, m: Seq<LAct>)
    requires forall|i: int| 0 <= i < m.len() ==> !(#[trigger] m[i] is Batch) && !(m[i] is Handler),
    ensures batches(l + m) == batches(l), handled(l + m) == handled(l),
    decreases m.len(),
{
    if m.len() == 0 { assert(l + m =~= l); }
    else {
        lemma_push_many(l, m.drop_last());
        assert(l + m =~= (l + m.drop_last()).push(m.last()));
        lemma_push(l + m.drop_last(), m.last());
    }
}
// the tasks of the first n jobs an action created
pub open spec fn tasks_of(nj: Seq<(Id, (Job, TaskH))>, n: int) -> Set<TaskH> decreases n {
    if n <= 0 { Set::<TaskH>::empty() } else { tasks_of(nj, n - 1).insert(nj[n - 1].1.1) }
}
pub open spec fn tasks_all(nj: Seq<(Id, (Job, TaskH))>) -> Set<TaskH> { tasks_of(nj, nj.len() as int) }
