// spec for unit `ignorebuild` (C03, C14): "each ignore file's patterns are interpreted relative to the directory it applies in"
pub open spec fn node_ok(d: PathS, n: Ignore) -> bool {
    (n.gitignore.root is None || n.gitignore.root == Some(d)) && (n.builder is Some ==> n.builder->Some_0.root == d)
}
pub open spec fn trie_ok(m: Map<PathS, Ignore>) -> bool { forall|d: PathS| m.contains_key(d) ==> node_ok(d, #[trigger] m[d]) }
