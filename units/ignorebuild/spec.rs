// spec for unit `ignorebuild` (C03, C14): "each ignore file's patterns are interpreted relative to the directory it applies in"
pub open spec fn node_ok(d: PathS, n: Ignore) -> bool {
    (n.gitignore.root is None || n.gitignore.root == Some(d)) && (n.builder is Some ==> n.builder->Some_0.root == d)
}
pub open spec fn trie_ok(m: Map<PathS, Ignore>) -> bool { forall|d: PathS| m.contains_key(d) ==> node_ok(d, #[trigger] m[d]) }
// the pattern lines of an ignore file's text: every line that is neither blank nor a comment, in order
pub open spec fn pattern_lines(ls: Seq<LineS>, n: int) -> Seq<LineS> decreases n {
    if n <= 0 { Seq::empty() } else if line_blank(ls[n - 1]) || line_comment(ls[n - 1]) { pattern_lines(ls, n - 1) } else { pattern_lines(ls, n - 1).push(ls[n - 1]) }
}
// what the directory's builder already held (nothing if the directory had no matcher, or one without a builder)
pub open spec fn prior_lines(m: Map<PathS, Ignore>, d: PathS) -> Seq<LineS> {
    if m.contains_key(d) && m[d].builder is Some { builder_lines(m[d].builder->Some_0) } else { Seq::empty() }
}

pub open spec fn has_builder(m: Map<PathS, Ignore>, d: PathS) -> bool { m.contains_key(d) && m[d].builder is Some }
// recompile(d): same directories, d's node keeps its builder and its matcher is built from exactly that builder's lines, every other node unchanged
pub open spec fn recompiled_node(m0: Map<PathS, Ignore>, m1: Map<PathS, Ignore>, d: PathS) -> bool {
    m1.dom() =~= m0.dom() && m1[d].builder == m0[d].builder && matcher_lines(m1[d].gitignore) == builder_lines(m0[d].builder->Some_0)
    && (forall|k: PathS| #[trigger] m0.contains_key(k) && k != d ==> m1[k] == m0[k])
}
