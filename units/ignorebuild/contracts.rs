// Contract overlay for unit `ignorebuild`
//@ item ProjectType
//@ item IgnoreFile
//@ item get_applies_in_path
//@ header
pub fn get_applies_in_path(origin: &PathS, ignore_file: &IgnoreFile) -> (r: PathS)
    // a file found in a directory applies in that directory; a global file applies from the root of the file system
    ensures r == applies_in_of(*origin, ignore_file), // OBL:C03+C14.get_applies_in_path.the_files_own_directory_or_the_root
//@ item Ignore
//@ item IgnoreFilter
//@ item IgnoreFilter::empty
//@ header
    pub fn empty(origin: PathS) -> (r: IgnoreFilter)
        ensures trie_ok(r.ignores.m@) && r.ignores.m@.contains_key(origin) && r.origin == origin, // OBL:C03+C14.empty.origin_matcher_is_rooted_at_the_origin
//@ item add_file_new_node
//@ header
pub fn add_file_new_node(vx_self: &mut IgnoreFilter, applies_in_str: StrS, applies_in: PathS)
    requires trie_ok(old(vx_self).ignores.m@), applies_in_str.of == applies_in,
    ensures
        // a matcher created for a directory that had none is rooted at that directory; everything else is untouched
        trie_ok(final(vx_self).ignores.m@), // OBL:C03+C14.add_file.new_matcher_is_rooted_at_its_own_directory
        final(vx_self).ignores.m@.contains_key(applies_in),
        forall|d: PathS| d != applies_in || old(vx_self).ignores.m@.contains_key(d) ==> final(vx_self).ignores.m@.contains_key(d) == old(vx_self).ignores.m@.contains_key(d)
            && (old(vx_self).ignores.m@.contains_key(d) ==> final(vx_self).ignores.m@[d] == old(vx_self).ignores.m@[d]), // OBL:C03+C14.add_file.other_matchers_untouched
        final(vx_self).origin == old(vx_self).origin,
//@ item add_globs_new_node
//@ header
pub fn add_globs_new_node(vx_self: &mut IgnoreFilter, applies_in_str: StrS, applies_in: PathS)
    requires trie_ok(old(vx_self).ignores.m@), applies_in_str.of == applies_in,
    ensures
        trie_ok(final(vx_self).ignores.m@), // OBL:C03+C14.add_globs.new_matcher_is_rooted_at_its_own_directory
        final(vx_self).ignores.m@.contains_key(applies_in),
        final(vx_self).origin == old(vx_self).origin,
//@ item new_file_body
//@ header
// IgnoreFilter::new, per listed ignore file: its pattern lines are appended, in order, to the matcher of the directory it applies in (created, rooted
// there, if that directory had none), and the recompiled matcher is stored under that directory - for EVERY file, whatever its patterns are
pub fn new_file_body(file: IgnoreFile, content: ContentS, origin: PathS, ignores_trie: &mut TrieS) -> (r: Result<(), Error>)
    requires trie_ok(old(ignores_trie).m@),
    ensures
        trie_ok(final(ignores_trie).m@), // OBL:C03+C14.new.matcher_is_rooted_at_its_own_directory
        r is Ok ==> final(ignores_trie).m@.contains_key(applies_in_of(origin, &file)) && final(ignores_trie).m@[applies_in_of(origin, &file)].builder is Some
            && matcher_lines(final(ignores_trie).m@[applies_in_of(origin, &file)].gitignore)
                == prior_lines(old(ignores_trie).m@, applies_in_of(origin, &file)) + pattern_lines(content.lines@, content.lines@.len() as int)
            && builder_lines(final(ignores_trie).m@[applies_in_of(origin, &file)].builder->Some_0) == matcher_lines(final(ignores_trie).m@[applies_in_of(origin, &file)].gitignore), // OBL:C03.new.every_listed_file_contributes_its_pattern_lines_in_order
        forall|d: PathS| d != applies_in_of(origin, &file) ==> final(ignores_trie).m@.contains_key(d) == old(ignores_trie).m@.contains_key(d)
            && (old(ignores_trie).m@.contains_key(d) ==> final(ignores_trie).m@[d] == old(ignores_trie).m@[d]), // OBL:C03+C14.new.other_matchers_untouched
//@ prologue
let ghost lines0 = prior_lines(ignores_trie.m@, applies_in_of(origin, &file));
//@ epilogue
Ok(())
//@ loop over `content.lines()`
invariant
    0 <= $IT.pos@ <= $IT.v@.len(), $IT.v@ == content.lines@, ignores_trie.m == old(ignores_trie).m, trie_ok(ignores_trie.m@),
    builder.root == applies_in, // OBL:C03+C14.new.matcher_is_rooted_at_its_own_directory
    builder_lines(builder) == lines0 + pattern_lines(content.lines@, $IT.pos@), // OBL:C03.new.every_listed_file_contributes_its_pattern_lines_in_order
ensures
    $IT.pos@ == $IT.v@.len(), // OBL:C03.new.every_listed_file_contributes_its_pattern_lines_in_order
decreases $IT.v@.len() - $IT.pos@
//@ item IgnoreFilter::recompile
//@ header
    pub fn recompile(&mut self, file: &IgnoreFile) -> (r: Result<(), Error>)
        requires trie_ok(old(self).ignores.m@),
        ensures
            // the recompiled matcher comes from the directory's own builder: still rooted at that directory
            trie_ok(final(self).ignores.m@), // OBL:C03+C14.recompile.matcher_stays_rooted_at_its_own_directory
            final(self).origin == old(self).origin,
            // a directory without a builder (a finished filter, an unknown directory) is left alone, and so is everything after a glob error
            !has_builder(old(self).ignores.m@, applies_in_of(old(self).origin, file)) || r is Err ==> final(self).ignores.m@ == old(self).ignores.m@, // OBL:C03.recompile.nothing_changes_without_a_builder_or_on_error
            !has_builder(old(self).ignores.m@, applies_in_of(old(self).origin, file)) ==> r is Ok,
            // otherwise the directory's matcher now holds every line its builder holds, the node KEEPS that builder (so the next file or glob list added
            // for the same directory is not silently dropped), and no other directory's node is touched
            has_builder(old(self).ignores.m@, applies_in_of(old(self).origin, file)) && r is Ok ==> recompiled_node(old(self).ignores.m@, final(self).ignores.m@, applies_in_of(old(self).origin, file)), // OBL:C03+C14.recompile.the_directory_keeps_its_builder_and_its_matcher_holds_all_its_lines
//@ end
