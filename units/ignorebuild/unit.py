# unit `ignorebuild`: crates/ignore-files/src/filter.rs — serves C03 (and C14): every per-directory matcher is rooted at its own directory
F = "crates/ignore-files/src/filter.rs"
UNIT = dict(
    name="ignorebuild",
    prelude=["ignorebuild_env.rs"],
    spec=["spec.rs"],
    rules=dict(
        option_unfold=True,
        subst=[("Trie<String, Ignore>", "TrieS"), ("Trie::new()", "TrieS::new()"), ("PathBuf", "PathS"), ("&Path", "&PathS")],
    ),
    # the file-reading head of IgnoreFilter::new (a stream of futures) is outside the extraction subset: the order in which the file contents reach the
    # proved per-file loop is pinned structurally (D17: a FuturesUnordered delivered them in read-completion order) and replayed on the real code
    structural=[
        dict(id="C03.structure.listed_files_are_read_in_their_listed_order", file=F, impl="impl IgnoreFilter", count_in_fn="new", pattern=".collect::<FuturesOrdered<_>>() .collect::<Vec<_>>()", expect=1,
             why="files applying in the same directory feed one builder, where a later line takes precedence: their contents must reach the loop in listed order, on every construction"),
        dict(id="C03.structure.no_completion_ordered_collection_in_the_filter", file=F, count_in_file=True, pattern="FuturesUnordered", expect=0, why="see above"),
    ],
    extract=[
        dict(id="ProjectType", kind="type", src="crates/project-origins/src/lib.rs", name="ProjectType", structural=True),
        dict(id="IgnoreFile", kind="type", src="crates/ignore-files/src/lib.rs", name="IgnoreFile", structural=True, add_derive=["Copy"]),
        dict(id="get_applies_in_path", kind="fn", src=F, name="get_applies_in_path", rules=dict(pre_subst=[("PathBuf::from(prefix(origin))", "vx_fs_root(origin)")])),
        dict(id="Ignore", kind="type", src=F, name="Ignore", add_derive=["Copy"]),
        dict(id="IgnoreFilter", kind="type", src=F, name="IgnoreFilter", drop_derive=["Clone"]),
        dict(id="IgnoreFilter::empty", kind="fn", src=F, impl="impl IgnoreFilter", name="empty"),
        dict(id="add_file_new_node", kind="block", src=F, within="add_file", stmts_from="if self.ignores.get(&applies_in_str).is_none()", stmts_to="let Some(Ignore",
             free=["self", "applies_in_str", "applies_in"], rules=dict(pre_subst=[("self.", "vx_self."), ("applies_in_str.clone()", "applies_in_str")])),
        dict(id="add_globs_new_node", kind="block", src=F, within="add_globs", stmts_from="if self.ignores.get(&applies_in_str).is_none()", stmts_to="let Some(Ignore",
             free=["self", "applies_in_str", "applies_in"], rules=dict(pre_subst=[("self.", "vx_self."), ("applies_in_str.clone()", "applies_in_str")])),
        dict(id="new_file_body", kind="block", src=F, within="new", after="for (file, content) in files_contents.into_iter().flatten()",
             free=["file", "content", "origin", "ignores_trie", "total_num_ignores", "total_num_whitelists"],
             rules=dict(continue_returns="Ok(())", for_desugar=[0], question=True, question_from="vx_from_glob", option_unfold_and_then=True, option_unfold_unwrap_or_else=True,
                        pre_subst=[("node.builder.clone()", "node.builder"), ("applies_in.clone().clone()", "applies_in"),
                                   (".map_err(|err| Error::Glob {\n\t\t\t\t\t\tfile: Some(file.path.clone()),\n\t\t\t\t\t\terr,\n\t\t\t\t\t})", ""),
                                   (".map_err(|err| Error::Glob { file: None, err })", ""),
                                   ("total_num_ignores += compiled_builder.num_ignores();", ""), ("total_num_whitelists += compiled_builder.num_whitelists();", "")])),
        dict(id="IgnoreFilter::recompile", kind="fn", src=F, impl="impl IgnoreFilter", name="recompile",
             rules=dict(question=True, question_from="vx_from_glob", pre_subst=[(".map_err(|err| Error::Glob {\n\t\t\tfile: Some(file.path.clone()),\n\t\t\terr,\n\t\t})", "")])),
    ],
)
