// spec for unit `worker` (C01, C02, C15), written from the property statements
pub open spec fn accepted_at(recvd: Seq<Msg>, verdicts: Map<int, Verdict>, i: int) -> bool {
    let m = recvd[i];
    m.prio == Priority::Urgent || m.ev.empty || (verdicts.contains_key(i) && verdicts[i] is Pass)
}
// the accepted sub-sequence of the messages received in [lo, hi): order preserved, each once
pub open spec fn acc(recvd: Seq<Msg>, verdicts: Map<int, Verdict>, lo: int, hi: int) -> Seq<Event> decreases hi - lo {
    if hi <= lo { Seq::empty() }
    else if accepted_at(recvd, verdicts, hi - 1) { acc(recvd, verdicts, lo, hi - 1).push(recvd[hi - 1].ev) }
    else { acc(recvd, verdicts, lo, hi - 1) }
}
// ... and their receive times
pub open spec fn acc_t(recvd: Seq<Msg>, verdicts: Map<int, Verdict>, lo: int, hi: int) -> Seq<nat> decreases hi - lo {
    if hi <= lo { Seq::empty() }
    else if accepted_at(recvd, verdicts, hi - 1) { acc_t(recvd, verdicts, lo, hi - 1).push(recvd[hi - 1].t) }
    else { acc_t(recvd, verdicts, lo, hi - 1) }
}
// the messages that must go through the filter: neither urgent nor empty
pub open spec fn filtered_idx(recvd: Seq<Msg>, lo: int, hi: int) -> Seq<int> decreases hi - lo {
    if hi <= lo { Seq::empty() }
    else {
        let m = recvd[hi - 1];
        if m.prio != Priority::Urgent && !m.ev.empty { filtered_idx(recvd, lo, hi - 1).push(hi - 1) } else { filtered_idx(recvd, lo, hi - 1) }
    }
}
// the errors of the filter calls that failed, in order
pub open spec fn fail_ids(verdicts: Map<int, Verdict>, lo: int, hi: int) -> Seq<int> decreases hi - lo {
    if hi <= lo { Seq::empty() }
    else if verdicts.contains_key(hi - 1) && verdicts[hi - 1] is Fail { fail_ids(verdicts, lo, hi - 1).push(verdicts[hi - 1]->err) }
    else { fail_ids(verdicts, lo, hi - 1) }
}
pub open spec fn no_urgent(recvd: Seq<Msg>, lo: int, hi: int) -> bool { forall|i: int| lo <= i < hi ==> (#[trigger] recvd[i]).prio != Priority::Urgent }
pub open spec fn verdicts_in_range(env: &WEnv) -> bool { forall|i: int| env.verdicts@.contains_key(i) ==> 0 <= i < env.recvd@.len() }

pub proof fn acc_frame(r1: Seq<Msg>, v1: Map<int, Verdict>, r2: Seq<Msg>, v2: Map<int, Verdict>, lo: int, hi: int)
    requires r1.len() >= hi, r2.len() >= hi, lo >= 0,
        forall|i: int| lo <= i < hi ==> r1[i] == r2[i],
        forall|i: int| lo <= i < hi ==> (#[trigger] v1.contains_key(i) == v2.contains_key(i)),
        forall|i: int| lo <= i < hi && #[trigger] v1.contains_key(i) ==> v1[i] == v2[i],
    ensures acc(r1, v1, lo, hi) == acc(r2, v2, lo, hi), acc_t(r1, v1, lo, hi) == acc_t(r2, v2, lo, hi),
        filtered_idx(r1, lo, hi) == filtered_idx(r2, lo, hi), fail_ids(v1, lo, hi) == fail_ids(v2, lo, hi),
    decreases hi - lo
{
    if hi > lo {
        acc_frame(r1, v1, r2, v2, lo, hi - 1);
        assert(r1[hi - 1] == r2[hi - 1]);
        assert(v1.contains_key(hi - 1) == v2.contains_key(hi - 1));
        if v1.contains_key(hi - 1) { assert(v1[hi - 1] == v2[hi - 1]); }
    }
}

// ---- proved wrappers around the raw stand-ins: the frame-lemma applications live here (verified), not in the extracted body ----
pub open spec fn batch(env: &WEnv) -> Seq<Event> { acc(env.recvd@, env.verdicts@, env.mark@, env.recvd@.len() as int) }
pub open spec fn batch_t(env: &WEnv) -> Seq<nat> { acc_t(env.recvd@, env.verdicts@, env.mark@, env.recvd@.len() as int) }
pub open spec fn batch_filtered(env: &WEnv) -> Seq<int> { filtered_idx(env.recvd@, env.mark@, env.recvd@.len() as int) }
pub open spec fn batch_fails(env: &WEnv) -> Seq<int> { fail_ids(env.verdicts@, env.mark@, env.recvd@.len() as int) }

pub fn timeout(maxtime: Duration, fut: RecvFut, env: &mut WEnv) -> (r: Result<Result<(Event, Priority), RecvErr>, Elapsed>)
    requires 0 <= old(env).mark@ <= old(env).recvd@.len(), verdicts_in_range(old(env)),
        // C02: never wait longer than the rest of the window (the batch is delivered within a bounded delay after the window ends)
        maxtime.inf || (old(env).throttle_const@ is Some && batch_t(old(env)).len() > 0 ==>
            old(env).now@ + maxtime.ns <= batch_t(old(env))[0] + old(env).throttle_const@->Some_0 + (old(env).slack@ - old(env).slack_mark@)), // OBL:C02.recv_timeout_never_exceeds_the_window
    ensures
        final(env).now@ >= old(env).now@, final(env).verdicts == old(env).verdicts, final(env).filter_calls == old(env).filter_calls,
        final(env).errs == old(env).errs, final(env).throttle_const == old(env).throttle_const, final(env).last_now == old(env).last_now, final(env).mark == old(env).mark,
        verdicts_in_range(final(env)), batch_fails(final(env)) == batch_fails(old(env)),
        final(env).slack_mark == old(env).slack_mark,
        match r {
            Ok(Ok((e, p))) => final(env).recvd@ == old(env).recvd@.push(Msg { ev: e, prio: p, t: final(env).now@ })
                && (!maxtime.inf ==> final(env).now@ <= old(env).now@ + maxtime.ns) && final(env).slack == old(env).slack
                && batch(final(env)) == (if p == Priority::Urgent || e.empty { batch(old(env)).push(e) } else { batch(old(env)) })
                && batch_t(final(env)) == (if p == Priority::Urgent || e.empty { batch_t(old(env)).push(final(env).now@) } else { batch_t(old(env)) })
                && batch_filtered(final(env)) == (if p != Priority::Urgent && !e.empty { batch_filtered(old(env)).push(old(env).recvd@.len() as int) } else { batch_filtered(old(env)) }),
            Ok(Err(_)) => final(env).recvd == old(env).recvd && final(env).closed@,
            Err(_) => final(env).recvd == old(env).recvd && !maxtime.inf && final(env).now@ >= old(env).now@ + maxtime.ns
                && final(env).slack@ == old(env).slack@ + (final(env).now@ - (old(env).now@ + maxtime.ns)),
        }
{
    let r = timeout_raw(maxtime, fut, env);
    proof {
        let n = old(env).recvd@.len() as int;
        if r is Ok && r->Ok_0 is Ok {
            acc_frame(old(env).recvd@, old(env).verdicts@, env.recvd@, env.verdicts@, env.mark@, n);
        }
    }
    r
}
impl FiltererS {
    pub fn check_event(&self, event: &Event, priority: Priority, env: &mut WEnv) -> (r: Result<bool, RuntimeError>)
        requires old(env).recvd@.len() > old(env).mark@ >= 0, old(env).recvd@.last().ev.id == event.id,
            // C01/C02: urgent and empty events are never handed to the filter
            !(old(env).recvd@.last().prio == Priority::Urgent) && !old(env).recvd@.last().ev.empty, // OBL:C01+C02.urgent_and_empty_events_bypass_the_filter
            forall|i: int| old(env).verdicts@.contains_key(i) ==> 0 <= i < old(env).recvd@.len() - 1,
        ensures
            final(env).now@ >= old(env).now@, final(env).recvd == old(env).recvd, final(env).errs == old(env).errs,
            final(env).throttle_const == old(env).throttle_const, final(env).closed == old(env).closed, final(env).last_now == old(env).last_now, final(env).mark == old(env).mark,
            final(env).filter_calls@ == old(env).filter_calls@.push(old(env).recvd@.len() - 1),
            final(env).slack_mark == old(env).slack_mark, final(env).slack@ == old(env).slack@ + (final(env).now@ - old(env).now@),
            verdicts_in_range(final(env)),
            batch(final(env)) == (if r == Ok::<bool, RuntimeError>(true) { acc(old(env).recvd@, old(env).verdicts@, old(env).mark@, old(env).recvd@.len() - 1).push(old(env).recvd@.last().ev) }
                    else { acc(old(env).recvd@, old(env).verdicts@, old(env).mark@, old(env).recvd@.len() - 1) }),
            batch_t(final(env)) == (if r == Ok::<bool, RuntimeError>(true) { acc_t(old(env).recvd@, old(env).verdicts@, old(env).mark@, old(env).recvd@.len() - 1).push(old(env).recvd@.last().t) }
                    else { acc_t(old(env).recvd@, old(env).verdicts@, old(env).mark@, old(env).recvd@.len() - 1) }),
            batch_fails(final(env)) == (if r is Err { fail_ids(old(env).verdicts@, old(env).mark@, old(env).recvd@.len() - 1).push(r->Err_0.id) }
                    else { fail_ids(old(env).verdicts@, old(env).mark@, old(env).recvd@.len() - 1) }),
    {
        let r = self.check_event_raw(event, priority, env);
        proof {
            let n = old(env).recvd@.len() as int;
            acc_frame(old(env).recvd@, old(env).verdicts@, env.recvd@, env.verdicts@, env.mark@, n - 1);
        }
        r
    }
}
