// Contract overlay for unit `worker`
//@ item Priority
//@ item priority_order
//@ raw
// C02 relies on "urgent" being a distinct priority; the derived order of the extracted enum (variant order) is Low < Normal < High < Urgent
pub proof fn lemma_priority_variants(p: Priority)
    ensures p is Low || p is Normal || p is High || p is Urgent, // OBL:C02.priority.four_levels
{}
// the event queue (async_priority_channel, a max-heap on the derived `Ord` of Priority: assumed) hands out the greatest pending priority first, so the
// derived order itself (generated above from the real enum's variant order on every run) must put Urgent on top and Low at the bottom
pub proof fn lemma_priority_order()
    ensures prio_rank(Priority::Low) < prio_rank(Priority::Normal) && prio_rank(Priority::Normal) < prio_rank(Priority::High) && prio_rank(Priority::High) < prio_rank(Priority::Urgent), // OBL:C02+C01.priority.derived_order_is_low_normal_high_urgent
{}
//@ item throttle_collect
//@ header
#[verifier::exec_allows_no_decreases_clause]
pub fn throttle_collect(config: &Config, events: &EvRx, errors: &ErrTx, mut last: Instant, env: &mut WEnv) -> (r: Result<Option<Vec<Event>>, CriticalError>)
    requires
        last.t <= old(env).now@, verdicts_in_range(old(env)),
    ensures
        final(env).now@ >= old(env).now@,
        forall|i: int| 0 <= i < old(env).recvd@.len() ==> final(env).recvd@[i] == old(env).recvd@[i],
        // ---- C01: conservation ----
        // the batch handed on is exactly the accepted sub-sequence of what was received by this call: accepted events in order, each once;
        // rejected and erroring events never
        r matches Ok(Some(set)) ==> set@ == acc(final(env).recvd@, final(env).verdicts@, old(env).recvd@.len() as int, final(env).recvd@.len() as int), // OBL:C01.throttle_collect.batch_is_exactly_the_accepted_events
        r matches Ok(Some(set)) ==> set@.len() >= 1, // OBL:C01.throttle_collect.never_an_empty_batch
        // urgent and empty events are not filtered; everything else is filtered exactly once
        r matches Ok(Some(_)) ==> final(env).filter_calls@ == old(env).filter_calls@ + filtered_idx(final(env).recvd@, old(env).recvd@.len() as int, final(env).recvd@.len() as int), // OBL:C01+C02.throttle_collect.filter_called_once_per_filterable_event
        // the function gives up (no batch) only when the event channel is closed or the error channel is gone
        r matches Ok(None) ==> final(env).closed@, // OBL:C01.throttle_collect.gives_up_only_when_the_event_channel_is_closed
        r is Err ==> r->Err_0 is ErrorChannelSend, // OBL:C15.throttle_collect.only_a_closed_error_channel_is_critical
        // ---- C15: each filter error is sent to the error channel exactly once, in order, and does not end the collection ----
        r is Ok ==> final(env).errs@ == old(env).errs@ + fail_ids(final(env).verdicts@, old(env).recvd@.len() as int, final(env).recvd@.len() as int), // OBL:C15.throttle_collect.each_filter_error_sent_exactly_once
        // ---- C02: debounce ----
        // an urgent event ends the collection at once: it can only be the last message received
        no_urgent(final(env).recvd@, old(env).recvd@.len() as int, final(env).recvd@.len() - 1), // OBL:C02.throttle_collect.urgent_event_flushes_immediately
        // a batch without urgent event is handed on no earlier than the throttle duration after its first event was received
        r matches Ok(Some(_)) && final(env).throttle_const@ is Some && no_urgent(final(env).recvd@, old(env).recvd@.len() as int, final(env).recvd@.len() as int) ==>
            final(env).now@ >= acc_t(final(env).recvd@, final(env).verdicts@, old(env).recvd@.len() as int, final(env).recvd@.len() as int)[0] + final(env).throttle_const@->Some_0, // OBL:C02.throttle_collect.not_before_the_window_has_elapsed
        // ... and within a bounded delay after the window ends, even if rejected events keep arriving: no later than the throttle duration after its
        // first event was received, plus the time spent during this call inside the filterer, in sending filter errors and in timers firing late
        r matches Ok(Some(_)) && final(env).throttle_const@ is Some ==>
            final(env).now@ <= acc_t(final(env).recvd@, final(env).verdicts@, old(env).recvd@.len() as int, final(env).recvd@.len() as int)[0] + final(env).throttle_const@->Some_0
                + (final(env).slack@ - old(env).slack@), // OBL:C02.throttle_collect.delivered_within_the_window_plus_processing_time
//@ prologue
env.mark = Ghost(env.recvd@.len() as int);
env.slack_mark = Ghost(env.slack@);
let ghost env0 = *env;
//@ loop 0
invariant
    env.now@ >= env0.now@, last.t <= env.now@, env.mark@ == env0.recvd@.len(), env.recvd@.len() >= env.mark@, env.mark@ >= 0,
    forall|i: int| 0 <= i < env.mark@ ==> env.recvd@[i] == env0.recvd@[i],
    verdicts_in_range(env),
    env0.recvd == old(env).recvd && env0.filter_calls == old(env).filter_calls && env0.errs == old(env).errs && env0.now == old(env).now,
    set@ == batch(env), // OBL:C01.throttle_collect.inv_set_is_the_accepted_events_so_far
    env.filter_calls@ == env0.filter_calls@ + batch_filtered(env), // OBL:C01.throttle_collect.inv_filter_calls
    env.errs@ == env0.errs@ + batch_fails(env), // OBL:C15.throttle_collect.inv_errors_sent
    env.throttle_const == env0.throttle_const,
    no_urgent(env.recvd@, env.mark@, env.recvd@.len() as int), // OBL:C02.throttle_collect.inv_no_urgent_event_held_back
    set@.len() > 0 ==> last.t == env.last_now@ && batch_t(env).len() > 0 && last.t >= batch_t(env)[0], // OBL:C02.throttle_collect.inv_window_starts_at_first_event
    batch_t(env).len() == set@.len(),
    env.slack@ >= env.slack_mark@,
    env.slack_mark@ == env0.slack@, env.slack@ >= env.slack_mark@, env0.slack == old(env).slack,
    // the window is opened right after the first event was received and filtered
    set@.len() > 0 ==> last.t <= batch_t(env)[0] + (env.slack@ - env.slack_mark@), // OBL:C02.throttle_collect.delivered_within_the_window_plus_processing_time
    set@.len() > 0 && env.throttle_const@ is Some ==> env.now@ <= batch_t(env)[0] + env.throttle_const@->Some_0 + (env.slack@ - env.slack_mark@), // OBL:C02.throttle_collect.delivered_within_the_window_plus_processing_time
//@ hint after `set.push(event);`
proof { assert(env.throttle_const@ is Some ==> env.now@ <= batch_t(env)[0] + env.throttle_const@->Some_0 + (env.slack@ - env.slack_mark@)); } // OBL:C02.throttle_collect.delivered_within_the_window_plus_processing_time
//@ epilogue
vx_unreachable()
//@ end
