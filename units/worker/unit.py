# unit `worker`: crates/lib/src/action/worker.rs — serves C01, C02, C15
W = "crates/lib/src/action/worker.rs"
def gen_priority_ord(build, R):
    """#[derive(PartialOrd, Ord)] on Priority = declaration order of the variants: generated from the real enum on every run (Verus accepts the
    derive but gives `<`/`>` no meaning, so the order is supplied as a PartialOrd impl with its spec)"""
    src = build.Source.get("crates/events/src/event.rs")
    s, e = R.find_type(src.toks, src.m, "Priority")
    t = src.toks[s:e]
    ob = [i for i, x in enumerate(t) if x.s == "{"][0]
    names = [x.s for i, x in enumerate(t[ob + 1:-1]) if x.k == "id" and t[ob + 1 + i + 1].s in (",", "}")]
    if len(names) < 2: raise R.ExtractError("gen_priority_ord: variants of Priority not found")
    arms = " ".join("Priority::%s => %d," % (n, i) for i, n in enumerate(names))
    return ("// GENERATED from the variant order of enum Priority (%s)\n" % " < ".join(names) +
            "pub open spec fn prio_rank(p: Priority) -> int { match p { %s } }\n" % arms +
            "impl vstd::std_specs::cmp::PartialOrdSpecImpl for Priority {\n"
            "    open spec fn obeys_partial_cmp_spec() -> bool { true }\n"
            "    open spec fn partial_cmp_spec(&self, other: &Priority) -> Option<core::cmp::Ordering> {\n"
            "        if prio_rank(*self) < prio_rank(*other) { Some(core::cmp::Ordering::Less) } else if prio_rank(*self) == prio_rank(*other) { Some(core::cmp::Ordering::Equal) } else { Some(core::cmp::Ordering::Greater) }\n"
            "    }\n}\n"
            "impl PartialOrd for Priority {\n"
            "    fn partial_cmp(&self, other: &Priority) -> (r: Option<core::cmp::Ordering>) {\n"
            "        let a: u8 = match self { %s };\n        let b: u8 = match other { %s };\n" % (arms, arms) +
            "        if a < b { Some(core::cmp::Ordering::Less) } else if a == b { Some(core::cmp::Ordering::Equal) } else { Some(core::cmp::Ordering::Greater) }\n"
            "    }\n}\n")

UNIT = dict(
    gen_spec=[gen_priority_ord],
    name="worker",
    prelude=["worker_env.rs"],
    spec=["spec.rs"],
    rules=dict(
        env_methods=["is_closed", "get", "elapsed", "check_event", "send", "try_send"],
        env_paths=["Instant::now", "timeout"],
        question=True,
        subst=[("vec![]", "Vec::new()"), ("mpsc::error::TrySendError::", "TrySendError::"), ("mpsc::error::SendError(", "SendError(")],
    ),
    structural=[
        dict(id="C02+C01.structure.priority_order_is_the_derived_one", file="crates/events/src/event.rs", count_in_file=True,
             raw_regex=r"^#\[derive\((?=[^\]]*\bOrd\b)(?=[^\]]*\bPartialOrd\b)[^\]]*\)\]\n(?:(?:#\[|///).*\n)*pub enum Priority\b", expect=1,
             why="the order the event queue uses is the derived one (declaration order of the variants), which the generated prio_rank spec function mirrors"),
        dict(id="C02+C01.structure.priority_has_no_hand_written_order", file="crates/events/src/event.rs", count_in_file=True,
             pattern="for Priority", expect=1,
             why="the only trait implemented by hand for Priority is Default (one `impl .. for Priority`): no hand-written Ord/PartialOrd can override the derived order"),
        dict(id="C02.structure.cli_debounce_is_the_throttle", file="crates/cli/src/config.rs", count_in_fn="make_config", pattern="config.throttle(args.events.debounce.0);", expect=1,
             why="the CLI's --debounce value is the configured throttle"),
        dict(id="C02.structure.cli_throttle_set_once", file="crates/cli/src/config.rs", count_in_fn="make_config", pattern="config.throttle(", expect=1, why="nothing overrides it"),
        dict(id="C02.structure.cli_unitless_debounce_is_milliseconds", file="crates/cli/src/args/events.rs", count_in_file=True, pattern="pub debounce: TimeSpan<1_000_000>,", expect=1,
             why="a unit-less --debounce value is documented as milliseconds: TimeSpan's parameter is the nanosecond multiplier of unit-less values"),
        dict(id="C02.structure.timespan_multiplies_unitless_values_by_its_parameter", file="crates/cli/src/args.rs", count_in_fn="from_str", pattern="Ok(Duration::from_nanos(unitless * UNITLESS_NANOS_MULTIPLIER))", expect=1,
             why="see above"),
    ],
    extract=[
        dict(id="Priority", kind="type", src="crates/events/src/event.rs", name="Priority", structural=True),
        dict(id="throttle_collect", kind="fn", src=W, name="throttle_collect"),
    ],
)
