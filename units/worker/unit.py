# unit `worker`: crates/lib/src/action/worker.rs — serves C01, C02, C15
W = "crates/lib/src/action/worker.rs"
UNIT = dict(
    name="worker",
    prelude=["worker_env.rs"],
    spec=["spec.rs"],
    rules=dict(
        env_methods=["is_closed", "get", "elapsed", "check_event", "send", "try_send"],
        env_paths=["Instant::now", "timeout"],
        question=True,
        subst=[("vec![]", "Vec::new()"), ("mpsc::error::TrySendError::", "TrySendError::"), ("mpsc::error::SendError(", "SendError(")],
    ),
    extract=[
        dict(id="Priority", kind="type", src="crates/events/src/event.rs", name="Priority", structural=True),
        dict(id="throttle_collect", kind="fn", src=W, name="throttle_collect"),
    ],
)
