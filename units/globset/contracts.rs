// Contract overlay for unit `globset` (C11)
//@ item FileType
//@ item GlobsetFilterer
//@ item AccessMode
//@ item AccessKind
//@ item CreateKind
//@ item DataChange
//@ item MetadataKind
//@ item RenameMode
//@ item ModifyKind
//@ item RemoveKind
//@ item EventKind
//@ item FsEvent
//@ item WatchexecFilterer::check_event
//@ header
#[verifier::exec_allows_no_decreases_clause]
pub fn cli_check_event(&self, event: &CliEvent, priority: Priority) -> (r: Result<bool, RuntimeError>)
    ensures
        // an event carrying a file-event kind outside --fs-events is rejected before the inner filter is asked
        !kinds_allowed(self.fs_events@, event.tags@, event.tags@.len() as int) ==> r == Ok::<bool, RuntimeError>(false), // OBL:C11+C12.cli_check_event.kinds_outside_fs_events_are_rejected
        // otherwise the verdict is the inner (glob) filter's, then the filter programs'
        kinds_allowed(self.fs_events@, event.tags@, event.tags@.len() as int) ==> r == (match inner_pass(self.inner, event.tags@) {
            Err(e) => Err(e), Ok(false) => Ok(false),
            Ok(true) => match self.progs { None => Ok(true), Some(_) => match progs_pass(event.tags@) { Err(e) => Err(e), Ok(b) => Ok(b) } } }), // OBL:C11.cli_check_event.then_the_inner_filter_decides
//@ loop 0
invariant
    vx_it0.v@ == event.tags@, 0 <= vx_it0.pos@ <= event.tags@.len(),
    kinds_allowed(self.fs_events@, event.tags@, vx_it0.pos@), // OBL:C11.cli_check_event.inv_kinds_so_far_allowed
ensures
    vx_it0.pos@ >= event.tags@.len(),
//@ item per_path
//@ header
// the per-path closure of GlobsetFilterer::check_event (`paths.any(|(path, file_type)| { .. })`), captured `self` as parameter
fn per_path(vx_self: &GlobsetFilterer, path: PathS, file_type: Option<FileType>) -> (r: bool)
    ensures r == path_passes(vx_self, path, file_type), // OBL:C11.per_path.verdict_follows_the_glob_ignore_and_extension_rules
//@ closure 0
|e: OsS| -> (vx_b: bool) ensures vx_b == (e == ext) /* OBL:C11.per_path.verdict_follows_the_glob_ignore_and_extension_rules */
//@ closure_ghost 0
Ghost(|e: OsS| e == ext)
//@ item GlobsetFilterer::check_event
//@ header
pub fn check_event(&self, event: &Event, priority: Priority) -> (r: Result<bool, RuntimeError>)
    ensures r is Ok, r->Ok_0 == event_passes(self, event.path_tags@), // OBL:C11.check_event.verdict_is_the_documented_rule
//@ closure 0
|vx_t: (PathS, Option<FileType>)| -> (vx_b: bool) ensures vx_b == in_whitelist(self, vx_t.0) /* OBL:C11.check_event.verdict_is_the_documented_rule */
//@ closure_let 0
let (p, _) = vx_t;
//@ closure_ghost 0
Ghost(|vx_t: (PathS, Option<FileType>)| in_whitelist(self, vx_t.0))
//@ closure 1
|w: PathS| -> (vx_b: bool) ensures vx_b == (w == p) /* OBL:C11.check_event.verdict_is_the_documented_rule */
//@ closure_ghost 1
Ghost(|w: PathS| w == p)
//@ closure 2
|vx_t: (PathS, Option<FileType>)| -> (vx_b: bool) ensures vx_b == path_passes(self, vx_t.0, vx_t.1) /* OBL:C11.check_event.verdict_is_the_documented_rule */
//@ closure_let 2
let (path, file_type) = vx_t;
//@ closure_ghost 2
Ghost(|vx_t: (PathS, Option<FileType>)| path_passes(self, vx_t.0, vx_t.1))
//@ end
