# unit `globset`: crates/filterer/globset/src/lib.rs — serves C11
G = "crates/filterer/globset/src/lib.rs"
REBASE = """{
							use std::path::MAIN_SEPARATOR;
							let mut b = self.origin.clone().into_os_string();
							b.push(PathBuf::from(String::from(MAIN_SEPARATOR)));
							b.push(PathBuf::from(String::from(MAIN_SEPARATOR)));
							b.push(based.as_os_str());
							b
						}"""
UNIT = dict(
    name="globset",
    prelude=["globset_env.rs"],
    spec=["spec.rs"],
    rules=dict(
        any_idioms=True,
        option_unfold=True,
        pre_subst=[(REBASE, "vx_rebase(&self.origin, based)"), ("vx_self.", "vx_self.")],
        subst=[("PathBuf", "PathS"), ("OsString", "OsS")],
    ),
    extract=[
        dict(id="FileType", kind="type", src="crates/events/src/fs.rs", name="FileType", structural=True),
        dict(id="GlobsetFilterer", kind="type", src=G, name="GlobsetFilterer"),
        dict(id="AccessMode", kind="type", src="crates/events/src/sans_notify.rs", name="AccessMode", structural=True),
        dict(id="AccessKind", kind="type", src="crates/events/src/sans_notify.rs", name="AccessKind", structural=True),
        dict(id="CreateKind", kind="type", src="crates/events/src/sans_notify.rs", name="CreateKind", structural=True),
        dict(id="DataChange", kind="type", src="crates/events/src/sans_notify.rs", name="DataChange", structural=True),
        dict(id="MetadataKind", kind="type", src="crates/events/src/sans_notify.rs", name="MetadataKind", structural=True),
        dict(id="RenameMode", kind="type", src="crates/events/src/sans_notify.rs", name="RenameMode", structural=True),
        dict(id="ModifyKind", kind="type", src="crates/events/src/sans_notify.rs", name="ModifyKind", structural=True),
        dict(id="RemoveKind", kind="type", src="crates/events/src/sans_notify.rs", name="RemoveKind", structural=True),
        dict(id="EventKind", kind="type", src="crates/events/src/sans_notify.rs", name="EventKind", structural=True),
        dict(id="FsEvent", kind="type", src="crates/cli/src/args/filtering.rs", name="FsEvent", structural=True),
        dict(id="WatchexecFilterer::check_event", kind="fn", src="crates/cli/src/filterer.rs", impl="impl Filterer for WatchexecFilterer", name="check_event", emit_impl="impl WatchexecFilterer",
             rules=dict(for_desugar=[0], question=True, question_from="vx_id", subst=[("Tag::FileEventKind", "CliTag::FileEventKind"), ("FileEventKind::", "EventKind::"), ("PathBuf", "PathS"), ("OsString", "OsS")])),
        dict(id="per_path", kind="block", src=G, within="check_event", after="Ok(paths.any(|(path, file_type)|", nth=0,
             free=["self", "path", "file_type"], extra_bound=["path", "file_type"], rules=dict(pre_subst=[(REBASE, "vx_rebase(&self.origin, based)"), ("self.", "vx_self.")])),
        dict(id="GlobsetFilterer::check_event", kind="fn", src=G, impl="impl Filterer for GlobsetFilterer", name="check_event", emit_impl="impl GlobsetFilterer",
             rules=dict(outline=[("Ok(paths.any(|(path, file_type)|", "{ per_path(self, path, file_type) }", "keep_anchor")])),
    ],
)
