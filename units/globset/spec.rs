// spec for unit `globset` (C11), from the property statement
pub open spec fn is_dir_of(ft: Option<FileType>) -> bool { ft == Some(FileType::Dir) }
pub open spec fn has_filters(f: &GlobsetFilterer) -> bool { g_count(f.filters) > 0 }      // "filter patterns configured"
pub open spec fn has_exts(f: &GlobsetFilterer) -> bool { f.extensions@.len() > 0 }        // "extensions configured"
pub open spec fn ext_listed(f: &GlobsetFilterer, p: PathS) -> bool { ext_of(p) is Some && exists|i: int| 0 <= i < f.extensions@.len() && #[trigger] f.extensions@[i] == ext_of(p)->Some_0 }
pub open spec fn filter_hit(f: &GlobsetFilterer, p: PathS, d: bool) -> bool {
    g_ign(f.filters, p, d) || (under(p, f.origin) && g_ign(f.filters, rebased_of(f.origin, p), d))
}
// "at least one of its paths is not matched by an ignore pattern and, if filter patterns or extensions are configured, matches a filter
// pattern or (being a non-directory) has one of the extensions"
pub open spec fn path_passes(f: &GlobsetFilterer, p: PathS, ft: Option<FileType>) -> bool {
    let d = is_dir_of(ft);
    !g_ign(f.ignores, p, d)
    && ((!has_filters(f) && !has_exts(f)) || (has_filters(f) && filter_hit(f, p, d)) || (has_exts(f) && !d && ext_listed(f, p)))
}
pub open spec fn in_whitelist(f: &GlobsetFilterer, p: PathS) -> bool { exists|j: int| 0 <= j < f.whitelist@.len() && #[trigger] f.whitelist@[j] == p }
pub open spec fn whitelisted(f: &GlobsetFilterer, tags: Seq<(PathS, Option<FileType>)>) -> bool {
    exists|i: int| 0 <= i < tags.len() && in_whitelist(f, (#[trigger] tags[i]).0)
}
// "an event without paths always passes and an event naming an explicitly watched file always passes; otherwise the event is rejected if
// the loaded ignore files reject it, and else passes exactly when at least one of its paths ..."
pub open spec fn event_passes(f: &GlobsetFilterer, tags: Seq<(PathS, Option<FileType>)>) -> bool {
    whitelisted(f, tags) || (ignfiles_pass(f.ignore_files, tags) && (tags.len() == 0 || exists|i: int| 0 <= i < tags.len() && path_passes(f, (#[trigger] tags[i]).0, tags[i].1)))
}
// ---- consequences stated in the property ----
// ignore patterns take precedence over filters: a path matched by an ignore pattern never passes, whatever the filters say
pub proof fn lemma_ignore_precedence(f: &GlobsetFilterer, p: PathS, ft: Option<FileType>)
    requires g_ign(f.ignores, p, is_dir_of(ft))
    ensures !path_passes(f, p, ft) // OBL:C11.spec.ignore_patterns_take_precedence_over_filters
{}
// an empty configuration passes everything (given the ignore files pass it)
pub proof fn lemma_empty_config(f: &GlobsetFilterer, p: PathS, ft: Option<FileType>)
    requires !has_filters(f), !has_exts(f), !g_ign(f.ignores, p, is_dir_of(ft))
    ensures path_passes(f, p, ft) // OBL:C11.spec.empty_configuration_passes_everything
{}
// adding a non-negated ignore pattern can only turn passes into rejections: with every other component equal and an ignore matcher that
// ignores at least what the old one ignored, nothing that was rejected passes
pub proof fn lemma_monotone(f: &GlobsetFilterer, g: &GlobsetFilterer, p: PathS, ft: Option<FileType>)
    requires g.filters == f.filters, g.extensions == f.extensions, g.origin == f.origin,
        forall|q: PathS, d: bool| g_ign(f.ignores, q, d) ==> g_ign(g.ignores, q, d),
    ensures path_passes(g, p, ft) ==> path_passes(f, p, ft) // OBL:C11.spec.more_ignores_only_reject_more
{}

// ---- CLI layer: "--fs-events" ----
// Access/Create/Remove, Modify(Name) -> Rename, Modify(Metadata) -> Metadata, other Modify -> Modify; Any/Other kinds are not filtered
pub open spec fn normalised(k: EventKind) -> Option<FsEvent> {
    match k {
        EventKind::Access(_) => Some(FsEvent::Access),
        EventKind::Create(_) => Some(FsEvent::Create),
        EventKind::Remove(_) => Some(FsEvent::Remove),
        EventKind::Modify(mk) => match mk { ModifyKind::Name(_) => Some(FsEvent::Rename), ModifyKind::Metadata(_) => Some(FsEvent::Metadata), _ => Some(FsEvent::Modify) },
        _ => None,
    }
}
pub open spec fn kind_allowed(allowed: Seq<FsEvent>, t: CliTag) -> bool {
    match t { CliTag::FileEventKind(k) => normalised(k) is None || allowed.contains(normalised(k)->Some_0), _ => true }
}
pub open spec fn kinds_allowed(allowed: Seq<FsEvent>, tags: Seq<CliTag>, n: int) -> bool { forall|i: int| 0 <= i < n ==> kind_allowed(allowed, #[trigger] tags[i]) }
