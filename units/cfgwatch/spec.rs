// spec for unit `cfgwatch` (C13): see the obligations on vx_wait / notify_waiters in prelude/cfgwatch_env.rs
