# unit `cfgwatch`: crates/lib/src/config.rs — serves C13 (no configuration change is lost between two waits of a worker)
F = "crates/lib/src/config.rs"
SETTERS = ["pathset", "file_watcher", "keyboard_events", "throttle", "filterer", "on_error", "on_action", "on_action_async"]
UNIT = dict(
    name="cfgwatch",
    prelude=["cfgwatch_env.rs"],
    spec=["spec.rs"],
    rules=dict(
        env_methods=["notify_waiters", "fetch_add", "load", "vx_enable", "vx_wait"],
        subst=[("Arc<Notify>", "NotifyS"), ("Arc<AtomicU64>", "CountS")],
    ),
    extract=[
        dict(id="ConfigWatched", kind="type", src=F, name="ConfigWatched"),
        dict(id="ConfigWatched::new", kind="fn", src=F, impl="impl ConfigWatched", name="new"),
        dict(id="ConfigWatched::next", kind="fn", src=F, impl="impl ConfigWatched", name="next",
             rules=dict(await_subst=[("notified.await;", "notified.vx_wait(Ghost(self.seen as nat));")],
                        pre_subst=[
                 ("pin!(notified)", "vx_pin(notified)"),
                 ("notified.as_mut().enable();", "notified.vx_enable();"),
             ])),
        dict(id="Config::signal_change", kind="fn", src=F, impl="impl Config", name="signal_change"),
    ],
    structural=[dict(id="C13.structure.setter_%s_signals_the_change_once" % s, file=F, impl="impl Config", count_in_fn=s, pattern="self.signal_change()", expect=1,
                     why="every Config setter must give the change signal, or workers never re-read the value it stored") for s in SETTERS],
)
