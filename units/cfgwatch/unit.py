# unit `cfgwatch`: crates/lib/src/config.rs — serves C13 (no configuration change is lost between two waits of a worker)
F = "crates/lib/src/config.rs"
CH = "crates/lib/src/changeable.rs"
SETTERS = ["pathset", "file_watcher", "keyboard_events", "throttle", "filterer", "on_error", "on_action", "on_action_async"]
# setters whose value another property reads at run time (C02: "throttle ... changes at run time"; C15: an error handler that replaces itself)
SETTER_PROPS = {"throttle": "C13+C02", "on_error": "C13+C15"}
UNIT = dict(
    name="cfgwatch",
    prelude=["cfgwatch_env.rs"],
    spec=["spec.rs"],
    rules=dict(
        env_methods=["notify_waiters", "notify_one", "fetch_add", "load", "vx_enable", "vx_wait"],
        subst=[("Arc<Notify>", "NotifyS"), ("Arc<AtomicU64>", "CountS")],
    ),
    extract=[
        dict(id="ConfigWatched", kind="type", src=F, name="ConfigWatched"),
        dict(id="ConfigWatched::new", kind="fn", src=F, impl="impl ConfigWatched", name="new"),
        dict(id="ConfigWatched::next", kind="fn", src=F, impl="impl ConfigWatched", name="next",
             rules=dict(await_subst=[("notified.await;", "notified.vx_wait(Ghost(self.seen as nat));")],
                        pre_subst=[
                 ("pin!(notified)", "vx_pin(notified)"),
                 ("notified.as_mut().enable();", "notified.vx_enable();"),
             ])),
        dict(id="Config::signal_change", kind="fn", src=F, impl="impl Config", name="signal_change"),
    ],
    structural=[dict(id="%s.structure.setter_%s_signals_the_change_once" % (SETTER_PROPS.get(s, "C13"), s), file=F, impl="impl Config", count_in_fn=s, pattern="self.signal_change()", expect=1,
                     why="every Config setter must give the change signal, or workers never re-read the value it stored") for s in SETTERS] + [
        dict(id="%s.structure.setter_%s_stores_into_its_own_field" % (SETTER_PROPS.get(s, "C13"), s), file=F, impl="impl Config", count_in_fn=s, pattern="self.%s.replace(" % f, expect=1,
             why="the setter stores the new value in the field the workers read for it") for s, f in [("pathset", "pathset"), ("file_watcher", "file_watcher"),
             ("keyboard_events", "keyboard_events"), ("throttle", "throttle"), ("filterer", "filterer"), ("on_error", "error_handler"), ("on_action", "action_handler"), ("on_action_async", "action_handler")]] + [
        # Changeable: "clone-out reads so handlers run without holding the lock" (RwLock guards are temporaries; Drop is not modelled by Verus, so
        # these are decided on the token stream: the guard is never bound to a name, the handler is called on the clone)
        dict(id="C13.structure.changeable_get_clones_out_of_a_temporary_guard", file=CH, impl="impl<T> Changeable<T> where T: Clone + Send,", count_in_fn="get",
             pattern="self.0.read()", expect=1, why="get() returns a clone; the read guard is a temporary dropped before get() returns"),
        dict(id="C13+C15.structure.changeable_get_binds_no_guard", file=CH, impl="impl<T> Changeable<T> where T: Clone + Send,", count_in_fn="get", pattern="let", expect=0,
             why="no lock guard outlives the expression that clones the value"),
        dict(id="C13+C15.structure.handler_is_called_on_the_clone_with_no_lock_held", file=CH, impl="impl<T, U> ChangeableFn<T, U> where T: Send, U: Send,", count_in_fn="call",
             pattern="(self.0.get())(data)", expect=1, why="the handler runs after get() has returned its clone: replacing the handler from inside the handler cannot deadlock, and the invocation in progress keeps the old one"),
        dict(id="C13+C15.structure.handler_call_takes_no_lock_itself", file=CH, impl="impl<T, U> ChangeableFn<T, U> where T: Send, U: Send,", count_in_fn="call", token_regex="read|write|lock", expect=0,
             why="see above"),
        dict(id="C13+C15.structure.a_cloned_handler_cell_is_the_same_cell", file=CH, impl="impl<T, U> Clone for ChangeableFn<T, U>", count_in_fn="clone", pattern="Self(Changeable::clone(&self.0))", expect=1,
             why="the worker tasks hold clones of the configuration's cells (error_hook gets config.error_handler.clone()): a clone must share the cell, or a handler replaced at run time never reaches the worker"),
        dict(id="C13+C15.structure.changeable_is_a_shared_cell", file=CH, count_in_file=True, pattern="#[derive(Clone)] pub struct Changeable<T>(Arc<RwLock<T>>);", expect=1,
             why="Changeable's derived Clone clones the Arc, not the value"),
        dict(id="C13+C15.structure.changeable_replace_guard_is_a_temporary", file=CH, impl="impl<T> Changeable<T> where T: Clone + Send,", count_in_fn="replace", pattern="let", expect=0,
             why="the write guard is dropped at the end of the assignment"),
    ],
)
