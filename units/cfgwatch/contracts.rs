// Contract overlay for unit `cfgwatch` (C13)
//@ item ConfigWatched
//@ item ConfigWatched::new
//@ header
    pub fn new(notify: NotifyS, count: CountS, env: &mut CEnv) -> (r: ConfigWatched)
        ensures r.first_run, // OBL:C13.config_watched.first_call_returns_at_once
//@ item ConfigWatched::next
//@ header
    #[verifier::exec_allows_no_decreases_clause]
    pub fn next(&mut self, env: &mut CEnv)
        ensures
            // what it reports as seen is the count it read last, and it read it in this call
            final(self).seen as nat == final(env).last_load_value@ && final(env).last_load_clock@ > old(env).clock@, // OBL:C13.config_watched.reports_the_count_it_read
            !final(self).first_run, // OBL:C13.config_watched.only_the_first_call_returns_at_once
            // the first call never sleeps; a later call does not sleep if the count moved since the last report (the sleep precondition carries the rest)
            old(self).first_run ==> final(env).waits@ == old(env).waits@, // OBL:C13.config_watched.first_call_returns_at_once
            // one change, one return: after the first call, every return reports a count that was not reported before (a return that leaves `seen` behind makes
            // the next call return at once for the same change: the worker would apply -- and report the failures of -- one configuration twice)
            !old(self).first_run ==> final(self).seen != old(self).seen, // OBL:C13+C15.config_watched.a_later_call_returns_only_with_a_count_not_reported_before
//@ loop each
invariant
    env.clock@ >= old(env).clock@, env.incs@ >= old(env).incs@,
    self.first_run == old(self).first_run,
    // what counts as reported is what the previous call returned with: it is only updated on the way out
    self.seen == old(self).seen, // OBL:C13.config_watched.sleeps_only_armed_and_with_nothing_unreported
    old(self).first_run ==> env.waits@ == old(env).waits@, // OBL:C13.config_watched.first_call_returns_at_once
//@ item Config::signal_change
//@ header
    pub fn signal_change(&self, env: &mut CEnv) -> (r: &Self)
        requires old(env).notifs@ <= old(env).incs@,
        ensures final(env).incs@ >= old(env).incs@ + 1, final(env).notifs@ == old(env).notifs@ + 1, // OBL:C13.signal_change.counts_then_wakes
//@ end
