// Contract overlay for unit `clipatterns` (C12)
//@ item filterer_defaults
//@ header
// WatchexecFilterer::new, first list: the built-in ignore patterns, present exactly when --no-default-ignore is absent
fn filterer_defaults(args: &Args, workdir: PathS) -> (r: Vec<Pat>)
    ensures
        r@ == (if args.filtering.no_default_ignore { Seq::<Pat>::empty() } else { default_ignores() }), // OBL:C12.filterer.no_default_ignore_removes_exactly_the_built_in_list
//@ epilogue
ignores
//@ item filterer_patterns
//@ header
// WatchexecFilterer::new, explicit patterns: every --filter, every line of every --filter-file and every --ignore pattern is handed over, in order,
// relative to the working directory, under EVERY mix of the discovery flags (no precondition on them; none is read)
fn filterer_patterns(args: &Args, workdir: PathS, mut ignores: Vec<Pat>) -> (r: Result<(Vec<Pat>, Vec<Pat>), Report>)
    ensures
        r is Ok ==> r->Ok_0.0@ == explicit(args.filtering.filter_patterns@, workdir) + files_patterns(args.filtering.filter_files@, args.filtering.filter_files@.len() as int), // OBL:C12+C11.filterer.explicit_filters_and_filter_files_reach_the_filterer_under_every_flag_mix
        r is Ok ==> r->Ok_0.1@ == ignores@ + explicit(args.filtering.ignore_patterns@, workdir), // OBL:C12+C11.filterer.explicit_ignore_patterns_reach_the_filterer_under_every_flag_mix
//@ prologue
let ghost ig0 = ignores@;
//@ epilogue
Ok((filters, ignores))
//@ closure 0
|f: &StrS| -> (vx_r: Pat) ensures vx_r == (*f, Some(workdir)) /* OBL:C12+C11.filterer.explicit_filters_and_filter_files_reach_the_filterer_under_every_flag_mix */
//@ closure_ghost 0
Ghost(|f: StrS| (f, Some(workdir)))
//@ closure 1
|f: &StrS| -> (vx_r: Pat) ensures vx_r == (*f, Some(workdir)) /* OBL:C12+C11.filterer.explicit_ignore_patterns_reach_the_filterer_under_every_flag_mix */
//@ closure_ghost 1
Ghost(|f: StrS| (f, Some(workdir)))
//@ loop over `&args.filtering.filter_files`
invariant
    0 <= $IT.pos@ <= $IT.v@.len(), $IT.v@ == args.filtering.filter_files@, ignores@ == ig0,
    filters@ == explicit(args.filtering.filter_patterns@, workdir) + files_patterns(args.filtering.filter_files@, $IT.pos@), // OBL:C12+C11.filterer.explicit_filters_and_filter_files_reach_the_filterer_under_every_flag_mix
ensures
    $IT.pos@ == $IT.v@.len(),
decreases $IT.v@.len() - $IT.pos@
//@ end
