// spec for unit `clipatterns` (C12), from the property statement: explicit --ignore / --filter / --filter-file values reach the filterer whatever
// the discovery flags are; --no-default-ignore removes exactly the built-in list
pub open spec fn explicit(pats: Seq<StrS>, workdir: PathS) -> Seq<Pat> { pats.map_values(|f: StrS| (f, Some(workdir))) }
pub open spec fn files_patterns(files: Seq<PathS>, n: int) -> Seq<Pat> decreases n {
    if n <= 0 { Seq::empty() } else { files_patterns(files, n - 1) + file_patterns(files[n - 1]) }
}
// the built-in list (transcribed; the manual names these sources: OS and editor droppings, python byte code, watchexec's own logs, and the
// metadata directories of bzr, darcs, fossil, git, hg, pijul, svn)
pub open spec fn default_ignores() -> Seq<Pat> {
    seq![
        (fmt_of("**{MAIN_SEPARATOR}.DS_Store"@), None::<PathS>),
        (lit_of("watchexec.*.log"@), None::<PathS>),
        (lit_of("*.py[co]"@), None::<PathS>),
        (lit_of("#*#"@), None::<PathS>),
        (lit_of(".#*"@), None::<PathS>),
        (lit_of(".*.kate-swp"@), None::<PathS>),
        (lit_of(".*.sw?"@), None::<PathS>),
        (lit_of(".*.sw?x"@), None::<PathS>),
        (fmt_of("**{MAIN_SEPARATOR}.bzr{MAIN_SEPARATOR}**"@), None::<PathS>),
        (fmt_of("**{MAIN_SEPARATOR}_darcs{MAIN_SEPARATOR}**"@), None::<PathS>),
        (fmt_of("**{MAIN_SEPARATOR}.fossil-settings{MAIN_SEPARATOR}**"@), None::<PathS>),
        (fmt_of("**{MAIN_SEPARATOR}.git{MAIN_SEPARATOR}**"@), None::<PathS>),
        (fmt_of("**{MAIN_SEPARATOR}.hg{MAIN_SEPARATOR}**"@), None::<PathS>),
        (fmt_of("**{MAIN_SEPARATOR}.pijul{MAIN_SEPARATOR}**"@), None::<PathS>),
        (fmt_of("**{MAIN_SEPARATOR}.svn{MAIN_SEPARATOR}**"@), None::<PathS>),
    ]
}
