# unit `clipatterns`: crates/cli/src/filterer.rs, the two pattern lists WatchexecFilterer::new builds — serves C12
F = "crates/cli/src/filterer.rs"
UNIT = dict(
    name="clipatterns",
    prelude=["clipatterns_env.rs"],
    spec=["spec.rs"],
    rules=dict(
        vec_idioms=True,
        subst=[("PathBuf", "PathS")],
    ),
    structural=[
        dict(id="C12.structure.filterer_new_hands_both_lists_to_the_globset_filterer", file=F, impl="impl WatchexecFilterer", count_in_fn="new",
             pattern="GlobsetFilterer::new(project_origin, filters, ignores, whitelist, ignore_files, exts,)", expect=1,
             why="the lists built by the two verified blocks are the filter and ignore arguments of GlobsetFilterer::new"),
        dict(id="C12.structure.filterer_new_ignores_touched_only_in_the_verified_blocks", file=F, impl="impl WatchexecFilterer", count_in_fn="new",
             token_regex=r"ignores", expect=5,
             why="`ignores` is declared, extended with the defaults, extended with the explicit patterns and handed over: nothing else touches it (the fifth is dirs::ignores)"),
        dict(id="C12.structure.filterer_new_filters_touched_only_in_the_verified_block", file=F, impl="impl WatchexecFilterer", count_in_fn="new",
             token_regex=r"filters", expect=3, why="`filters` is declared, extended per filter file and handed over"),
    ],
    extract=[
        dict(id="filterer_defaults", kind="block", src=F, within="new", stmts_from="let mut ignores = Vec::new();", stmts_to="let whitelist = args", free=["args", "workdir"],
             rules=dict(pre_subst=[("format!(", "vx_fmt("), ("String::from(", "vx_str(")])),
        dict(id="filterer_patterns", kind="block", src=F, within="new", stmts_from="let mut filters = args", stmts_to="let exts = args", free=["args", "workdir", "ignores"],
             rules=dict(for_desugar=[0], question=True, question_from="vx_id", pre_subst=[(".collect::<Vec<_>>()", ".collect()")])),
    ],
)
