# unit `names`: crates/signals/src/lib.rs — serves C19 (signal names: parsing, display)
S = "crates/signals/src/lib.rs"
UNIT = dict(
    name="names",
    prelude=["names_env.rs"],
    spec=["spec.rs"],
    rules=dict(
        strmatch=True,
        strlit="StrS::lit({})",
        result_unfold=True,
        pre_subst=[
            ("i32::from_str(s)", "vx_parse_i32(s)"),
            ('format!("SIG{}", s.to_ascii_uppercase())', "vx_sig_prefix(&s.to_ascii_uppercase())"),
            ('format!("SIG{name}")', "vx_sig_prefix(&name)"),
            ('format!("SIG{s}")', "vx_sig_prefix(s)"),
            ('format!("SIG{}", s)', "vx_sig_prefix(s)"),
            ('s.strip_prefix("SIG")', "s.vx_strip_sig()"),
            (".unwrap_or(s)", ".unwrap_or(*s)"),
            ('write!(f, "{n}")', "f.vx_write_num(*n)"),
            ('write!(\n\t\t\tf,\n\t\t\t"{}",', "vx_write_str_to("),
        ],
    ),
    extract=[
        dict(id="Signal", kind="type", src=S, name="Signal", structural=True),
        dict(id="Signal::from_unix_str", kind="fn", src=S, impl="impl Signal", impl_nth=1, name="from_unix_str"),
        dict(id="Signal::from_unix_str_impl", kind="fn", src=S, impl="impl Signal", impl_nth=1, name="from_unix_str_impl"),
        dict(id="Signal::from_windows_str", kind="fn", src=S, impl="impl Signal", impl_nth=1, name="from_windows_str"),
        dict(id="Signal::from_str", kind="fn", src=S, impl="impl FromStr for Signal", name="from_str", emit_impl="impl Signal"),
        dict(id="Signal::fmt", kind="fn", src=S, impl="impl fmt::Display for Signal", name="fmt", emit_impl="impl Signal",
             rules=dict(env_paths=["vx_write_str_to"], env_arg="f")),
    ],
)
