// spec for unit `names` (C19), from the property statement
// Signal::from_nix: proved by Kani in unit kani/signals (C19.signal_from_nix.first_class_for_posix_numbers, ...same_os_signal): first-class
// for the POSIX numbers, Custom(n) otherwise; here it is used through that contract
pub open spec fn from_nix_spec(n: i32) -> Signal {
    if n == 1 { Signal::Hangup } else if n == 2 { Signal::Interrupt } else if n == 3 { Signal::Quit } else if n == 9 { Signal::ForceStop }
    else if n == 10 { Signal::User1 } else if n == 12 { Signal::User2 } else if n == 15 { Signal::Terminate } else { Signal::Custom(n) }
}
impl Signal {
    #[verifier::external_body]
    pub fn from_nix(sig: NixSignal) -> (r: Signal) ensures r == from_nix_spec(sig.n) { unimplemented!() }
}
// the OS signal number a Signal denotes (to_nix, proved by Kani: C19.signal_to_nix.number_preserved)
pub open spec fn os_number(s: Signal) -> Option<i32> {
    match s {
        Signal::Hangup => Some(1i32), Signal::Interrupt => Some(2i32), Signal::Quit => Some(3i32), Signal::ForceStop => Some(9i32),
        Signal::User1 => Some(10i32), Signal::User2 => Some(12i32), Signal::Terminate => Some(15i32),
        Signal::Custom(n) => if nix_valid(n) { Some(n) } else { None },
    }
}
// what the unix parser yields for a string: by number, by long name, by short name
pub open spec fn unix_parse(s: StrS) -> Option<Signal> {
    if parse_i32(s) is Some && nix_valid(parse_i32(s)->Some_0) { Some(from_nix_spec(parse_i32(s)->Some_0)) }
    else if nix_from_name(upper(s)) is Some { Some(from_nix_spec(nix_from_name(upper(s))->Some_0)) }
    else if nix_from_name(sig_prefixed(upper(s))) is Some { Some(from_nix_spec(nix_from_name(sig_prefixed(upper(s)))->Some_0)) }
    else { None }
}
// the documented Windows control names (they take precedence over the unix names: STOP is ForceStop, not SIGSTOP)
pub open spec fn windows_parse(s: StrS) -> Option<Signal> {
    let u = upper(s);
    if u == lit($LIT("CTRL-CLOSE")) || u == lit($LIT("CTRL+CLOSE")) || u == lit($LIT("CLOSE")) { Some(Signal::Hangup) }
    else if u == lit($LIT("CTRL-BREAK")) || u == lit($LIT("CTRL+BREAK")) || u == lit($LIT("BREAK")) { Some(Signal::Terminate) }
    else if u == lit($LIT("CTRL-C")) || u == lit($LIT("CTRL+C")) || u == lit($LIT("C")) { Some(Signal::Interrupt) }
    else if u == lit($LIT("KILL")) || u == lit($LIT("SIGKILL")) || u == lit($LIT("FORCE-STOP")) || u == lit($LIT("STOP")) { Some(Signal::ForceStop) }
    else { None }
}
pub open spec fn parse(s: StrS) -> Option<Signal> { if windows_parse(s) is Some { windows_parse(s) } else { unix_parse(s) } }
// display form on unix
pub open spec fn display(s: Signal) -> StrS {
    match s {
        Signal::Hangup => lit($LIT("SIGHUP")), Signal::ForceStop => lit($LIT("SIGKILL")), Signal::Interrupt => lit($LIT("SIGINT")), Signal::Quit => lit($LIT("SIGQUIT")),
        Signal::Terminate => lit($LIT("SIGTERM")), Signal::User1 => lit($LIT("SIGUSR1")), Signal::User2 => lit($LIT("SIGUSR2")), Signal::Custom(n) => num_str(n),
    }
}
// ---- the statement's claims as lemmas over the specs the code is proved equal to ----
// "parsing is case-insensitive"
pub proof fn lemma_case_insensitive(s: StrS)
    ensures parse(upper(s)) == parse(s) // OBL:C19.names.parsing_is_case_insensitive
{
    broadcast use axiom_upper_idempotent, axiom_upper_keeps_numbers;
}
// "agrees between the short name, the SIG-prefixed name and the number (apart from the documented Windows control names)"
pub proof fn lemma_spellings_agree(n: i32)
    requires nix_valid(n), windows_parse(nix_name(n)) is None, windows_parse(nix_short(n)) is None, windows_parse(num_str(n)) is None,
    ensures parse(nix_name(n)) == Some(from_nix_spec(n)) && parse(nix_short(n)) == Some(from_nix_spec(n)) && parse(num_str(n)) == Some(from_nix_spec(n)) // OBL:C19.names.short_long_and_number_agree
{
    broadcast use axiom_nix_names, axiom_num_str, axiom_nix_from_name;
}
