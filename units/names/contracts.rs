// Contract overlay for unit `names` (C19)
//@ item Signal
//@ item Signal::from_unix_str
//@ header
pub fn from_unix_str(s: &StrS) -> (r: Result<Self, SignalParseError>)
    ensures (r is Ok) == (unix_parse(*s) is Some), r is Ok ==> r->Ok_0 == unix_parse(*s)->Some_0, // OBL:C19.from_unix_str.by_number_long_or_short_name
//@ item Signal::from_unix_str_impl
//@ header
fn from_unix_str_impl(s: &StrS) -> (r: Result<Self, SignalParseError>)
    ensures (r is Ok) == (unix_parse(*s) is Some), r is Ok ==> r->Ok_0 == unix_parse(*s)->Some_0, // OBL:C19.from_unix_str_impl.by_number_long_or_short_name
//@ item Signal::from_windows_str
//@ header
pub fn from_windows_str(s: &StrS) -> (r: Result<Self, SignalParseError>)
    ensures (r is Ok) == (windows_parse(*s) is Some), r is Ok ==> r->Ok_0 == windows_parse(*s)->Some_0, // OBL:C19.from_windows_str.documented_control_names
//@ item Signal::from_str
//@ header
fn from_str(s: &StrS) -> (r: Result<Self, SignalParseError>)
    ensures (r is Ok) == (parse(*s) is Some), r is Ok ==> r->Ok_0 == parse(*s)->Some_0, // OBL:C19.from_str.windows_names_take_precedence_then_unix
//@ item Signal::fmt
//@ header
fn fmt(&self, f: &mut Formatter) -> (r: Result<(), FmtError>)
    ensures final(f).out@ == old(f).out@.push(display(*self)), // OBL:C19.display.posix_names_and_plain_numbers
//@ item display_roundtrip
//@ raw
// "Every signal's display form parses back to the same OS signal"
pub proof fn lemma_display_parses_back(s: Signal)
    requires os_number(s) is Some,
        // the nix table names the first-class signals as displayed (validated by execution: replay/nixtable)
        nix_valid(1) && nix_name(1) == lit($LIT("SIGHUP")) && nix_valid(2) && nix_name(2) == lit($LIT("SIGINT")) && nix_valid(3) && nix_name(3) == lit($LIT("SIGQUIT"))
        && nix_valid(9) && nix_name(9) == lit($LIT("SIGKILL")) && nix_valid(10) && nix_name(10) == lit($LIT("SIGUSR1")) && nix_valid(12) && nix_name(12) == lit($LIT("SIGUSR2"))
        && nix_valid(15) && nix_name(15) == lit($LIT("SIGTERM")),
        // a displayed number is none of the Windows control names; a displayed name is a Windows name only for SIGKILL (ForceStop either way)
        forall|n: i32| windows_parse(#[trigger] num_str(n)) is None,
        forall|n: i32| #![trigger nix_name(n)] nix_valid(n) && n != 9 ==> windows_parse(nix_name(n)) is None,
    ensures parse(display(s)) is Some && os_number(parse(display(s))->Some_0) == os_number(s) // OBL:C19.names.display_form_parses_back_to_the_same_os_signal
{
    broadcast use axiom_nix_names, axiom_num_str, axiom_nix_from_name, axiom_upper_idempotent, axiom_upper_keeps_numbers, axiom_lit_injective;
    match s {
        Signal::Custom(n) => {}
        Signal::ForceStop => { assert(upper(nix_name(9)) == nix_name(9)); }
        Signal::Hangup => { assert(upper(nix_name(1)) == nix_name(1)); }
        Signal::Interrupt => { assert(upper(nix_name(2)) == nix_name(2)); }
        Signal::Quit => { assert(upper(nix_name(3)) == nix_name(3)); }
        Signal::Terminate => { assert(upper(nix_name(15)) == nix_name(15)); }
        Signal::User1 => { assert(upper(nix_name(10)) == nix_name(10)); }
        Signal::User2 => { assert(upper(nix_name(12)) == nix_name(12)); }
    }
}
//@ end
