# unit `discover`: crates/ignore-files/src/discover.rs — serves C14
D = "crates/ignore-files/src/discover.rs"
UNIT = dict(
    name="discover",
    prelude=["discover_env.rs"],
    spec=["spec.rs"],
    rules=dict(
        strlit="Name::lit({})",
        subst=[("HashSet<PathBuf>", "PathSet"), ("PathBuf", "PathS"), ("std::io::ErrorKind::NotFound", "IoErrorKind::NotFound"), ("std::io::Error", "IoError"), ("Error", "IoError"),
               ("IgnoreFilter", "FilterS"), ("&Path", "&PathS")],
    ),
    structural=[dict(id="C14.structure.vcs_metadata_directory_%s_is_never_entered" % n.strip("/._"), file=D, impl="impl DirTourist", count_in_fn="new", pattern='"%s"' % n, expect=1,
                     why="the walker's filter ignores the VCS metadata directories at the origin") for n in ["/.git", "/.hg", "/.bzr", "/_darcs", "/.fossil-settings", "/.svn", "/.pijul"]],
    extract=[
        dict(id="ProjectType", kind="type", src="crates/project-origins/src/lib.rs", name="ProjectType", structural=True),
        dict(id="IgnoreFile", kind="type", src="crates/ignore-files/src/lib.rs", name="IgnoreFile", structural=True, add_derive=["Copy"]),
        dict(id="find_file", kind="fn", src=D, name="find_file"),
        dict(id="discover_file", kind="fn", src=D, name="discover_file"),
        dict(id="IgnoreFilesFromOriginArgs", kind="type", src=D, name="IgnoreFilesFromOriginArgs"),
        dict(id="Visit", kind="type", src=D, name="Visit"),
        dict(id="from_origin", kind="fn", src=D, name="from_origin",
             rules=dict(vec_idioms=True, env_methods=["next", "add_last_file_to_filter"], env_paths=["DirTouristS::new", "vx_git_config_excludes"],
                        outline=[("match find_file(origin.join(\".git/config\"))", "vx_git_config_excludes(origin, &mut ignore_files, &mut errors);", "whole")],
                        pre_subst=[("DirTourist::new(", "DirTouristS::new("), ("errors.extend(dirs.errors);", "vx_extend_errors(&mut errors, dirs.errors);"),
                                   ("p.clone()", "*p"), ("origin.clone()", "*origin"), ("dir.clone()", "dir")])),
        dict(id="DirTourist", kind="type", src=D, name="DirTourist"),
        dict(id="DirTourist::must_skip", kind="fn", src=D, impl="impl DirTourist", name="must_skip",
             rules=dict(pre_subst=[("parent == self.base", "*parent == self.base")])),
        dict(id="DirTourist::skip", kind="fn", src=D, impl="impl DirTourist", name="skip",
             rules=dict(pre_subst=[("self.to_visit.retain(|p| !p.starts_with(check_path));", "vx_retain_not_under(&mut self.to_visit, check_path);")])),
        dict(id="DirTourist::next", kind="fn", src=D, impl="impl DirTourist", name="next"),
        dict(id="DirTourist::visit_path", kind="fn", src=D, impl="impl DirTourist", name="visit_path", rules=dict(any_idioms=True)),
    ],
)
