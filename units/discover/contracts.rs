// Contract overlay for unit `discover` (C14)
//@ item ProjectType
//@ item IgnoreFile
//@ item find_file
//@ header
pub fn find_file(path: PathS) -> (r: Result<Option<PathS>, IoError>)
    ensures
        is_ignore_file(path) ==> r == Ok::<Option<PathS>, IoError>(Some(path)), // OBL:C14.find_file.only_regular_non_empty_files_count
        !is_ignore_file(path) && !lookup_fails(path) ==> r == Ok::<Option<PathS>, IoError>(None), // OBL:C14.find_file.only_regular_non_empty_files_count
        lookup_fails(path) ==> r is Err, // OBL:C14.find_file.io_errors_are_reported
//@ item discover_file
//@ header
pub fn discover_file(files: &mut Vec<IgnoreFile>, errors: &mut Vec<IoError>, applies_in: Option<PathS>, applies_to: Option<ProjectType>, path: PathS) -> (r: bool)
    ensures
        // found: exactly one entry is appended, tagged with the directory it applies in and its VCS
        is_ignore_file(path) ==> r && final(files)@ == old(files)@.push(IgnoreFile { path, applies_in, applies_to }) && final(errors)@ == old(errors)@, // OBL:C14.discover_file.appends_the_found_file_tagged_as_given
        !is_ignore_file(path) ==> !r && final(files)@ == old(files)@, // OBL:C14.discover_file.nothing_for_absent_empty_or_irregular
        final(files)@ == acc(old(files)@, path, applies_in, applies_to), r == is_ignore_file(path),
        lookup_fails(path) ==> final(errors)@.len() == old(errors)@.len() + 1, // OBL:C14.find_file.io_errors_are_reported
        !lookup_fails(path) ==> final(errors)@ == old(errors)@,
//@ item IgnoreFilesFromOriginArgs
//@ item Visit
//@ item from_origin
//@ header
#[verifier::exec_allows_no_decreases_clause]
#[verifier::loop_isolation(false)]
pub fn from_origin(args: IgnoreFilesFromOriginArgs, env: &mut DEnv) -> (r: (Vec<IgnoreFile>, Vec<IoError>))
    requires old(env).visited@ == Seq::<PathS>::empty(), old(env).filter_added@ == Seq::<IgnoreFile>::empty(),
    ensures
        // the result is: the explicit files, [the git-config excludes file], the origin-level VCS files that exist, then for every directory the
        // walker handed out, in order, its .ignore/.gitignore/.hgignore that exist: each tagged with the directory it applies in; nothing else
        from_origin_result(r.0@, args, final(env).after_gitcfg@, final(env).visited@), // OBL:C14+C12.from_origin.exactly_the_existing_files_of_the_visited_directories_tagged
        // every file found in a directory is added to the walker's filter before the next directory is asked for
        final(env).filter_added@ == all_dir_files(Seq::<IgnoreFile>::empty(), final(env).visited@), // OBL:C14.from_origin.found_files_prune_the_rest_of_the_walk
//@ prologue
    broadcast use lemma_all_dir_files_push;
    let ghost args0 = args;
//@ closure 0
|p: &PathS| -> (vx_r: IgnoreFile) ensures vx_r == explicit_entry(args.origin)(*p) /* OBL:C14.from_origin.explicit_files_apply_in_the_origin */
//@ closure_ghost 0
Ghost(explicit_entry(args.origin))
//@ loop 0
let ghost pre_walk = ignore_files@; let ghost g1 = env.after_gitcfg@;
invariant
    env.after_gitcfg@ == g1,
    ignore_files@ == all_dir_files(pre_walk, env.visited@), // OBL:C14+C12.from_origin.exactly_the_existing_files_of_the_visited_directories_tagged
    env.filter_added@ == all_dir_files(Seq::<IgnoreFile>::empty(), env.visited@), // OBL:C14.from_origin.found_files_prune_the_rest_of_the_walk
//@ hint after `vx_extend_errors(&mut errors, dirs.errors);`
proof { assert(from_origin_result(ignore_files@, args0, env.after_gitcfg@, env.visited@)); } // OBL:C14+C12.from_origin.exactly_the_existing_files_of_the_visited_directories_tagged
//@ hint after `errors.push(err);`
proof { assert(from_origin_result(ignore_files@, args0, env.after_gitcfg@, env.visited@)); } // OBL:C14+C12.from_origin.exactly_the_existing_files_of_the_visited_directories_tagged
//@ item DirTourist
//@ item DirTourist::must_skip
//@ header
    #[verifier::loop_isolation(false)]
    pub fn must_skip(&self, mut path: &PathS) -> (r: bool)
        ensures r == must_skip_spec(*path, self.base, self.to_skip.s@), // OBL:C14.must_skip.a_skipped_directory_covers_its_whole_subtree
//@ prologue
        broadcast use axiom_parent_depth;
        let ghost orig = *path;
//@ loop 0
invariant
    !self.to_skip.s@.contains(*path),
    must_skip_spec(orig, self.base, self.to_skip.s@) == up_n(*path, self.base, self.to_skip.s@, depth(*path)), // OBL:C14.must_skip.a_skipped_directory_covers_its_whole_subtree
decreases depth(*path) // OBL:C14.must_skip.the_walk_up_terminates
//@ item DirTourist::skip
//@ header
    pub fn skip(&mut self, path: PathS)
        ensures
            // the directory goes on the skip list and everything queued beneath it is dropped; nothing else changes
            final(self).to_skip.s@ == old(self).to_skip.s@.insert(path), // OBL:C14.skip.pruned_subtree_is_never_entered
            forall|x: PathS| #[trigger] final(self).to_visit@.contains(x) <==> old(self).to_visit@.contains(x) && !under(x, path), // OBL:C14.skip.pruned_subtree_is_never_entered
            final(self).base == old(self).base, final(self).filter.files == old(self).filter.files, final(self).errors@ == old(self).errors@,
            final(self).to_explicitly_watch.s == old(self).to_explicitly_watch.s,
//@ item DirTourist::add_last_file_to_filter
//@ header
    pub fn add_last_file_to_filter(&mut self, files: &Vec<IgnoreFile>, errors: &mut Vec<IoError>)
        ensures
            // the file found last is what the walker's filter learns (so that it prunes the rest of the walk); a failure is reported, not fatal
            files@.len() > 0 ==> (final(self).filter.files@ == old(self).filter.files@.push(files@.last()) && final(errors)@ == old(errors)@)
                || (final(self).filter.files@ == old(self).filter.files@ && final(errors)@.len() == old(errors)@.len() + 1), // OBL:C14.add_last_file_to_filter.feeds_the_file_found_last
            files@.len() == 0 ==> final(self).filter.files@ == old(self).filter.files@ && final(errors)@ == old(errors)@,
            final(self).to_visit@ == old(self).to_visit@, final(self).to_skip.s == old(self).to_skip.s, final(self).base == old(self).base,
//@ item DirTourist::new
//@ header
    pub fn new(base: &PathS, ignore_files: &Vec<IgnoreFile>, watch_files: &Vec<PathS>) -> (r: Result<Self, IoError>)
        ensures
            // "when explicit watch paths are given, nothing from directories unrelated to them": the walker is handed EVERY explicit watch, and nothing else
            // (an empty set means "no explicit watches were given" to visit_path, so dropping watches can turn a restricted walk into an unrestricted one)
            r is Ok ==> r->Ok_0.to_explicitly_watch.s@ =~= watch_files@.to_set(), // OBL:C14.new.the_walker_is_handed_every_explicit_watch_and_nothing_else
            // the walk starts at the (canonical) origin with nothing skipped, no error on record, and a filter made of the origin-level files
            r is Ok ==> r->Ok_0.base == canon(*base) && r->Ok_0.to_visit@ =~= seq![canon(*base)] && r->Ok_0.to_skip.s@ =~= Set::<PathS>::empty()
                && r->Ok_0.errors@.len() == 0 && r->Ok_0.filter.files@ == ignore_files@, // OBL:C14.new.the_walk_starts_at_the_origin_with_the_origin_level_files_and_nothing_skipped
//@ item DirTourist::next
//@ header
    pub fn next(&mut self) -> (r: Visit)
        ensures
            // done exactly when nothing is queued; otherwise the outcome of visiting one queued directory
            old(self).to_visit@.len() == 0 ==> r is Done && final(self).to_visit@ == old(self).to_visit@ && final(self).to_skip.s == old(self).to_skip.s, // OBL:C14.next.done_only_when_the_queue_is_empty
            old(self).to_visit@.len() > 0 ==> !(r is Done), // OBL:C14.next.done_only_when_the_queue_is_empty
            r is Find ==> old(self).to_visit@.contains(r->Find_0), // OBL:C14.next.only_queued_directories_are_handed_out
//@ item DirTourist::visit_path
//@ header
    #[verifier::exec_allows_no_decreases_clause]
    #[verifier::loop_isolation(false)]
    pub fn visit_path(&mut self, path: PathS) -> (r: Visit)
        ensures
            !(r is Done),
            final(self).base == old(self).base, final(self).filter.files == old(self).filter.files, final(self).to_explicitly_watch.s == old(self).to_explicitly_watch.s,
            old(self).to_skip.s@.subset_of(final(self).to_skip.s@),
            // a directory is handed out only if it is not beneath a skipped one, the ignore files found so far do not ignore it, and it is related to the explicit watch paths
            r is Find ==> r->Find_0 == path && !must_skip_spec(path, old(self).base, old(self).to_skip.s@) && dir_passes(old(self).filter.files@, path)
                && related(path, old(self).to_explicitly_watch.s@), // OBL:C14.visit_path.hands_out_only_unskipped_unignored_related_directories
            // ... and every such directory IS handed out, unless listing it failed, which is then reported (nothing that should be searched is silently dropped)
            !must_skip_spec(path, old(self).base, old(self).to_skip.s@) && dir_passes(old(self).filter.files@, path) && related(path, old(self).to_explicitly_watch.s@)
                ==> r is Find || final(self).errors@.len() > old(self).errors@.len(), // OBL:C14.visit_path.every_unskipped_unignored_related_directory_is_handed_out
            // an ignored or unrelated directory is pruned: on the skip list, and nothing beneath it stays queued
            r is Skip && !must_skip_spec(path, old(self).base, old(self).to_skip.s@) && !(dir_passes(old(self).filter.files@, path) && related(path, old(self).to_explicitly_watch.s@))
                ==> final(self).to_skip.s@ == old(self).to_skip.s@.insert(path)
                    && (forall|x: PathS| #[trigger] final(self).to_visit@.contains(x) <==> old(self).to_visit@.contains(x) && !under(x, path)), // OBL:C14.visit_path.ignored_or_unrelated_directory_is_pruned
            // every listed subdirectory that is not beneath a skipped directory is queued; whether the ignore files ignore it is decided when it is
            // visited, with the ignore files of THIS directory (which may re-include it) loaded by then
            r is Find ==> fs_list(path) is Ok && (forall|i: int| 0 <= i < fs_list(path)->Ok_0.len() && good_child(#[trigger] fs_list(path)->Ok_0[i])
                && !must_skip_spec(fs_list(path)->Ok_0[i].p, old(self).base, final(self).to_skip.s@) ==> final(self).to_visit@.contains(fs_list(path)->Ok_0[i].p)), // OBL:C14.visit_path.every_unskipped_subdirectory_is_queued
            // while a directory is listed none of its readable children is put on the skip list: a child is judged against the ignore files only
            // when it is visited itself, with this directory's own ignore files loaded (D16)
            forall|x: PathS| #[trigger] final(self).to_skip.s@.contains(x) ==> old(self).to_skip.s@.contains(x) || x == path
                || (fs_list(path) is Ok && exists|i: int| 0 <= i < fs_list(path)->Ok_0.len() && #[trigger] fs_list(path)->Ok_0[i].p == x && fs_list(path)->Ok_0[i].ft is Err), // OBL:C14.visit_path.no_readable_child_is_skipped_while_its_parent_is_listed
            // nothing but children of this directory is ever added to the queue
            forall|x: PathS| #[trigger] final(self).to_visit@.contains(x) ==> old(self).to_visit@.contains(x) || parent_of(x) == Some(path), // OBL:C14.visit_path.only_children_are_queued
//@ closure 0
|p: &PathS| -> (vx_b: bool) ensures vx_b == rel1(path, *p) /* OBL:C14.visit_path.hands_out_only_unskipped_unignored_related_directories */
//@ closure_ghost 0
Ghost(|a: PathS| rel1(path, a))
//@ loop 0
let ghost lst = dir.entries@; let ghost tv0 = old(self).to_visit@; let ghost d0 = path;
invariant
    0 <= dir.pos@ <= dir.entries@.len(), dir.entries@ == lst, lst == fs_list(d0)->Ok_0, fs_list(d0) is Ok,
    self.base == old(self).base, self.filter.files == old(self).filter.files, self.to_explicitly_watch.s == old(self).to_explicitly_watch.s,
    old(self).to_skip.s@.subset_of(self.to_skip.s@), self.errors@.len() >= old(self).errors@.len(),
    forall|i: int| 0 <= i < lst.len() ==> parent_of((#[trigger] lst[i]).p) == Some(d0),
    inv_queued(lst, dir.pos@, self.base, self.to_skip.s@, self.to_visit@), // OBL:C14.visit_path.every_unskipped_subdirectory_is_queued
    forall|x: PathS| #[trigger] self.to_skip.s@.contains(x) ==> old(self).to_skip.s@.contains(x) || (exists|i: int| 0 <= i < dir.pos@ && #[trigger] lst[i].p == x && lst[i].ft is Err), // OBL:C14.visit_path.no_readable_child_is_skipped_while_its_parent_is_listed
    forall|x: PathS| #[trigger] self.to_visit@.contains(x) ==> tv0.contains(x) || parent_of(x) == Some(d0), // OBL:C14.visit_path.only_children_are_queued
body_start:
let ghost sk0 = self.to_skip.s@; let ghost tv1 = self.to_visit@; let ghost n0 = dir.pos@ - 1;
proof { assert(lst[n0] == entry); }
//@ hint? 1 after `self.skip(path);`
proof {
    // (this is the "unrelated" exit: no explicitly watched path is related to this directory)
    assert forall|a: PathS| old(self).to_explicitly_watch.s@.contains(a) implies !rel1(path, a) by {
        let pp = |a: PathS| rel1(path, a);
        assert(pp(a) == rel1(path, a));
    }
}
//@ hint 1 after `if self.must_skip(&path) {`
proof { lemma_after_nothing(lst, n0, self.base, sk0, tv1); } // OBL:C14.visit_path.every_unskipped_subdirectory_is_queued
//@ hint? 2 after `self.skip(path);`
proof { lemma_after_skip(lst, n0, d0, self.base, sk0, self.to_skip.s@, tv1, self.to_visit@); } // OBL:C14.visit_path.every_unskipped_subdirectory_is_queued
//@ hint? 3 after `self.skip(path);`
proof { lemma_after_skip(lst, n0, d0, self.base, sk0, self.to_skip.s@, tv1, self.to_visit@); } // OBL:C14.visit_path.every_unskipped_subdirectory_is_queued
//@ hint after `self.to_visit.push(path);`
proof { lemma_after_push(lst, n0, self.base, sk0, tv1); lemma_push_contains(tv1, path); } // OBL:C14.visit_path.every_unskipped_subdirectory_is_queued
//@ hint 1 after `} else {`
proof { lemma_after_nothing(lst, n0, self.base, sk0, tv1); } // OBL:C14.visit_path.every_unskipped_subdirectory_is_queued
//@ end
