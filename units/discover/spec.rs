// spec for unit `discover` (C14), from the property statement
// "only regular, non-empty files count"
pub open spec fn is_ignore_file(p: PathS) -> bool { fs_meta(p) is Ok && fs_meta(p)->Ok_0.file && fs_meta(p)->Ok_0.size > 0 }
// an I/O error other than "not found" is reported, not swallowed
pub open spec fn lookup_fails(p: PathS) -> bool { fs_meta(p) is Err && !fs_meta(p)->Err_0.not_found }
// one lookup: the list grows by the file, tagged as given, iff it is a regular non-empty file
pub open spec fn acc(s: Seq<IgnoreFile>, path: PathS, applies_in: Option<PathS>, applies_to: Option<ProjectType>) -> Seq<IgnoreFile> {
    if is_ignore_file(path) { s.push(IgnoreFile { path, applies_in, applies_to }) } else { s }
}
// "plus the origin-level VCS-specific files"
pub open spec fn origin_level(s: Seq<IgnoreFile>, o: PathS) -> Seq<IgnoreFile> {
    acc(acc(acc(acc(s,
        pjoin(o, $LIT(".bzrignore")), Some(o), Some(ProjectType::Bazaar)),
        pjoin(o, $LIT("_darcs/prefs/boring")), Some(o), Some(ProjectType::Darcs)),
        pjoin(o, $LIT(".fossil-settings/ignore-glob")), Some(o), Some(ProjectType::Fossil)),
        pjoin(o, $LIT(".git/info/exclude")), Some(o), Some(ProjectType::Git))
}
// "every non-empty .gitignore, .ignore and .hgignore ... each tagged with the directory it applies in"
pub open spec fn dir_files(s: Seq<IgnoreFile>, d: PathS) -> Seq<IgnoreFile> {
    acc(acc(acc(s,
        pjoin(d, $LIT(".ignore")), Some(d), None),
        pjoin(d, $LIT(".gitignore")), Some(d), Some(ProjectType::Git)),
        pjoin(d, $LIT(".hgignore")), Some(d), Some(ProjectType::Mercurial))
}
// the files of the directories in `v`, in order, appended to `s`
pub open spec fn all_dir_files(s: Seq<IgnoreFile>, v: Seq<PathS>) -> Seq<IgnoreFile> decreases v.len() {
    if v.len() == 0 { s } else { dir_files(all_dir_files(s, v.drop_last()), v.last()) }
}
pub broadcast proof fn lemma_all_dir_files_push(s: Seq<IgnoreFile>, v: Seq<PathS>, d: PathS)
    ensures #[trigger] all_dir_files(s, v.push(d)) == dir_files(all_dir_files(s, v), d),
{ assert(v.push(d).drop_last() =~= v); assert(v.push(d).last() == d); }
pub open spec fn explicit_entry(o: PathS) -> spec_fn(PathS) -> IgnoreFile { |p: PathS| IgnoreFile { path: p, applies_in: Some(o), applies_to: None } }
// the explicit files, then at most one git-config excludes file (applies everywhere, git), then the origin-level files, then the visited directories' files
pub open spec fn from_origin_result(r: Seq<IgnoreFile>, args: IgnoreFilesFromOriginArgs, g1: Seq<IgnoreFile>, visited: Seq<PathS>) -> bool {
    let ex = args.explicit_ignores@.map_values(explicit_entry(args.origin));
    (g1 == ex || (g1.len() == ex.len() + 1 && g1.drop_last() == ex && g1.last().applies_in is None && g1.last().applies_to == Some(ProjectType::Git)))
    && r == all_dir_files(origin_level(g1, args.origin), visited)
}
// must_skip: the path itself or one of its ancestors strictly below the base is on the skip list
pub open spec fn up_n(p: PathS, base: PathS, skip: Set<PathS>, n: nat) -> bool decreases n {
    if n == 0 { false } else { match parent_of(p) { None => false, Some(q) => q != base && (skip.contains(q) || up_n(q, base, skip, (n - 1) as nat)) } }
}
pub open spec fn must_skip_spec(p: PathS, base: PathS, skip: Set<PathS>) -> bool { skip.contains(p) || up_n(p, base, skip, depth(p)) }
pub proof fn lemma_up_mono(p: PathS, base: PathS, s1: Set<PathS>, s2: Set<PathS>, n: nat)
    requires s1.subset_of(s2), up_n(p, base, s1, n),
    ensures up_n(p, base, s2, n),
    decreases n,
{
    if n > 0 { match parent_of(p) { None => {}, Some(q) => { if !s1.contains(q) { lemma_up_mono(q, base, s1, s2, (n - 1) as nat); } } } }
}
// a longer skip list skips at least as much
pub proof fn lemma_must_skip_mono(p: PathS, base: PathS, s1: Set<PathS>, s2: Set<PathS>)
    requires s1.subset_of(s2), must_skip_spec(p, base, s1),
    ensures must_skip_spec(p, base, s2),
{ if !s1.contains(p) { lemma_up_mono(p, base, s1, s2, depth(p)); } }
pub proof fn lemma_sibling_not_under(a: PathS, q: PathS, d: PathS)
    requires parent_of(a) == Some(d), parent_of(q) == Some(d), a != q,
    ensures !under(a, q),
{
    broadcast use axiom_parent_depth, axiom_under, axiom_under_depth;
    if under(a, q) { assert(under(d, q)); assert(depth(q) <= depth(d)); }
}
pub proof fn lemma_push_contains<T>(s: Seq<T>, v: T)
    ensures s.push(v).contains(v), forall|x: T| s.contains(x) ==> #[trigger] s.push(v).contains(x),
        forall|x: T| #[trigger] s.push(v).contains(x) ==> s.contains(x) || x == v,
{
    assert(s.push(v)[s.len() as int] == v);
    assert forall|x: T| s.contains(x) implies #[trigger] s.push(v).contains(x) by {
        let i = choose|i: int| 0 <= i < s.len() && s[i] == x;
        assert(s.push(v)[i] == x);
    }
    assert forall|x: T| #[trigger] s.push(v).contains(x) implies s.contains(x) || x == v by {
        let i = choose|i: int| 0 <= i < s.push(v).len() && s.push(v)[i] == x;
        if i < s.len() { assert(s[i] == x); }
    }
}
// "when explicit watch paths are given": the directory is beneath one of them or above one of them
pub open spec fn related(p: PathS, ex: Set<PathS>) -> bool { ex =~= Set::<PathS>::empty() || exists|a: PathS| ex.contains(a) && #[trigger] rel1(p, a) }
pub open spec fn rel1(p: PathS, a: PathS) -> bool { under(p, a) || under(a, p) }
// a listed child of `d` that is a directory. Whether the ignore files ignore it is NOT decided while its parent is listed (the parent's own ignore
// files, which may re-include it, are loaded only after the listing): it is decided when the child itself is visited
pub open spec fn good_child(e: DirEntryS) -> bool { e.ft is Ok && e.ft->Ok_0.dir }
pub open spec fn inv_queued(lst: Seq<DirEntryS>, n: int, base: PathS, sk: Set<PathS>, tv: Seq<PathS>) -> bool {
    forall|i: int| 0 <= i < n && good_child(#[trigger] lst[i]) && !must_skip_spec(lst[i].p, base, sk) ==> tv.contains(lst[i].p)
}
// the listed entry `q = lst[n]` was put on the skip list (and everything beneath it dropped from the queue)
pub proof fn lemma_after_skip(lst: Seq<DirEntryS>, n: int, d0: PathS, base: PathS, sk0: Set<PathS>, sk1: Set<PathS>, tv1: Seq<PathS>, tv2: Seq<PathS>)
    requires 0 <= n < lst.len(), forall|i: int| 0 <= i < lst.len() ==> parent_of((#[trigger] lst[i]).p) == Some(d0),
        sk1 == sk0.insert(lst[n].p), forall|x: PathS| #[trigger] tv2.contains(x) <==> tv1.contains(x) && !under(x, lst[n].p),
        inv_queued(lst, n, base, sk0, tv1),
    ensures inv_queued(lst, n + 1, base, sk1, tv2),
{
    let q = lst[n].p;
    assert(sk0.subset_of(sk1));
    assert forall|i: int| 0 <= i < n + 1 && good_child(#[trigger] lst[i]) && !must_skip_spec(lst[i].p, base, sk1) implies tv2.contains(lst[i].p) by {
        if i < n {
            if must_skip_spec(lst[i].p, base, sk0) { lemma_must_skip_mono(lst[i].p, base, sk0, sk1); }
            assert(tv1.contains(lst[i].p));
            if lst[i].p != q { lemma_sibling_not_under(lst[i].p, q, d0); }
        }
    }
}
// the listed entry lst[n] was queued
pub proof fn lemma_after_push(lst: Seq<DirEntryS>, n: int, base: PathS, sk: Set<PathS>, tv1: Seq<PathS>)
    requires 0 <= n < lst.len(), inv_queued(lst, n, base, sk, tv1),
    ensures inv_queued(lst, n + 1, base, sk, tv1.push(lst[n].p)),
{ lemma_push_contains(tv1, lst[n].p); }
// the listed entry lst[n] is already beneath a skipped directory, or is not a directory: nothing to do
pub proof fn lemma_after_nothing(lst: Seq<DirEntryS>, n: int, base: PathS, sk: Set<PathS>, tv1: Seq<PathS>)
    requires 0 <= n < lst.len(), inv_queued(lst, n, base, sk, tv1),
        must_skip_spec(lst[n].p, base, sk) || (lst[n].ft is Ok && !lst[n].ft->Ok_0.dir),
    ensures inv_queued(lst, n + 1, base, sk, tv1),
{ }
