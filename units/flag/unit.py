# unit `flag`: crates/supervisor/src/flag.rs + Ticket::poll — serves C07 (every waiting task is woken)
F = "crates/supervisor/src/flag.rs"
M = "crates/supervisor/src/job/messages.rs"
UNIT = dict(
    name="flag",
    prelude=["flag_env.rs"],
    spec=["spec.rs"],
    rules=dict(
        env_methods=["load", "store", "wake", "push", "vx_lock", "vx_iter_any", "poll", "raised"],
        env_paths=["vx_take_guard"],
        pre_subst=[
            ('.lock().expect("flag wakers lock poisoned")', ".vx_lock()"),
            ("std::mem::take(&mut *", "vx_take_guard("),
            (".iter().any(", ".vx_iter_any("),
            ("Relaxed", "Relaxed()"),
            # polling through a Pin is calling poll; mapping a future's output to () does not change when it is ready
            ("Pin::new(&mut ", "(&mut "),
            (".map(|_| ())", ""),
            ("self.get_mut()", "self"),
        ],
        subst=[
            ("Arc<Inner>", "Inner"),
            ("Mutex<Vec<Waker>>", "WakerMutex"),
        ],
    ),
    extract=[
        dict(id="Inner", kind="type", src=F, name="Inner"),
        dict(id="Flag", kind="type", src=F, name="Flag", drop_derive=["Clone"]),
        dict(id="Ticket", kind="type", src=M, name="Ticket", drop_derive=["Clone"]),
        dict(id="Flag::raised", kind="fn", src=F, impl="impl Flag", name="raised"),
        dict(id="Flag::raise", kind="fn", src=F, impl="impl Flag", name="raise"),
        dict(id="Flag::poll", kind="fn", src=F, impl="impl Future for Flag", name="poll", emit_impl="impl Flag"),
        dict(id="Ticket::poll", kind="fn", src=M, impl="impl Future for Ticket", name="poll", emit_impl="impl Ticket"),
    ],
)
