# unit `flag`: crates/supervisor/src/flag.rs — serves C07 (every waiting task is woken)
F = "crates/supervisor/src/flag.rs"
UNIT = dict(
    name="flag",
    prelude=["flag_env.rs"],
    spec=["spec.rs"],
    rules=dict(
        env_methods=["load", "store", "wake", "push", "vx_lock", "vx_iter_any"],
        env_paths=["vx_take_guard"],
        pre_subst=[
            ('.lock().expect("flag wakers lock poisoned")', ".vx_lock()"),
            ("std::mem::take(&mut *", "vx_take_guard("),
            (".iter().any(", ".vx_iter_any("),
            ("Relaxed", "Relaxed()"),
        ],
        subst=[
            ("Arc<Inner>", "Inner"),
            ("Mutex<Vec<Waker>>", "WakerMutex"),
            ("Poll::Ready(())", "Poll::Ready(())"),
        ],
    ),
    extract=[
        dict(id="Inner", kind="type", src=F, name="Inner"),
        dict(id="Flag", kind="type", src=F, name="Flag", drop_derive=["Clone"]),
        dict(id="Flag::raised", kind="fn", src=F, impl="impl Flag", name="raised"),
        dict(id="Flag::raise", kind="fn", src=F, impl="impl Flag", name="raise"),
        dict(id="Flag::poll", kind="fn", src=F, impl="impl Future for Flag", name="poll", emit_impl="impl Flag"),
    ],
)
