# unit `flag`: crates/supervisor/src/flag.rs + Ticket::poll — serves C07 (every waiting task is woken)
F = "crates/supervisor/src/flag.rs"
M = "crates/supervisor/src/job/messages.rs"
UNIT = dict(
    name="flag",
    prelude=["flag_env.rs"],
    spec=["spec.rs"],
    rules=dict(
        env_methods=["load", "store", "wake", "push", "vx_lock", "vx_iter_any", "vx_iter_all", "poll", "raised"],
        env_paths=["vx_take_guard"],
        pre_subst=[
            ('.lock().expect("flag wakers lock poisoned")', ".vx_lock()"),
            ("std::mem::take(&mut *", "vx_take_guard("),
            (".iter().any(", ".vx_iter_any("),
            (".iter().all(", ".vx_iter_all("),
            ("Relaxed", "Relaxed()"),
            # polling through a Pin is calling poll; mapping a future's output to () does not change when it is ready
            ("Pin::new(&mut ", "(&mut "),
            (".map(|_| ())", ""),
            ("self.get_mut()", "self"),
        ],
        subst=[
            ("Arc<Inner>", "Inner"),
            ("Mutex<Vec<Waker>>", "WakerMutex"),
        ],
    ),
    structural=[
        dict(id="C07+C09.structure.a_fresh_flag_is_not_raised", file=F, impl="impl Default for Flag", count_in_fn="default", pattern="Self::new(false)", expect=1,
             why="prepare_control gives every control a default flag: a ticket must not be resolved before its control ran"),
        dict(id="C07+C09.structure.flag_new_starts_with_the_given_value_and_no_waiters", file=F, impl="impl Flag", count_in_fn="new",
             pattern="Self(Arc::new(Inner { wakers: Mutex::new(Vec::new()), set: AtomicBool::new(value), }))", expect=1, why="see above"),
    ],
    extract=[
        dict(id="Inner", kind="type", src=F, name="Inner"),
        dict(id="Flag", kind="type", src=F, name="Flag", drop_derive=["Clone"]),
        dict(id="Ticket", kind="type", src=M, name="Ticket", drop_derive=["Clone"]),
        dict(id="Flag::raised", kind="fn", src=F, impl="impl Flag", name="raised"),
        dict(id="Flag::raise", kind="fn", src=F, impl="impl Flag", name="raise"),
        dict(id="Flag::poll", kind="fn", src=F, impl="impl Future for Flag", name="poll", emit_impl="impl Flag"),
        dict(id="Ticket::poll", kind="fn", src=M, impl="impl Future for Ticket", name="poll", emit_impl="impl Ticket"),
    ],
)
