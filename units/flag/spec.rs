// spec for unit `flag`
pub open spec fn fid(f: &Flag) -> int { f.0.set.id }
pub open spec fn wf_flag(f: &Flag, env: &FEnv) -> bool { f.0.wakers.id == f.0.set.id && known(env, f.0.set.id) }
// futures::future::select(a, b) on two flags: polled in order a then b, ready as soon as one is (ASSUMED contract of the futures crate);
// its poll is this VERIFIED function, which calls the real Flag::poll on both
pub struct SelectFut { pub a: Flag, pub b: Flag }
pub fn select(a: Flag, b: Flag) -> (r: SelectFut) ensures r.a == a, r.b == b { SelectFut { a, b } }
impl SelectFut {
    pub fn poll(&mut self, cx: &mut Context, env: &mut FEnv) -> (r: Poll<()>)
        requires wf_flag(&old(self).a, old(env)), wf_flag(&old(self).b, old(env)),
        ensures
            final(env).set == old(env).set, final(env).woken == old(env).woken,
            r is Ready <==> (old(env).set@[fid(&old(self).a)] || old(env).set@[fid(&old(self).b)]),
            r is Pending ==> reg_contains(final(env).registered@[fid(&old(self).a)], old(cx).task) && reg_contains(final(env).registered@[fid(&old(self).b)], old(cx).task),
            forall|g: int, t: int| old(env).registered@.contains_key(g) && reg_contains(old(env).registered@[g], t) ==> final(env).registered@.contains_key(g) && #[trigger] reg_contains(final(env).registered@[g], t),
            forall|g: int| old(env).registered@.contains_key(g) ==> final(env).registered@.contains_key(g),
    {
        let ra = self.a.poll(cx, env);
        if let Poll::Ready(()) = ra { return Poll::Ready(()); }
        self.b.poll(cx, env)
    }
}
