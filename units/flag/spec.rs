// spec for unit `flag`
