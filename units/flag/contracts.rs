// Contract overlay for unit `flag` (C07: "this holds for every clone of a ticket, for any number of tasks waiting concurrently")
//@ item Inner
//@ item Flag
//@ item FlagClone
//@ raw
// #[derive(Clone)] on Flag(Arc<Inner>): a clone shares the same Inner (ASSUMED: Arc::clone)
impl Clone for Flag {
    #[verifier::external_body]
    fn clone(&self) -> (r: Flag) ensures r == *self { unimplemented!() }
}
//@ item Ticket
//@ item Flag::raised
//@ header
pub fn raised(&self, env: &mut FEnv) -> (r: bool)
    requires wf_flag(self, old(env)),
    ensures r == old(env).set@[fid(self)], *final(env) == *old(env), // OBL:C07+C08.flag.raised_reads_the_flag
//@ item Flag::raise
//@ header
pub fn raise(&self, env: &mut FEnv)
    requires wf_flag(self, old(env)),
    ensures
        known(final(env), fid(self)) && final(env).set@[fid(self)], // OBL:C07+C08.flag.raise_sets
        // every task registered as waiting on this flag is woken, however many there are
        forall|i: int| 0 <= i < old(env).registered@[fid(self)].len() ==> final(env).woken@.contains(#[trigger] old(env).registered@[fid(self)][i]), // OBL:C07+C08.flag.raise_wakes_every_waiter
        forall|t: int| old(env).woken@.contains(t) ==> final(env).woken@.contains(t),
//@ loop 0 iter=vx_it
let ghost vx_l = *env; let ghost vx_ws = wakers@;
invariant
    vx_it.seq() == vx_ws, 0 <= vx_it.index@ <= vx_ws.len(), env.set == vx_l.set, env.registered == vx_l.registered, vx_ws.len() == old(env).registered@[fid(self)].len(),
    forall|i: int| #![trigger vx_ws[i]] #![trigger old(env).registered@[fid(self)][i]] 0 <= i < vx_ws.len() ==> vx_ws[i].task == old(env).registered@[fid(self)][i],
    forall|i: int| 0 <= i < vx_it.index@ ==> env.woken@.contains((#[trigger] vx_ws[i]).task), // OBL:C07+C08.flag.inv_every_waker_so_far_woken
    forall|t: int| vx_l.woken@.contains(t) ==> env.woken@.contains(t),
//@ item Flag::poll
//@ header
pub fn poll(&mut self, cx: &mut Context, env: &mut FEnv) -> (r: Poll<()>)
    requires wf_flag(old(self), old(env)),
    ensures
        *final(self) == *old(self), final(cx).task == old(cx).task,
        old(env).set@[fid(old(self))] ==> r is Ready, // OBL:C07+C08.flag.poll_ready_once_raised
        r is Ready ==> final(env).set@[fid(old(self))], // OBL:C07+C08.flag.poll_ready_only_if_raised
        // a task told to wait is registered, so the next raise wakes it
        r is Pending ==> !final(env).set@[fid(old(self))] && reg_contains(final(env).registered@[fid(old(self))], old(cx).task), // OBL:C07+C08.flag.pending_poll_is_registered
        // nobody's registration is lost, on this flag or any other
        forall|g: int, t: int| old(env).registered@.contains_key(g) && reg_contains(old(env).registered@[g], t) ==> final(env).registered@.contains_key(g) && #[trigger] reg_contains(final(env).registered@[g], t), // OBL:C07+C08.flag.poll_keeps_other_waiters
        forall|g: int| old(env).registered@.contains_key(g) ==> final(env).registered@.contains_key(g),
        final(env).set == old(env).set, final(env).woken == old(env).woken,
//@ closure 0
|waker: &Waker| -> (vx_b: bool) ensures vx_b ==> waker.task == cx.task /* OBL:C07+C08.flag.pending_poll_is_registered */
//@ closure_ghost 0
Ghost(|vx_t: int| vx_t == cx.task)
//@ item Ticket::poll
//@ header
pub fn poll(&mut self, cx: &mut Context, env: &mut FEnv) -> (r: Poll<()>)
    requires wf_flag(&old(self).job_gone, old(env)), wf_flag(&old(self).control_done, old(env)),
    ensures
        // a ticket is ready exactly when its control is done or its job is gone
        r is Ready <==> (old(env).set@[fid(&old(self).job_gone)] || old(env).set@[fid(&old(self).control_done)]), // OBL:C07+C09+C08.ticket.ready_iff_control_done_or_job_gone
        // a task told to wait is registered on BOTH flags: the end of the job wakes it as well as the completion of the control
        r is Pending ==> reg_contains(final(env).registered@[fid(&old(self).job_gone)], old(cx).task)
            && reg_contains(final(env).registered@[fid(&old(self).control_done)], old(cx).task), // OBL:C07+C09+C08.ticket.pending_poll_waits_on_both_flags
        final(env).set == old(env).set, final(env).woken == old(env).woken,
//@ end
