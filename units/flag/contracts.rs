// Contract overlay for unit `flag` (C07: "this holds for every clone of a ticket, for any number of tasks waiting concurrently")
//@ item Inner
//@ item Flag
//@ item Flag::raised
//@ header
pub fn raised(&self, env: &mut FEnv) -> (r: bool)
    ensures r == old(env).set@, *final(env) == *old(env), // OBL:C07.flag.raised_reads_the_flag
//@ item Flag::raise
//@ header
pub fn raise(&self, env: &mut FEnv)
    ensures
        final(env).set@, // OBL:C07.flag.raise_sets
        // every task registered as waiting is woken, however many there are
        forall|i: int| 0 <= i < old(env).registered@.len() ==> final(env).woken@.contains(#[trigger] old(env).registered@[i]), // OBL:C07.flag.raise_wakes_every_waiter
        forall|t: int| old(env).woken@.contains(t) ==> final(env).woken@.contains(t),
//@ loop 0 iter=vx_it
let ghost vx_l = *env; let ghost vx_ws = wakers@;
invariant
    vx_it.seq() == vx_ws, 0 <= vx_it.index@ <= vx_ws.len(), env.set == vx_l.set, vx_ws.len() == old(env).registered@.len(),
    forall|i: int| #![trigger vx_ws[i]] #![trigger old(env).registered@[i]] 0 <= i < vx_ws.len() ==> vx_ws[i].task == old(env).registered@[i],
    forall|i: int| 0 <= i < vx_it.index@ ==> env.woken@.contains((#[trigger] vx_ws[i]).task), // OBL:C07.flag.inv_every_waker_so_far_woken
    forall|t: int| vx_l.woken@.contains(t) ==> env.woken@.contains(t),
//@ item Flag::poll
//@ header
pub fn poll(&mut self, cx: &mut Context, env: &mut FEnv) -> (r: Poll<()>)
    ensures
        old(env).set@ ==> r is Ready, // OBL:C07.flag.poll_ready_once_raised
        r is Ready ==> final(env).set@, // OBL:C07.flag.poll_ready_only_if_raised
        // a task told to wait is registered, so the next raise wakes it
        r is Pending ==> !final(env).set@ && reg_contains(final(env).registered@, old(cx).task), // OBL:C07.flag.pending_poll_is_registered
        // nobody else's registration is lost
        forall|t: int| reg_contains(old(env).registered@, t) ==> reg_contains(final(env).registered@, t), // OBL:C07.flag.poll_keeps_other_waiters
        final(env).set == old(env).set, final(env).woken == old(env).woken,
//@ closure 0
|waker: &Waker| -> (vx_b: bool) ensures vx_b ==> waker.task == cx.task
//@ closure_ghost 0
Ghost(|vx_t: int| vx_t == cx.task)
//@ end
