// spec for unit kbd (C13)
