// Contract overlay for unit `kbd`
//@ item keyboard::worker
//@ header
#[verifier::exec_allows_no_decreases_clause]
#[verifier::loop_isolation(false)]
pub fn kbd_worker(config: &ArcConfig, errors: ErrTx, events: EvTx, env: &mut KEnv) -> (r: Result<(), CriticalError>)
    requires old(env).round@ == 0, !old(env).watching@,
    ensures false,
//@ loop 0
invariant
    // the worker's own record says exactly whether a stdin watcher is running, and after every iteration that is what the configuration asked for
    (send_close is Some) == env.watching@, // OBL:C13.keyboard_worker.at_most_one_stdin_watcher_and_the_record_matches
    env.round@ > 0 ==> env.watching@ == env.want@, // OBL:C13.keyboard_worker.follows_the_configuration
//@ end
