# unit `kbd`: crates/lib/src/sources/keyboard.rs::worker — serves C13 (the keyboard source follows the configuration)
F = "crates/lib/src/sources/keyboard.rs"
UNIT = dict(
    name="kbd",
    prelude=["kbd_env.rs"],
    spec=["spec.rs"],
    rules=dict(
        env_methods=["next", "get", "send"],
        env_paths=["spawn"],
        subst=[("Arc<Config>", "&ArcConfig"), ("mpsc::Sender<RuntimeError>", "ErrTx"), ("priority::Sender<Event, Priority>", "EvTx")],
        pre_subst=[("oneshot::channel::<()>()", "vx_oneshot()"), ('.expect("unreachable due to match")', ".unwrap()")],
    ),
    extract=[
        dict(id="keyboard::worker", kind="fn", src=F, name="worker"),
    ],
)
