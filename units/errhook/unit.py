# unit `errhook`: crates/lib/src/watchexec.rs (error_hook, ErrorHook::*) — serves C15
X = "crates/lib/src/watchexec.rs"
UNIT = dict(
    name="errhook",
    prelude=["errhook_env.rs"],
    spec=["spec.rs"],
    rules=dict(
        env_methods=["recv", "call", "set", "into_inner", "clone", "vx_drop"],
        env_paths=["ErrorHook::new", "ErrorHook::handle_crit", "CritCell::new", "CritCell::try_unwrap"],
        question=True,
        option_unfold=True,
        pre_subst=[
            ("Default::default()", "CritCell::new()"),
            ("Arc::try_unwrap(crit)", "CritCell::try_unwrap(crit)"),
            ("error.help().map(|h| h.to_string())", "error.help_string()"),
        ],
        subst=[
            ("Arc<OnceLock<CriticalError>>", "CritCell"),
        ],
    ),
    extract=[
        dict(id="ErrorHook", kind="type", src=X, name="ErrorHook"),
        dict(id="ErrorHook::new", kind="fn", src=X, impl="impl ErrorHook", name="new"),
        dict(id="ErrorHook::handle_crit", kind="fn", src=X, impl="impl ErrorHook", name="handle_crit"),
        dict(id="ErrorHook::critical", kind="fn", src=X, impl="impl ErrorHook", name="critical"),
        dict(id="ErrorHook::elevate", kind="fn", src=X, impl="impl ErrorHook", name="elevate"),
        dict(id="error_hook", kind="fn", src=X, name="error_hook"),
    ],
)
