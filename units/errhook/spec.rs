// spec for unit `errhook` (C15)
pub open spec fn cell_ok(env: &EEnv, k: int) -> bool { env.cell@.contains_key(k) && env.refs@.contains_key(k) }
// the runtime errors that must reach the handler: everything received in [lo, hi) except the Exit pseudo-error, in order
pub open spec fn non_exit(s: Seq<RuntimeError>, lo: int, hi: int) -> Seq<RuntimeError> decreases hi - lo {
    if hi <= lo { Seq::empty() }
    else if s[hi - 1] is Exit { non_exit(s, lo, hi - 1) }
    else { non_exit(s, lo, hi - 1).push(s[hi - 1]) }
}
pub proof fn non_exit_frame(a: Seq<RuntimeError>, b: Seq<RuntimeError>, lo: int, hi: int)
    requires 0 <= lo, hi <= a.len(), hi <= b.len(), forall|i: int| lo <= i < hi ==> a[i] == b[i],
    ensures non_exit(a, lo, hi) == non_exit(b, lo, hi)
    decreases hi - lo
{
    if hi > lo { non_exit_frame(a, b, lo, hi - 1); }
}
// proved wrapper: receiving one more error extends the must-handle sequence by it unless it is Exit
impl ErrRx {
    pub fn recv(&mut self, env: &mut EEnv) -> (r: Option<RuntimeError>)
        ensures r is Some ==> final(env).received@ == old(env).received@.push(r->Some_0)
                && forall|lo: int| 0 <= lo <= old(env).received@.len() ==> #[trigger] non_exit(final(env).received@, lo, final(env).received@.len() as int)
                    == (if r->Some_0 is Exit { non_exit(old(env).received@, lo, old(env).received@.len() as int) } else { non_exit(old(env).received@, lo, old(env).received@.len() as int).push(r->Some_0) }),
            r is None ==> final(env).received == old(env).received && final(env).chan_closed@,
            final(env).handled == old(env).handled, final(env).cell == old(env).cell, final(env).refs == old(env).refs, final(env).event_chan_closed == old(env).event_chan_closed,
    {
        let r = self.recv_raw(env);
        proof {
            if r is Some {
                assert forall|lo: int| 0 <= lo <= old(env).received@.len() implies #[trigger] non_exit(env.received@, lo, env.received@.len() as int)
                    == (if r->Some_0 is Exit { non_exit(old(env).received@, lo, old(env).received@.len() as int) } else { non_exit(old(env).received@, lo, old(env).received@.len() as int).push(r->Some_0) }) by {
                    non_exit_frame(old(env).received@, env.received@, lo, old(env).received@.len() as int);
                }
            }
        }
        r
    }
}
