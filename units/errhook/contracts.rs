// Contract overlay for unit `errhook` (C15: "passed to the error handler exactly once ... If the handler elevates the error or raises a
// critical one, the main task ends with that critical error")
//@ item ErrorHook
//@ item ErrorHook::new
//@ header
fn new(error: RuntimeError, env: &mut EEnv) -> (r: Self)
    ensures r.error == error, !old(env).cell@.contains_key(r.critical.id),
        final(env).cell@ == old(env).cell@.insert(r.critical.id, None), final(env).refs@ == old(env).refs@.insert(r.critical.id, 1), // OBL:C15.ErrorHook_new.fresh_empty_cell_single_owner
        final(env).received == old(env).received, final(env).handled == old(env).handled, final(env).chan_closed == old(env).chan_closed, final(env).event_chan_closed == old(env).event_chan_closed,
//@ item ErrorHook::handle_crit
//@ header
fn handle_crit(crit: CritCell, env: &mut EEnv) -> (r: Result<(), CriticalError>)
    requires cell_ok(old(env), crit.id),
    ensures
        // the critical error the handler raised comes out, provided the handler let go of the payload
        old(env).refs@[crit.id] == 1 && old(env).cell@[crit.id] is Some ==> r == Err::<(), CriticalError>(old(env).cell@[crit.id]->Some_0), // OBL:C15.handle_crit.raised_critical_ends_the_task
        // and nothing is invented
        r is Err ==> old(env).refs@[crit.id] == 1 && old(env).cell@[crit.id] == Some(r->Err_0), // OBL:C15.handle_crit.no_critical_unless_raised
        *final(env) == *old(env),
//@ item ErrorHook::critical
//@ header
pub fn critical(self, critical: CriticalError, env: &mut EEnv)
    requires cell_ok(old(env), self.critical.id), old(env).refs@[self.critical.id] >= 1,
    ensures
        old(env).cell@[self.critical.id] is None ==> final(env).cell@ == old(env).cell@.insert(self.critical.id, Some(critical)), // OBL:C15.ErrorHook_critical.sets_the_critical
        old(env).cell@[self.critical.id] is Some ==> final(env).cell == old(env).cell,
        final(env).received == old(env).received, final(env).handled == old(env).handled,
//@ item ErrorHook::elevate
//@ header
pub fn elevate(self, env: &mut EEnv)
    requires cell_ok(old(env), self.critical.id), old(env).refs@[self.critical.id] >= 1,
    ensures
        old(env).cell@[self.critical.id] is None ==> final(env).cell@[self.critical.id] is Some && final(env).cell@[self.critical.id]->Some_0 is Elevated
            && final(env).cell@[self.critical.id]->Some_0->err == self.error, // OBL:C15.ErrorHook_elevate.elevates_this_error
        old(env).cell@[self.critical.id] is Some ==> final(env).cell == old(env).cell,
        final(env).received == old(env).received, final(env).handled == old(env).handled,
//@ item error_hook
//@ header
#[verifier::exec_allows_no_decreases_clause]
fn error_hook(mut errors: ErrRx, handler: ErrHandlerFn, env: &mut EEnv) -> (r: Result<(), CriticalError>)
    ensures
        // every runtime error received (other than the Exit pseudo-error) was passed to the handler exactly once, in order
        final(env).handled@ == old(env).handled@ + non_exit(final(env).received@, old(env).received@.len() as int, final(env).received@.len() as int), // OBL:C15.error_hook.each_error_handled_exactly_once
        // Exit ends the hook with CriticalError::Exit without calling the handler; it can only be the last error received
        r == Err::<(), CriticalError>(CriticalError::Exit) ==> final(env).received@.len() > old(env).received@.len(), // OBL:C15.error_hook.exit_is_upgraded
        // without a critical error the hook keeps going until the channel closes
        r is Ok ==> final(env).chan_closed@, // OBL:C15.error_hook.runs_until_the_channel_closes
//@ prologue
let ghost env0 = *env;
//@ loop 0
invariant
    env0 == *old(env), env.received@.len() >= env0.received@.len(),
    env.handled@ == env0.handled@ + non_exit(env.received@, env0.received@.len() as int, env.received@.len() as int), // OBL:C15.error_hook.inv_each_error_handled_exactly_once
    // a critical error raised by the handler (cell set, payload released) is never ignored: the hook has returned it instead of looping
    forall|k: int| #[trigger] env.cell@.contains_key(k) && !env0.cell@.contains_key(k) ==> env.refs@.contains_key(k) && !(env.refs@[k] == 1 && env.cell@[k] is Some), // OBL:C15.error_hook.inv_raised_critical_never_ignored
    forall|k: int| env0.cell@.contains_key(k) ==> #[trigger] env.cell@.contains_key(k),
ensures
    env.chan_closed@, // OBL:C15.error_hook.loop_ends_only_when_the_channel_is_closed
//@ end
