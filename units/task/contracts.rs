// Contract overlay for unit `task`. Section markers (//@) are read by vx/build.py; clause lines carry `// OBL:<id>`.

//@ item CommandState
//@ item Control
//@ item ControlMessage
//@ item Priority
//@ item PriorityReceiver
//@ item PrioritySender
//@ item Timer
//@ item TimerClone
//@ raw
// #[derive(Clone)] on Timer: field-wise clone (ASSUMED: what derive(Clone) generates; the derive is dropped from the extracted type)
impl Clone for Timer {
    #[verifier::external_body]
    fn clone(&self) -> (r: Timer) ensures r.until == self.until, r.done.id == self.done.id, r.is_restart == self.is_restart { unimplemented!() }
}
//@ item Timer::stop
//@ header
pub fn stop(grace: Duration, done: Flag, env: &mut Env) -> (r: Self)
    ensures
        r.until.t == final(env).now@ + grace.d, // OBL:C06.Timer_stop.deadline_is_now_plus_grace
        r.done.id == done.id, // OBL:C07.Timer_stop.keeps_flag
        !r.is_restart, // OBL:C06.Timer_stop.kind
        grows(old(env), final(env)), final(env).now == old(env).now, same_world(old(env), final(env)),
//@ item Timer::restart
//@ header
pub fn restart(grace: Duration, done: Flag, env: &mut Env) -> (r: Self)
    ensures
        r.until.t == final(env).now@ + grace.d, // OBL:C06.Timer_restart.deadline_is_now_plus_grace
        r.done.id == done.id, // OBL:C07.Timer_restart.keeps_flag
        r.is_restart, // OBL:C06.Timer_restart.kind
        grows(old(env), final(env)), final(env).now == old(env).now, same_world(old(env), final(env)),
//@ item Timer::to_sleep
//@ header
fn to_sleep(&self) -> (r: Sleep)
    ensures r.until == self.until, // OBL:C06.Timer_to_sleep.sleeps_until_deadline
//@ item Timer::is_past
//@ header
fn is_past(&self, env: &mut Env) -> (r: bool)
    ensures
        r == (self.until.t <= final(env).now@), // OBL:C06.Timer_is_past.exact
        grows(old(env), final(env)), final(env).now == old(env).now, same_world(old(env), final(env)),
//@ item Timer::to_control
//@ header
fn to_control(&self) -> (r: ControlMessage)
    ensures
        r.done.id == self.done.id, // OBL:C07.Timer_to_control.same_flag
        !self.is_restart ==> r.control is Stop, // OBL:C06.Timer_to_control.stop_kills
        self.is_restart ==> r.control is ContinueTryGracefulRestart, // OBL:C06.Timer_to_control.restart_continues
//@ item PrioritySender::send
//@ header
pub fn send(&self, message: ControlMessage, priority: Priority, env: &mut Env)
    requires wf_tx(self),
    ensures
        // the message is appended to exactly the queue of its priority; the other two are untouched
        priority is Normal ==> final(env).normal@ == old(env).normal@.push(msg_id(message)) && final(env).high == old(env).high && final(env).urgent == old(env).urgent, // OBL:C10.send.normal_routes_to_normal
        priority is High ==> final(env).high@ == old(env).high@.push(msg_id(message)) && final(env).normal == old(env).normal && final(env).urgent == old(env).urgent, // OBL:C10.send.high_routes_to_high
        priority is Urgent ==> final(env).urgent@ == old(env).urgent@.push(msg_id(message)) && final(env).normal == old(env).normal && final(env).high == old(env).high, // OBL:C10.send.urgent_routes_to_urgent
        same_world(old(env), final(env)), final(env).now == old(env).now,
//@ item PriorityReceiver::recv
//@ header
pub fn recv(&mut self, stop_timer: &mut Option<Timer>, env: &mut Env) -> (r: Option<ControlMessage>)
    requires wf_rx(old(self)),
    ensures wf_rx(final(self)),
        same_world(old(env), final(env)),
        // ---- timer-derived control (C06) ----
        // returned only once the deadline has passed, carrying the timer's flag and kind; the timer is disarmed
        (*old(stop_timer)) is Some && (*final(stop_timer)) is None ==> final(env).now@ >= (*old(stop_timer))->Some_0.until.t, // OBL:C06.recv.no_timer_control_before_deadline
        (*old(stop_timer)) is Some && (*final(stop_timer)) is None ==> r is Some && r->Some_0.done.id == (*old(stop_timer))->Some_0.done.id
            && ((*old(stop_timer))->Some_0.is_restart ==> r->Some_0.control is ContinueTryGracefulRestart)
            && (!(*old(stop_timer))->Some_0.is_restart ==> r->Some_0.control is Stop), // OBL:C06+C07.recv.timer_control_carries_flag_and_kind
        // an expired timer is served first, before any queued message, and consumes nothing
        (*old(stop_timer)) is Some && (*old(stop_timer))->Some_0.until.t <= old(env).now@ ==> (*final(stop_timer)) is None
            && is_prefix_grown(old(env).urgent@, final(env).urgent@) && is_prefix_grown(old(env).high@, final(env).high@) && is_prefix_grown(old(env).normal@, final(env).normal@), // OBL:C06.recv.expired_timer_first
        // while the timer stays armed it is unchanged, and the normal queue is never consumed
        (*old(stop_timer)) is Some ==> is_prefix_grown(old(env).normal@, final(env).normal@), // OBL:C06.recv.normal_held_back_while_armed
        (*old(stop_timer)) is Some && (*final(stop_timer)) is Some ==> (*final(stop_timer))->Some_0.until == (*old(stop_timer))->Some_0.until
            && (*final(stop_timer))->Some_0.done.id == (*old(stop_timer))->Some_0.done.id && (*final(stop_timer))->Some_0.is_restart == (*old(stop_timer))->Some_0.is_restart, // OBL:C06.recv.armed_timer_unchanged
        (*old(stop_timer)) is None ==> (*final(stop_timer)) is None, // OBL:C06.recv.never_arms
        // bounded wait: with an armed timer the call returns no later than the deadline (or at once if it already passed)
        (*old(stop_timer)) is Some ==> final(env).now@ <= (if old(env).now@ >= (*old(stop_timer))->Some_0.until.t { old(env).now@ } else { (*old(stop_timer))->Some_0.until.t }) || (*final(stop_timer)) is Some, // OBL:C06.recv.kill_at_expiry
        // ---- ordering (C10), over the queue contents at entry ----
        !timer_expired(*old(stop_timer), old(env).now@) && old(env).urgent@.len() > 0 && (*final(stop_timer)) == (*old(stop_timer)) ==>
            r is Some && msg_id(r->Some_0) == old(env).urgent@[0], // OBL:C10.recv.urgent_first
        !timer_expired(*old(stop_timer), old(env).now@) && old(env).urgent@.len() == 0 && old(env).high@.len() > 0 && (*final(stop_timer)) == (*old(stop_timer)) ==>
            r is Some && (msg_id(r->Some_0) == old(env).high@[0] || popped_from(old(env).urgent@, final(env).urgent@, msg_id(r->Some_0))), // OBL:C10.recv.high_before_normal
        // whatever is returned from a queue is that queue's head and exactly that one message is removed; nothing else is reordered
        (*final(stop_timer)) == (*old(stop_timer)) && r is Some ==> popped_head(old(env), final(env), msg_id(r->Some_0)), // OBL:C10.recv.pops_exactly_the_head
//@ prologue
broadcast use prefix_trans, prefix_refl;
//@ end
