// Contract overlay for unit `task`. Section markers (//@) are read by vx/build.py; clause lines carry `// OBL:<id>`.

//@ item CommandState
//@ item Control
//@ item ControlMessage
//@ item Priority
//@ item PriorityReceiver
//@ item PrioritySender
//@ item Timer
//@ item TimerClone
//@ raw
// #[derive(Clone)] on Timer: field-wise clone (ASSUMED: what derive(Clone) generates; the derive is dropped from the extracted type)
impl Clone for Timer {
    #[verifier::external_body]
    fn clone(&self) -> (r: Timer) ensures r.until == self.until, r.done.id == self.done.id, r.is_restart == self.is_restart { unimplemented!() }
}
//@ item deadline
//@ header
fn deadline(grace: Duration, env: &mut Env) -> (r: Instant)
    ensures
        // (the saturation to a far future instant on overflow is dead code in this model: Instant/Duration arithmetic is mathematical here, an ASSUMPTION
        // listed in the evidence; that a huge grace no longer panics the job task is replayed on the real code: history huge_grace_does_not_panic_the_job_task)
        r.t == final(env).now@ + grace.d, // OBL:C06.deadline.is_now_plus_grace
        grows(old(env), final(env)), final(env).now == old(env).now, same_world(old(env), final(env)),
//@ item Timer::stop
//@ header
pub fn stop(grace: Duration, done: Flag, env: &mut Env) -> (r: Self)
    ensures
        r.until.t == final(env).now@ + grace.d, // OBL:C06.Timer_stop.deadline_is_now_plus_grace
        r.done.id == done.id, // OBL:C07.Timer_stop.keeps_flag
        !r.is_restart, // OBL:C06.Timer_stop.kind
        grows(old(env), final(env)), final(env).now == old(env).now, same_world(old(env), final(env)),
//@ item Timer::restart
//@ header
pub fn restart(grace: Duration, done: Flag, env: &mut Env) -> (r: Self)
    ensures
        r.until.t == final(env).now@ + grace.d, // OBL:C06.Timer_restart.deadline_is_now_plus_grace
        r.done.id == done.id, // OBL:C07.Timer_restart.keeps_flag
        r.is_restart, // OBL:C06.Timer_restart.kind
        grows(old(env), final(env)), final(env).now == old(env).now, same_world(old(env), final(env)),
//@ item Timer::to_sleep
//@ header
fn to_sleep(&self) -> (r: Sleep)
    ensures r.until == self.until, // OBL:C06.Timer_to_sleep.sleeps_until_deadline
//@ item Timer::is_past
//@ header
fn is_past(&self, env: &mut Env) -> (r: bool)
    ensures
        r == (self.until.t <= final(env).now@), // OBL:C06.Timer_is_past.exact
        grows(old(env), final(env)), final(env).now == old(env).now, same_world(old(env), final(env)),
//@ item Timer::to_control
//@ header
fn to_control(&self) -> (r: ControlMessage)
    ensures
        r.done.id == self.done.id, // OBL:C07.Timer_to_control.same_flag
        !self.is_restart ==> r.control is Stop, // OBL:C06.Timer_to_control.stop_kills
        self.is_restart ==> r.control is ContinueTryGracefulRestart, // OBL:C06.Timer_to_control.restart_continues
//@ item priority::new
//@ header
pub fn priority_new() -> (r: (PrioritySender, PriorityReceiver))
    ensures
        // what is sent with a priority is received from the queue of that priority: each sender field is the other end of the receiver field of the same name
        r.0.normal.which == r.1.normal.which, // OBL:C10+C09+C07.priority_new.each_sender_is_wired_to_the_receiver_of_its_priority
        r.0.high.which == r.1.high.which, // OBL:C10+C09+C07.priority_new.each_sender_is_wired_to_the_receiver_of_its_priority
        r.0.urgent.which == r.1.urgent.which, // OBL:C10+C09+C07.priority_new.each_sender_is_wired_to_the_receiver_of_its_priority
//@ item PrioritySender::send
//@ header
pub fn send(&self, message: ControlMessage, priority: Priority, env: &mut Env)
    requires wf_tx(self),
    ensures
        // the message is appended to exactly the queue of its priority; the other two are untouched
        priority is Normal ==> final(env).normal@ == old(env).normal@.push(message) && final(env).high == old(env).high && final(env).urgent == old(env).urgent, // OBL:C10+C09+C07.send.normal_routes_to_normal
        priority is High ==> final(env).high@ == old(env).high@.push(message) && final(env).normal == old(env).normal && final(env).urgent == old(env).urgent, // OBL:C10+C09+C07.send.high_routes_to_high
        priority is Urgent ==> final(env).urgent@ == old(env).urgent@.push(message) && final(env).normal == old(env).normal && final(env).high == old(env).high, // OBL:C10+C09+C07.send.urgent_routes_to_urgent
        same_world(old(env), final(env)), final(env).now == old(env).now,
//@ item PriorityReceiver::recv
//@ header
pub fn recv(&mut self, stop_timer: &mut Option<Timer>, env: &mut Env) -> (r: Option<ControlMessage>)
    requires wf_rx(old(self)),
    ensures wf_rx(final(self)),
        same_world(old(env), final(env)),
        // ---- timer-derived control (C06) ----
        // returned only once the deadline has passed, carrying the timer's flag and kind; the timer is disarmed
        (*old(stop_timer)) is Some && (*final(stop_timer)) is None ==> final(env).now@ >= (*old(stop_timer))->Some_0.until.t, // OBL:C06+C09.recv.no_timer_control_before_deadline
        (*old(stop_timer)) is Some && (*final(stop_timer)) is None ==> r is Some && r->Some_0.done.id == (*old(stop_timer))->Some_0.done.id
            && ((*old(stop_timer))->Some_0.is_restart ==> r->Some_0.control is ContinueTryGracefulRestart)
            && (!(*old(stop_timer))->Some_0.is_restart ==> r->Some_0.control is Stop), // OBL:C06+C07+C09.recv.timer_control_carries_flag_and_kind
        // an expired timer is served first, before any queued message, and consumes nothing
        (*old(stop_timer)) is Some && (*old(stop_timer))->Some_0.until.t <= old(env).now@ ==> (*final(stop_timer)) is None
            && is_prefix_grown(old(env).urgent@, final(env).urgent@) && is_prefix_grown(old(env).high@, final(env).high@) && is_prefix_grown(old(env).normal@, final(env).normal@), // OBL:C06+C09+C05+C08.recv.expired_timer_first
        // while the timer stays armed it is unchanged, and the normal queue is never consumed
        (*old(stop_timer)) is Some ==> is_prefix_grown(old(env).normal@, final(env).normal@), // OBL:C06+C08+C09.recv.normal_held_back_while_armed
        (*old(stop_timer)) is Some && (*final(stop_timer)) is Some ==> (*final(stop_timer))->Some_0.until == (*old(stop_timer))->Some_0.until
            && (*final(stop_timer))->Some_0.done.id == (*old(stop_timer))->Some_0.done.id && (*final(stop_timer))->Some_0.is_restart == (*old(stop_timer))->Some_0.is_restart, // OBL:C06+C09.recv.armed_timer_unchanged
        (*old(stop_timer)) is None ==> (*final(stop_timer)) is None, // OBL:C06+C09.recv.never_arms
        // bounded wait: with an armed timer the call returns no later than the deadline (or at once if it already passed)
        (*old(stop_timer)) is Some ==> final(env).now@ <= (if old(env).now@ >= (*old(stop_timer))->Some_0.until.t { old(env).now@ } else { (*old(stop_timer))->Some_0.until.t }) || (*final(stop_timer)) is Some, // OBL:C06+C09.recv.kill_at_expiry
        // while the timer stays armed only urgent or high-priority messages are handed out (given what the Job methods send with those priorities)
        senders_ok(old(env).urgent@, old(env).high@) && (*final(stop_timer)) is Some && r is Some ==> urgent_class(r->Some_0.control) || high_class(r->Some_0.control), // OBL:C06+C09.recv.only_urgent_or_high_while_armed
        senders_kept(old(env), final(env)),
        final(env).now@ >= old(env).now@,
        // ---- nothing pending is abandoned (D18): recv gives up (None) only when no timer is armed and every queue is closed (all Job handles dropped) and drained ----
        r is None ==> (*old(stop_timer)) is None && final(env).closed@
            && final(env).urgent@.len() == 0 && final(env).high@.len() == 0 && final(env).normal@.len() == 0, // OBL:C07+C10+C06.recv.gives_up_only_when_no_timer_is_armed_and_every_queue_is_closed_and_drained
        // ---- ordering (C10), over the queue contents at entry ----
        !timer_expired(*old(stop_timer), old(env).now@) && old(env).urgent@.len() > 0 && (*final(stop_timer)) == (*old(stop_timer)) ==>
            r is Some && r->Some_0 == old(env).urgent@[0], // OBL:C10+C09+C07.recv.urgent_first
        !timer_expired(*old(stop_timer), old(env).now@) && old(env).urgent@.len() == 0 && old(env).high@.len() > 0 && (*final(stop_timer)) == (*old(stop_timer)) ==>
            r is Some && (r->Some_0 == old(env).high@[0] || popped_from(old(env).urgent@, final(env).urgent@, r->Some_0)), // OBL:C10+C09+C07.recv.high_before_normal
        // ---- ordering (C10), over the queue contents at the moment a message is taken (messages that arrived while the task was waiting included) ----
        (*final(stop_timer)) == (*old(stop_timer)) && r is Some ==> 0 <= final(env).picked@ <= 2, // OBL:C10+C09+C07.recv.a_normal_control_is_taken_only_when_nothing_more_urgent_is_pending
        (*final(stop_timer)) == (*old(stop_timer)) && r is Some && final(env).picked@ == 2 ==> final(env).urgent@.len() == 0 && final(env).high@.len() == 0, // OBL:C10+C09+C07.recv.a_normal_control_is_taken_only_when_nothing_more_urgent_is_pending
        (*final(stop_timer)) == (*old(stop_timer)) && r is Some && final(env).picked@ == 1 ==> final(env).urgent@.len() == 0, // OBL:C10+C09+C07.recv.a_high_control_is_taken_only_when_no_urgent_one_is_pending
        // whatever is returned from a queue is that queue's head and exactly that one message is removed; nothing else is reordered
        (*final(stop_timer)) == (*old(stop_timer)) && r is Some ==> popped_head(old(env), final(env), r->Some_0), // OBL:C10+C09+C07.recv.pops_exactly_the_head
//@ prologue
broadcast use prefix_trans, prefix_refl;
//@ end

//@ item CommandState::is_running
//@ header
pub fn is_running(&self) -> (r: bool)
    ensures r == (*self is Running), // OBL:C09.is_running.exact
//@ item CommandState::is_pending
//@ header
pub fn is_pending(&self) -> (r: bool)
    ensures r == (*self is Pending), // OBL:C09.is_pending.exact
//@ item CommandState::is_finished
//@ header
pub fn is_finished(&self) -> (r: bool)
    ensures r == (*self is Finished), // OBL:C09.is_finished.exact
//@ item CommandState::spawn
//@ header
pub fn spawn(&mut self, command: ArcCommand, mut spawnable: Spawnable, env: &mut Env) -> (r: Result<bool, IoError>)
    ensures
        // never a second process while one is owned: a running state is left alone and nothing is spawned
        *old(self) is Running ==> r == Ok::<bool, IoError>(false) && *final(self) == *old(self) && *final(env) == *old(env), // OBL:C04+C09.spawn.noop_while_running
        // otherwise exactly one spawn attempt, of the spawnable that was passed in
        !(*old(self) is Running) ==> pushed1(old(env), final(env)) && is_spawn(at(old(env), final(env), 0), spawnable.ver), // OBL:C09+C18.spawn.spawns_the_given_spawnable_once
        !(*old(self) is Running) && r is Ok ==> r == Ok::<bool, IoError>(true) && spawn_ok(at(old(env), final(env), 0)) && *final(self) is Running
            && running_cid(cs_view(final(self))) == spawn_cid(at(old(env), final(env), 0))
            && final(env).live@ =~= old(env).live@.insert(running_cid(cs_view(final(self)))), // OBL:C04+C09.spawn.owns_the_new_child
        !(*old(self) is Running) && r is Err ==> !spawn_ok(at(old(env), final(env), 0)) && *final(self) == *old(self) && final(env).live == old(env).live, // OBL:C04+C09.spawn.failure_leaves_state
        final(env).raised == old(env).raised, final(env).now@ >= old(env).now@, senders_kept(old(env), final(env)),
//@ item CommandState::reset
//@ header
pub fn reset(&mut self, env: &mut Env) -> (r: Self)
    requires !(*old(self) is Running), // OBL:C04+C09.reset.never_drops_a_live_child
    ensures
        *final(self) is Pending, // OBL:C09.reset.pending_after
        cs_view(&r) == cs_view(old(self)), // OBL:C09.reset.returns_the_retired_state
        same_world(old(env), final(env)), final(env).now == old(env).now, senders_kept(old(env), final(env)),
//@ item CommandState::wait
//@ header
pub fn wait(&mut self, env: &mut Env) -> (r: Result<bool, IoError>)
    ensures
        !(*old(self) is Running) ==> r == Ok::<bool, IoError>(false) && *final(self) == *old(self) && *final(env) == *old(env), // OBL:C09.wait.noop_unless_running
        *old(self) is Running ==> pushed1(old(env), final(env)) && is_wait(at(old(env), final(env), 0), running_cid(cs_view(old(self))), r is Ok), // OBL:C04+C09.wait.one_reap_attempt
        *old(self) is Running && r is Ok ==> r == Ok::<bool, IoError>(true) && *final(self) is Finished && started_of(cs_view(final(self))) == started_of(cs_view(old(self)))
            && final(env).live@ =~= old(env).live@.remove(running_cid(cs_view(old(self)))), // OBL:C04+C09.wait.finished_only_after_reap
        *old(self) is Running && r is Err ==> *final(self) == *old(self) && final(env).live == old(env).live, // OBL:C04+C09.wait.failure_keeps_running
        final(env).raised == old(env).raised, final(env).now@ >= old(env).now@, senders_kept(old(env), final(env)),
//@ item signal_child
//@ header
fn signal_child(signal: Signal, child: &mut Child, env: &mut Env) -> (r: Result<(), IoError>)
    ensures
        final(child).cid == old(child).cid,
        // exactly one signal, the requested one or SIGTERM if it has no OS number; never a kill
        pushed1(old(env), final(env)) && is_signal(at(old(env), final(env), 0), old(child).cid, delivered(signal), r is Ok), // OBL:C06+C09.signal_child.requested_signal_or_sigterm
        final(env).live == old(env).live, final(env).raised == old(env).raised, final(env).now@ >= old(env).now@, senders_kept(old(env), final(env)), senders_kept(old(env), final(env)),
//@ prologue
broadcast use axiom_terminate_to_nix;
//@ closure 0
-> (vx_r: Option<NixSignal>) ensures vx_r is Some && vx_r->Some_0.n == SIGTERM /* OBL:C06+C09.signal_child.requested_signal_or_sigterm */
//@ item Loop

//@ def OV view(&*old(command_state), *old(previous_run), *old(stop_timer), old(on_end)@, *old(on_end_restart), *old(error_handler), *old(spawn_hook))
//@ def FV view(&*final(command_state), *final(previous_run), *final(stop_timer), final(on_end)@, *final(on_end_restart), *final(error_handler), *final(spawn_hook))
//@ def ENVS old(env), final(env)
//@ def STATE_PARAMS command: &ArcCommand, command_state: &mut CommandState, previous_run: &mut Option<CommandState>, stop_timer: &mut Option<Timer>, on_end: &mut Vec<Flag>, on_end_restart: &mut Option<Flag>, error_handler: &mut ErrorHandler, spawn_hook: &mut SpawnHook, env: &mut Env
//@ def RAISE_LOOP_PRE let ghost vx_l = *env; let ghost vx_oe = on_end@;
//@ def INV_SM invariant env.live == vx_l.live, env.urgent == vx_l.urgent, env.high == vx_l.high, env.log == vx_l.log, env.now == vx_l.now, vx_it.seq() == vx_oe, 0 <= vx_it.index@ <= vx_oe.len(), env.raised@ =~= vx_l.raised@.union(prefix_ids(vx_oe, vx_it.index@ as int)), // OBL:C07+C09.handlers.end_flags_loop_raises_exactly_the_parked_flags

//@ def ARMED_PRE *old(stop_timer) is Some ==> control is Stop || control is Delete || control is NextEnding
//@ def CH_PARAMS control: Control, done: Flag, $STATE_PARAMS
//@ def LOOPS3 //@ loop each iter=vx_it\n$RAISE_LOOP_PRE\n$INV_SM

// ---- the control handler (select arm 2 of start_job) is verified once per control (group): `requires control is X` selects the
// arm, every clause is proved for each group, and lemma_control_groups_cover shows the groups are exhaustive. Same extracted body every time.
//@ defblock CH_REQ
        inv_live(&*old(command_state), old(env)),
        waiters_ok(&*old(command_state), old(on_end)@),
        // while a grace timer is armed `recv` hands out only the timer's own control (disarming it) or urgent/high messages
        // (C06.recv.normal_held_back_while_armed), and the Job API sends only Stop/Delete as urgent and NextEnding as high (C10.job.*)
        $ARMED_PRE,
        // a parked graceful-restart ticket is covered by its armed restart timer, or is already resolved; or this control is
        // that timer's own control, just handed out by `recv` (C06+C07.recv.timer_control_carries_flag_and_kind)
        inv_restart(*old(stop_timer), *old(on_end_restart), old(env))
            || (control is ContinueTryGracefulRestart && *old(stop_timer) is None && *old(on_end_restart) is Some && (*old(on_end_restart))->Some_0.id == done.id),
//@ enddef
//@ defblock CH_ENS
        // ---- C04 ----
        inv_live(&*final(command_state), final(env)), // OBL:C04+C05.control_handler.at_most_one_live_child
        waiters_ok(&*final(command_state), final(on_end)@), // OBL:C07+C09.control_handler.wait_for_end_tickets_are_parked_only_while_a_process_runs
        // ---- C07: tickets ----
        r is Normally ==> final(env).raised@.contains(done.id), // OBL:C07+C09.control_handler.completed_control_resolves_its_ticket
        r is Skip ==> parked(done.id, *final(stop_timer), final(on_end)@, *final(on_end_restart)), // OBL:C07+C09.control_handler.deferred_ticket_is_parked
        r is Break ==> final(env).raised@.contains(done.id) && control is Delete, // OBL:C07+C08+C09.control_handler.only_delete_ends_the_job
        forall|f: int| (parked(f, *old(stop_timer), old(on_end)@, *old(on_end_restart)) || f == done.id) ==>
            final(env).raised@.contains(f) || parked(f, *final(stop_timer), final(on_end)@, *final(on_end_restart)), // OBL:C07+C09.control_handler.no_ticket_is_dropped
        inv_restart(*final(stop_timer), *final(on_end_restart), final(env)), // OBL:C07.control_handler.restart_ticket_stays_covered
        // no ticket resolves that is neither this control's nor a wait-for-end ticket of a process that ended
        forall|f: int| final(env).raised@.contains(f) ==> old(env).raised@.contains(f) || f == done.id
            || (reaped_in($ENVS, cs_view(&*old(command_state))) && all_ids(old(on_end)@).contains(f)), // OBL:C09.control_handler.no_early_resolution
        // ---- C09/C06: the documented state machine, one clause per control ----
        control is Start ==> c09_start($OV, $FV, $ENVS, command) && r is Normally, // OBL:C09+C18.control.start
        control is Stop ==> c09_stop($OV, $FV, $ENVS) && r is Normally, // OBL:C09.control.stop
        control is TryRestart ==> c09_try_restart($OV, $FV, $ENVS, command) && r is Normally, // OBL:C09+C18.control.try_restart
        control is ContinueTryGracefulRestart ==> c09_continue($OV, $FV, $ENVS, command) && r is Normally, // OBL:C06+C09+C07.control.continue_try_graceful_restart
        // restart exactly once: once the replacement has been started for a graceful try-restart, no restart request stays pending
        control is ContinueTryGracefulRestart ==> $FV.on_end_restart is None, // OBL:C06+C07.control.continue_clears_pending_restart
        control is GracefulStop ==> c09_graceful($OV, $FV, $ENVS, control->GracefulStop_signal, control->GracefulStop_grace, done.id, false, r is Skip), // OBL:C06+C09.control.graceful_stop
        control is TryGracefulRestart ==> c09_graceful($OV, $FV, $ENVS, control->TryGracefulRestart_signal, control->TryGracefulRestart_grace, done.id, true, r is Skip), // OBL:C06+C09.control.try_graceful_restart
        control is Signal ==> c09_signal($OV, $FV, $ENVS, control->Signal_0) && r is Normally, // OBL:C09.control.signal
        control is Delete ==> n_of($ENVS) == 0 && unchanged($OV, $FV) && r is Break, // OBL:C08+C09.control.delete
        control is NextEnding ==> c09_next_ending($OV, $FV, $ENVS, done.id) && (r is Skip <==> cs_view(&*old(command_state)) is Running), // OBL:C09+C07.control.next_ending
        control is SyncFunc || control is AsyncFunc ==> c09_func($OV, $FV, $ENVS) && r is Normally, // OBL:C09+C10.control.func
        control is SetSyncSpawnHook ==> c09_set_hooks($OV, $FV, $ENVS, $OV.eh, SpawnHook::Sync(control->SetSyncSpawnHook_0)) && r is Normally, // OBL:C09+C18.control.set_sync_spawn_hook
        control is SetAsyncSpawnHook ==> c09_set_hooks($OV, $FV, $ENVS, $OV.eh, SpawnHook::Async(control->SetAsyncSpawnHook_0)) && r is Normally, // OBL:C09+C18.control.set_async_spawn_hook
        control is UnsetSpawnHook ==> c09_set_hooks($OV, $FV, $ENVS, $OV.eh, SpawnHook::None) && r is Normally, // OBL:C09+C18.control.unset_spawn_hook
        control is SetSyncErrorHandler ==> c09_set_hooks($OV, $FV, $ENVS, ErrorHandler::Sync(control->SetSyncErrorHandler_0), $OV.sh) && r is Normally, // OBL:C09.control.set_sync_error_handler
        control is SetAsyncErrorHandler ==> c09_set_hooks($OV, $FV, $ENVS, ErrorHandler::Async(control->SetAsyncErrorHandler_0), $OV.sh) && r is Normally, // OBL:C09.control.set_async_error_handler
        control is UnsetErrorHandler ==> c09_set_hooks($OV, $FV, $ENVS, ErrorHandler::None, $OV.sh) && r is Normally, // OBL:C09.control.unset_error_handler
        final(env).now@ >= old(env).now@, senders_kept(old(env), final(env)),
//@ enddef
//@ defblock CH_CONTRACT
$CH_REQ
    ensures
$CH_ENS
//@ prologue
broadcast use lemma_all_ids_push;
$LOOPS3
//@ enddef

//@ item control_handler_start of control_handler
//@ header
#[verifier::spinoff_prover]
fn control_handler_start($CH_PARAMS) -> (r: Loop)
    requires
        control is Start,
$CH_CONTRACT

//@ item control_handler_stop of control_handler
//@ header
#[verifier::spinoff_prover]
fn control_handler_stop($CH_PARAMS) -> (r: Loop)
    requires
        control is Stop,
$CH_CONTRACT

//@ item control_handler_graceful_stop of control_handler
//@ header
#[verifier::spinoff_prover]
fn control_handler_graceful_stop($CH_PARAMS) -> (r: Loop)
    requires
        control is GracefulStop,
$CH_CONTRACT

//@ item control_handler_try_restart of control_handler
//@ header
#[verifier::spinoff_prover]
fn control_handler_try_restart($CH_PARAMS) -> (r: Loop)
    requires
        control is TryRestart,
$CH_CONTRACT

//@ item control_handler_try_graceful_restart of control_handler
//@ header
#[verifier::spinoff_prover]
fn control_handler_try_graceful_restart($CH_PARAMS) -> (r: Loop)
    requires
        control is TryGracefulRestart,
$CH_CONTRACT

//@ item control_handler_continue of control_handler
//@ header
#[verifier::spinoff_prover]
fn control_handler_continue($CH_PARAMS) -> (r: Loop)
    requires
        control is ContinueTryGracefulRestart,
$CH_CONTRACT

//@ item control_handler_signal of control_handler
//@ header
#[verifier::spinoff_prover]
fn control_handler_signal($CH_PARAMS) -> (r: Loop)
    requires
        control is Signal,
$CH_CONTRACT

//@ item control_handler_delete of control_handler
//@ header
#[verifier::spinoff_prover]
fn control_handler_delete($CH_PARAMS) -> (r: Loop)
    requires
        control is Delete,
$CH_CONTRACT

//@ item control_handler_next_ending of control_handler
//@ header
#[verifier::spinoff_prover]
fn control_handler_next_ending($CH_PARAMS) -> (r: Loop)
    requires
        control is NextEnding,
$CH_CONTRACT

//@ item control_handler_func of control_handler
//@ header
#[verifier::spinoff_prover]
fn control_handler_func($CH_PARAMS) -> (r: Loop)
    requires
        control is SyncFunc || control is AsyncFunc,
$CH_CONTRACT

//@ item control_handler_hooks of control_handler
//@ header
#[verifier::spinoff_prover]
fn control_handler_hooks($CH_PARAMS) -> (r: Loop)
    requires
        control is SetSyncSpawnHook || control is SetAsyncSpawnHook || control is UnsetSpawnHook || control is SetSyncErrorHandler || control is SetAsyncErrorHandler || control is UnsetErrorHandler,
$CH_CONTRACT

// ---- the child-ended handler (select arm 1 of start_job): `result = command_state.wait(), if command_state.is_running()` ----
//@ item wait_handler
//@ header
fn wait_handler(done: &Flag, $STATE_PARAMS) -> (r: Loop)
    requires
        inv_live(&*old(command_state), old(env)),
        inv_restart(*old(stop_timer), *old(on_end_restart), old(env)),
        waiters_ok(&*old(command_state), old(on_end)@),
    ensures
        inv_live(&*final(command_state), final(env)), // OBL:C04+C05.wait_handler.at_most_one_live_child
        waiters_ok(&*final(command_state), final(on_end)@), // OBL:C07+C09.wait_handler.wait_for_end_tickets_are_parked_only_while_a_process_runs
        // every ticket parked in the task is resolved or still parked afterwards (none is dropped), whatever fails
        forall|f: int| parked(f, *old(stop_timer), old(on_end)@, *old(on_end_restart)) ==>
            final(env).raised@.contains(f) || parked(f, *final(stop_timer), final(on_end)@, *final(on_end_restart)), // OBL:C07+C09.wait_handler.no_ticket_is_dropped
        inv_restart(*final(stop_timer), *final(on_end_restart), final(env)), // OBL:C07.wait_handler.restart_ticket_stays_covered
        // only tickets that were waiting for this process to end are resolved, and only if it did end
        forall|f: int| final(env).raised@.contains(f) ==> old(env).raised@.contains(f)
            || (reaped_in($ENVS, cs_view(&*old(command_state))) && parked(f, *old(stop_timer), old(on_end)@, *old(on_end_restart))), // OBL:C09+C07+C10.wait_handler.no_early_resolution
        c09_child_ended($OV, $FV, $ENVS, command, r is Skip), // OBL:C06+C07+C09.wait_handler.child_ended
        !(r is Break), // OBL:C09.wait_handler.never_ends_the_job
        final(env).now@ >= old(env).now@, senders_kept(old(env), final(env)),
//@ prologue
broadcast use lemma_all_ids_push;
//@ loop 0 iter=vx_it
$RAISE_LOOP_PRE
$INV_SM
//@ end

// ---- Job: the sender side (C10, and the decision tables of C05/C06 rest on these) ----
//@ item Ticket
//@ item Job
//@ item Ticket::cancelled
//@ header
pub fn cancelled(env: &mut Env) -> (r: Self)
    ensures
        final(env).raised@.contains(r.job_gone.id) && final(env).raised@.contains(r.control_done.id), // OBL:C07+C09.Ticket_cancelled.already_resolved
        final(env).log == old(env).log, final(env).live == old(env).live, final(env).now == old(env).now,
        final(env).urgent == old(env).urgent, final(env).high == old(env).high, final(env).normal == old(env).normal,
        forall|f: int| old(env).raised@.contains(f) ==> final(env).raised@.contains(f),
//@ item Job::prepare_control
//@ header
fn prepare_control(&self, control: Control, env: &mut Env) -> (r: (Ticket, ControlMessage))
    ensures
        r.1.control == control, // OBL:C10+C09+C07.prepare_control.carries_the_control
        r.0.control_done.id == r.1.done.id && r.0.job_gone.id == self.gone.id, // OBL:C07+C09.prepare_control.ticket_watches_this_control_and_the_job
        !old(env).raised@.contains(r.1.done.id), // OBL:C07+C09.prepare_control.fresh_unraised_flag
        *final(env) == *old(env),
//@ item Job::send_controls
//@ header
#[verifier::exec_allows_no_decreases_clause]
pub fn send_controls<const N: usize>(&self, controls: [Control; N], priority: Priority, env: &mut Env) -> (r: Ticket)
    requires wf_tx(&self.control_queue),
    ensures
        job_sends(self, $ENVS, priority, controls@, r), // OBL:C10+C09+C07.send_controls.all_controls_in_order_same_priority
//@ loop 0 iter=vx_it
let ghost vx_l = *env; let ghost vx_cs = controls@;
invariant
    vx_it.seq() == vx_cs, 0 <= vx_it.index@ <= vx_cs.len(), wf_tx(&self.control_queue),
    sent(&vx_l, env, priority, vx_cs.subrange(0, vx_it.index@ as int)), // OBL:C10+C09+C07.send_controls.inv_prefix_sent_in_order
    vx_it.index@ > 0 ==> last_ticket is Some && ticket_for(last_ticket->Some_0, self, qp(env, priority).last()), // OBL:C10+C09+C07.send_controls.inv_ticket_is_the_last_sent
    vx_l.raised == env.raised,
//@ end
//@ item Job::control
//@ header
#[verifier::exec_allows_no_decreases_clause]
pub fn control(&self, control: Control, env: &mut Env) -> (r: Ticket)
    requires wf_tx(&self.control_queue),
    ensures
        job_sends(self, $ENVS, priority_normal(), seq![control], r), // OBL:C10+C09.job_control.sends_exactly
//@ item Job::start
//@ header
pub fn start(&self, env: &mut Env) -> (r: Ticket)
    requires wf_tx(&self.control_queue),
    ensures
        job_sends(self, $ENVS, priority_normal(), seq![Control::Start], r), // OBL:C10+C05+C09.job_start.sends_exactly
//@ item Job::stop
//@ header
pub fn stop(&self, env: &mut Env) -> (r: Ticket)
    requires wf_tx(&self.control_queue),
    ensures
        job_sends(self, $ENVS, priority_normal(), seq![Control::Stop], r), // OBL:C10+C09.job_stop.sends_exactly
//@ item Job::stop_with_signal
//@ header
pub fn stop_with_signal(&self, signal: Signal, grace: Duration, env: &mut Env) -> (r: Ticket)
    requires wf_tx(&self.control_queue),
    ensures
        job_sends(self, $ENVS, priority_normal(), seq![Control::GracefulStop { signal, grace }], r), // OBL:C10+C06+C09.job_stop_with_signal.sends_exactly
//@ item Job::restart
//@ header
pub fn restart(&self, env: &mut Env) -> (r: Ticket)
    requires wf_tx(&self.control_queue),
    ensures
        job_sends(self, $ENVS, priority_normal(), seq![Control::Stop, Control::Start], r), // OBL:C10+C05+C09.job_restart.sends_exactly
//@ item Job::restart_with_signal
//@ header
pub fn restart_with_signal(&self, signal: Signal, grace: Duration, env: &mut Env) -> (r: Ticket)
    requires wf_tx(&self.control_queue),
    ensures
        job_sends(self, $ENVS, priority_normal(), seq![Control::GracefulStop { signal, grace }, Control::Start], r), // OBL:C10+C06+C09.job_restart_with_signal.sends_exactly
//@ item Job::try_restart
//@ header
pub fn try_restart(&self, env: &mut Env) -> (r: Ticket)
    requires wf_tx(&self.control_queue),
    ensures
        job_sends(self, $ENVS, priority_normal(), seq![Control::TryRestart], r), // OBL:C10+C09.job_try_restart.sends_exactly
//@ item Job::try_restart_with_signal
//@ header
pub fn try_restart_with_signal(&self, signal: Signal, grace: Duration, env: &mut Env) -> (r: Ticket)
    requires wf_tx(&self.control_queue),
    ensures
        job_sends(self, $ENVS, priority_normal(), seq![Control::TryGracefulRestart { signal, grace }], r), // OBL:C10+C06+C09.job_try_restart_with_signal.sends_exactly
//@ item Job::signal
//@ header
pub fn signal(&self, sig: Signal, env: &mut Env) -> (r: Ticket)
    requires wf_tx(&self.control_queue),
    ensures
        job_sends(self, $ENVS, priority_normal(), seq![Control::Signal(sig)], r), // OBL:C10+C05+C09.job_signal.sends_exactly
//@ item Job::delete
//@ header
pub fn delete(&self, env: &mut Env) -> (r: Ticket)
    requires wf_tx(&self.control_queue),
    ensures
        job_sends(self, $ENVS, priority_normal(), seq![Control::Stop, Control::Delete], r), // OBL:C10+C09.job_delete.sends_exactly
//@ item Job::delete_now
//@ header
pub fn delete_now(&self, env: &mut Env) -> (r: Ticket)
    requires wf_tx(&self.control_queue),
    ensures
        job_sends(self, $ENVS, priority_urgent(), seq![Control::Stop, Control::Delete], r), // OBL:C10+C09.job_delete_now.sends_exactly
//@ item Job::to_wait
//@ header
pub fn to_wait(&self, env: &mut Env) -> (r: Ticket)
    requires wf_tx(&self.control_queue),
    ensures
        job_sends(self, $ENVS, priority_high(), seq![Control::NextEnding], r), // OBL:C10+C09.job_to_wait.sends_exactly

// ---- proof glue: the control handler's contract holds for EVERY control (case split over the per-group instances above) ----
//@ item control_arm
//@ raw
fn control_arm($CH_PARAMS) -> (r: Loop)
    requires
$CH_REQ
    ensures
$CH_ENS
{
    match control {
        Control::Start => control_handler_start(Control::Start, done, command, command_state, previous_run, stop_timer, on_end, on_end_restart, error_handler, spawn_hook, env),
        Control::Stop => control_handler_stop(Control::Stop, done, command, command_state, previous_run, stop_timer, on_end, on_end_restart, error_handler, spawn_hook, env),
        Control::GracefulStop { signal, grace } => control_handler_graceful_stop(Control::GracefulStop { signal, grace }, done, command, command_state, previous_run, stop_timer, on_end, on_end_restart, error_handler, spawn_hook, env),
        Control::TryRestart => control_handler_try_restart(Control::TryRestart, done, command, command_state, previous_run, stop_timer, on_end, on_end_restart, error_handler, spawn_hook, env),
        Control::TryGracefulRestart { signal, grace } => control_handler_try_graceful_restart(Control::TryGracefulRestart { signal, grace }, done, command, command_state, previous_run, stop_timer, on_end, on_end_restart, error_handler, spawn_hook, env),
        Control::ContinueTryGracefulRestart => control_handler_continue(Control::ContinueTryGracefulRestart, done, command, command_state, previous_run, stop_timer, on_end, on_end_restart, error_handler, spawn_hook, env),
        Control::Signal(s) => control_handler_signal(Control::Signal(s), done, command, command_state, previous_run, stop_timer, on_end, on_end_restart, error_handler, spawn_hook, env),
        Control::Delete => control_handler_delete(Control::Delete, done, command, command_state, previous_run, stop_timer, on_end, on_end_restart, error_handler, spawn_hook, env),
        Control::NextEnding => control_handler_next_ending(Control::NextEnding, done, command, command_state, previous_run, stop_timer, on_end, on_end_restart, error_handler, spawn_hook, env),
        Control::SyncFunc(f) => control_handler_func(Control::SyncFunc(f), done, command, command_state, previous_run, stop_timer, on_end, on_end_restart, error_handler, spawn_hook, env),
        Control::AsyncFunc(f) => control_handler_func(Control::AsyncFunc(f), done, command, command_state, previous_run, stop_timer, on_end, on_end_restart, error_handler, spawn_hook, env),
        Control::SetSyncSpawnHook(f) => control_handler_hooks(Control::SetSyncSpawnHook(f), done, command, command_state, previous_run, stop_timer, on_end, on_end_restart, error_handler, spawn_hook, env),
        Control::SetAsyncSpawnHook(f) => control_handler_hooks(Control::SetAsyncSpawnHook(f), done, command, command_state, previous_run, stop_timer, on_end, on_end_restart, error_handler, spawn_hook, env),
        Control::UnsetSpawnHook => control_handler_hooks(Control::UnsetSpawnHook, done, command, command_state, previous_run, stop_timer, on_end, on_end_restart, error_handler, spawn_hook, env),
        Control::SetSyncErrorHandler(f) => control_handler_hooks(Control::SetSyncErrorHandler(f), done, command, command_state, previous_run, stop_timer, on_end, on_end_restart, error_handler, spawn_hook, env),
        Control::SetAsyncErrorHandler(f) => control_handler_hooks(Control::SetAsyncErrorHandler(f), done, command, command_state, previous_run, stop_timer, on_end, on_end_restart, error_handler, spawn_hook, env),
        Control::UnsetErrorHandler => control_handler_hooks(Control::UnsetErrorHandler, done, command, command_state, previous_run, stop_timer, on_end, on_end_restart, error_handler, spawn_hook, env),
    }
}

// ---- the job task itself: the body of `tokio::spawn(async move { .. })` in start_job, with the two handler blocks outlined (R14)
// into calls of the functions proved above and select! desugared with guard, refutable pattern and else arm (R6b) ----
//@ item job_task
//@ header
#[verifier::exec_allows_no_decreases_clause]
fn job_task(command: ArcCommand, mut receiver: PriorityReceiver, done: Flag, env: &mut Env)
    requires
        wf_rx(&receiver), old(env).live@ =~= Set::<int>::empty(), senders_ok(old(env).urgent@, old(env).high@),
    ensures
        // when the job task ends (Delete, or every handle dropped and nothing running) the job's `gone` flag is raised, which resolves
        // every outstanding ticket of the job (Ticket::poll watches job_gone)
        final(env).raised@.contains(done.id), // OBL:C07+C09.job_task.gone_raised_when_the_task_ends
//@ prologue
let ghost mut told_to_end = false;
//@ loop 0
invariant_except_break
    // a handler that says Break (Delete was processed) ends the job task at once: no further iteration, so `gone` is raised and quit tasks can join
    !told_to_end, // OBL:C07+C08+C09.job_task.ends_as_soon_as_a_handler_says_break
invariant
    wf_rx(&receiver), // OBL:C10.job_task.receiver_wellformed
    inv_live(&command_state, env), // OBL:C04+C05.job_task.at_most_one_live_child_at_every_iteration
    inv_restart(stop_timer, on_end_restart, env), // OBL:C07.job_task.restart_ticket_covered_at_every_iteration
    waiters_ok(&command_state, on_end@), // OBL:C07+C09.job_task.wait_for_end_tickets_are_parked_only_while_a_process_runs
    senders_ok(env.urgent@, env.high@), // OBL:C06.job_task.urgent_and_high_queues_hold_only_their_classes
ensures
    // the job task ends only because a handler said so (Delete), or with nothing left to do: every Job handle dropped (queues closed), every queue drained,
    // no stop timer armed and no process running (D18: pending controls and an armed timer are never abandoned)
    told_to_end || (env.closed@ && env.urgent@.len() == 0 && env.high@.len() == 0 && env.normal@.len() == 0 && stop_timer is None && !(command_state is Running)), // OBL:C07+C10+C06.job_task.ends_only_when_told_to_or_with_every_queue_closed_and_drained_no_timer_armed_and_nothing_running
//@ hint 0 after `Loop::Break => {`
proof { told_to_end = true; }
//@ hint 1 after `Loop::Break => {`
proof { told_to_end = true; }
//@ hint? 2 after `Loop::Break => {`
proof { told_to_end = true; }
//@ end

//@ item control_groups_cover
//@ raw
pub proof fn lemma_control_groups_cover(control: Control)
    ensures (control is Start) || (control is Stop) || (control is GracefulStop) || (control is TryRestart) || (control is TryGracefulRestart) || (control is ContinueTryGracefulRestart) || (control is Signal) || (control is Delete) || (control is NextEnding) || (control is SyncFunc || control is AsyncFunc) || (control is SetSyncSpawnHook || control is SetAsyncSpawnHook || control is UnsetSpawnHook || control is SetSyncErrorHandler || control is SetAsyncErrorHandler || control is UnsetErrorHandler), // OBL:C09.control_groups.exhaustive
{}
//@ end
