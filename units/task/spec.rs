// spec functions for unit `task`, written from the property statements and the Job API docs
pub open spec fn cs_view(cs: &CommandState) -> CsV {
    match *cs {
        CommandState::Pending => CsV::Pending,
        CommandState::Running { child, started } => CsV::Running { cid: child.cid },
        CommandState::Finished { status, started, finished } => CsV::Finished { status, started, finished },
    }
}
pub open spec fn wf_rx(r: &PriorityReceiver) -> bool { r.normal.which == 2 && r.high.which == 1 && r.urgent.which == 0 }
pub open spec fn wf_tx(r: &PrioritySender) -> bool { r.normal.which == 2 && r.high.which == 1 && r.urgent.which == 0 }
pub open spec fn timer_expired(t: Option<Timer>, now: nat) -> bool { t is Some && t->Some_0.until.t <= now }
// exactly one queue lost exactly its head `id` (after arrivals); the other two only grew at the tail
pub open spec fn popped_from(a: Seq<int>, b: Seq<int>, id: int) -> bool {
    exists|mid: Seq<int>| #![auto] is_prefix_grown(a, mid) && mid.len() > 0 && mid[0] == id && b == mid.subrange(1, mid.len() as int)
}
pub open spec fn popped_head(pre: &Env, post: &Env, id: int) -> bool {
    (popped_from(pre.urgent@, post.urgent@, id) && is_prefix_grown(pre.high@, post.high@) && is_prefix_grown(pre.normal@, post.normal@))
    || (popped_from(pre.high@, post.high@, id) && is_prefix_grown(pre.urgent@, post.urgent@) && is_prefix_grown(pre.normal@, post.normal@))
    || (popped_from(pre.normal@, post.normal@, id) && is_prefix_grown(pre.urgent@, post.urgent@) && is_prefix_grown(pre.high@, post.high@))
}
