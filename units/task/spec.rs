// spec functions for unit `task`, written from the property statements and the Job API docs
pub open spec fn cs_view(cs: &CommandState) -> CsV {
    match *cs {
        CommandState::Pending => CsV::Pending,
        CommandState::Running { child, started } => CsV::Running { cid: child.cid, started },
        CommandState::Finished { status, started, finished } => CsV::Finished { status, started, finished },
    }
}
pub open spec fn wf_rx(r: &PriorityReceiver) -> bool { r.normal.which == 2 && r.high.which == 1 && r.urgent.which == 0 }
pub open spec fn wf_tx(r: &PrioritySender) -> bool { r.normal.which == 2 && r.high.which == 1 && r.urgent.which == 0 }
pub open spec fn timer_expired(t: Option<Timer>, now: nat) -> bool { t is Some && t->Some_0.until.t <= now }
// exactly one queue lost exactly its head `id` (after arrivals); the other two only grew at the tail
pub open spec fn popped_from(a: Seq<ControlMessage>, b: Seq<ControlMessage>, id: ControlMessage) -> bool {
    exists|mid: Seq<ControlMessage>| #![auto] is_prefix_grown(a, mid) && mid.len() > 0 && mid[0] == id && b == mid.subrange(1, mid.len() as int)
}
pub open spec fn popped_head(pre: &Env, post: &Env, id: ControlMessage) -> bool {
    (popped_from(pre.urgent@, post.urgent@, id) && is_prefix_grown(pre.high@, post.high@) && is_prefix_grown(pre.normal@, post.normal@))
    || (popped_from(pre.high@, post.high@, id) && is_prefix_grown(pre.urgent@, post.urgent@) && is_prefix_grown(pre.normal@, post.normal@))
    || (popped_from(pre.normal@, post.normal@, id) && is_prefix_grown(pre.urgent@, post.urgent@) && is_prefix_grown(pre.high@, post.high@))
}

// ---- abstract view of the job task's local state ------------------------------------------------
pub open spec fn opt_cs_view(o: Option<CommandState>) -> Option<CsV> {
    match o { Some(c) => Some(cs_view(&c)), None => None }
}
pub open spec fn flag_ids(s: Seq<Flag>) -> Seq<int> { s.map_values(|f: Flag| f.id) }
pub open spec fn opt_flag_id(o: Option<Flag>) -> Option<int> { match o { Some(f) => Some(f.id), None => None } }
pub open spec fn timer_view(o: Option<Timer>) -> Option<(nat, int, bool)> {
    match o { Some(t) => Some((t.until.t, t.done.id, t.is_restart)), None => None }
}
// what `previous` must be after the current state was retired by a (re)start: the documented "state of the previous run"
pub open spec fn retired(v: CsV) -> CsV { v }

// I1 (C04): the children spawned and not yet reaped are exactly the one the state owns
pub open spec fn inv_live(cs: &CommandState, env: &Env) -> bool {
    forall|c: int| #[trigger] env.live@.contains(c) <==> (*cs is Running && c == running_cid(cs_view(cs)))
}

// ids of the first n flags of a sequence / of all of them (recursive definition: no quantifier alternation in the proofs)
pub open spec fn prefix_ids(s: Seq<Flag>, n: int) -> Set<int> decreases n {
    if n <= 0 { Set::empty() } else { prefix_ids(s, n - 1).insert(s[n - 1].id) }
}
pub open spec fn all_ids(s: Seq<Flag>) -> Set<int> { prefix_ids(s, s.len() as int) }
pub proof fn lemma_prefix_ids_push(s: Seq<Flag>, x: Flag, n: int)
    requires 0 <= n <= s.len()
    ensures prefix_ids(s.push(x), n) == prefix_ids(s, n)
    decreases n
{
    if n > 0 { lemma_prefix_ids_push(s, x, n - 1); assert(s.push(x)[n - 1] == s[n - 1]); }
}
pub broadcast proof fn lemma_all_ids_push(s: Seq<Flag>, x: Flag)
    ensures #[trigger] all_ids(s.push(x)) == all_ids(s).insert(x.id)
{
    lemma_prefix_ids_push(s, x, s.len() as int);
    assert(s.push(x)[s.len() as int] == x);
}
pub proof fn lemma_prefix_ids_contains(s: Seq<Flag>, n: int, k: int)
    requires 0 <= k < n <= s.len()
    ensures prefix_ids(s, n).contains(s[k].id)
    decreases n
{
    if k < n - 1 { lemma_prefix_ids_contains(s, n - 1, k); }
}
pub broadcast proof fn lemma_all_ids_contains(s: Seq<Flag>, k: int)
    requires 0 <= k < s.len()
    ensures all_ids(s).contains(#[trigger] s[k].id)
{
    lemma_prefix_ids_contains(s, s.len() as int, k);
}

// flags parked in the task-local state (they will be raised later)
pub open spec fn parked(f: int, timer: Option<Timer>, on_end: Seq<Flag>, on_end_restart: Option<Flag>) -> bool {
    (timer is Some && timer->Some_0.done.id == f)
    || all_ids(on_end).contains(f)
    || (on_end_restart is Some && on_end_restart->Some_0.id == f)
}

// I3 (C07): a parked graceful-restart ticket is covered by its armed restart timer, or is already resolved
pub open spec fn inv_restart(timer: Option<Timer>, on_end_restart: Option<Flag>, env: &Env) -> bool {
    (on_end_restart is Some ==> (timer is Some && timer->Some_0.is_restart && timer->Some_0.done.id == on_end_restart->Some_0.id)
        || env.raised@.contains(on_end_restart->Some_0.id))
    // and an armed restart timer always has its ticket parked for the process end as well
    && (timer is Some && timer->Some_0.is_restart ==> on_end_restart is Some && timer->Some_0.done.id == on_end_restart->Some_0.id)
}

// ---- log deltas ------------------------------------------------------------------------------------
pub open spec fn extends(pre: &Env, post: &Env, n: int) -> bool {
    post.log@.len() == pre.log@.len() + n && post.log@.subrange(0, pre.log@.len() as int) =~= pre.log@
}
pub open spec fn at(pre: &Env, post: &Env, k: int) -> Act { post.log@[pre.log@.len() + k] }

pub open spec fn is_kill(a: Act, c: int, okv: bool) -> bool { a == (Act::Kill { cid: c, ok: okv }) }
pub open spec fn is_wait(a: Act, c: int, okv: bool) -> bool { a == (Act::Wait { cid: c, ok: okv }) }
pub open spec fn is_signal(a: Act, c: int, n: int, okv: bool) -> bool { a == (Act::Signal { cid: c, nix: n, ok: okv }) }
pub open spec fn is_hook(a: Act, ver0: int, c: CsV, p: Option<CsV>) -> bool {
    match a { Act::Hook { inp, out, cur, prev } => inp == ver0 && cur == c && prev == p, _ => false }
}
pub open spec fn hook_out(a: Act) -> int { match a { Act::Hook { inp, out, cur, prev } => out, _ => 0 } }
pub open spec fn is_spawn(a: Act, v: int) -> bool { match a { Act::Spawn { ok, cid, ver } => ver == v, _ => false } }
pub open spec fn spawn_ok(a: Act) -> bool { match a { Act::Spawn { ok, cid, ver } => ok, _ => false } }
pub open spec fn spawn_cid(a: Act) -> int { match a { Act::Spawn { ok, cid, ver } => cid, _ => 0 } }
pub open spec fn is_func(a: Act, c: CsV, p: Option<CsV>) -> bool { a == (Act::Func { cur: c, prev: p }) }

// the signal actually delivered for a requested one: its OS number, or SIGTERM when it has none (doc of Job::signal / stop_with_signal)
pub open spec fn delivered(s: Signal) -> int { match nix_of(s) { Some(n) => n, None => SIGTERM } }

pub open spec fn cs_is_running(v: CsV) -> bool { v is Running }
pub open spec fn running_cid(v: CsV) -> int { match v { CsV::Running { cid, started } => cid, _ => 0 } }
pub open spec fn started_of(v: CsV) -> Instant { match v { CsV::Running { cid, started } => started, CsV::Finished { status, started, finished } => started, _ => Instant { t: 0 } } }
pub open spec fn is_finished_from(v: CsV) -> bool { v is Finished }

// documented (re)spawn sequence: the hook runs exactly once, immediately before the spawn, on the command's spawnable, seeing the
// fresh Pending state and the retired previous run; what it leaves is what is spawned; on success the job owns the new child
pub open spec fn respawn_seq(pre: &Env, post: &Env, k: int, n: int, command: &ArcCommand, prev: Option<CsV>, final_cs: CsV) -> bool {
    is_hook(at(pre, post, k), base_ver(command), CsV::Pending, prev)
    && is_spawn(at(pre, post, k + 1), hook_out(at(pre, post, k)))
    && (spawn_ok(at(pre, post, k + 1)) ==> n == k + 2 && final_cs is Running && running_cid(final_cs) == spawn_cid(at(pre, post, k + 1)))
    && (!spawn_ok(at(pre, post, k + 1)) ==> n == k + 3 && at(pre, post, k + 2) is ErrH && final_cs is Pending)
}

// ---- the documented state machine (C09): one predicate per control, written from the docs of `Job` and `Control` -------------
pub struct JobView {
    pub cs: CsV,                          // pending / running / finished
    pub prev: Option<CsV>,                // the previous run's result
    pub timer: Option<(nat, int, bool)>,  // armed grace timer: (deadline, ticket flag, restart?)
    pub on_end: Seq<int>,                 // wait-for-end tickets parked until the process ends (in arrival order)
    pub on_end_set: Set<int>,             //   ... as a set
    pub on_end_restart: Option<int>,      // graceful try-restart ticket parked until the process ends
    pub eh: ErrorHandler,
    pub sh: SpawnHook,
}
pub open spec fn view(cs: &CommandState, prev: Option<CommandState>, timer: Option<Timer>, on_end: Seq<Flag>, oer: Option<Flag>, eh: ErrorHandler, sh: SpawnHook) -> JobView {
    JobView { cs: cs_view(cs), prev: opt_cs_view(prev), timer: timer_view(timer), on_end: flag_ids(on_end), on_end_set: all_ids(on_end), on_end_restart: opt_flag_id(oer), eh, sh }
}
pub open spec fn n_of(pre: &Env, post: &Env) -> int { post.log@.len() - pre.log@.len() }
// nothing about the job changed
pub open spec fn unchanged(ov: JobView, fv: JobView) -> bool { fv == ov }
// the parts no control but the dedicated ones touches
pub open spec fn same_hooks(ov: JobView, fv: JobView) -> bool { fv.eh == ov.eh && fv.sh == ov.sh }
pub open spec fn same_timer(ov: JobView, fv: JobView) -> bool { fv.timer == ov.timer && fv.on_end_restart == ov.on_end_restart }
pub open spec fn same_waiters(ov: JobView, fv: JobView) -> bool { fv.on_end == ov.on_end && fv.on_end_set == ov.on_end_set }
// process-end bookkeeping: every parked wait-for-end ticket resolves, none stays parked
pub open spec fn ended(ov: JobView, fv: JobView, post: &Env) -> bool {
    fv.on_end.len() == 0 && fv.on_end_set =~= Set::<int>::empty() && ov.on_end_set.subset_of(post.raised@)
}
pub open spec fn finished_keeping_start(ov: JobView, v: CsV) -> bool { v is Finished && started_of(v) == started_of(ov.cs) }
// forced stop of the running child c at log offset k: 0 = kill failed, 1 = collecting the status failed, 2 = killed and reaped
pub open spec fn forced_stop(pre: &Env, post: &Env, k: int, c: int) -> int {
    if is_kill(at(pre, post, k), c, false) { 0 }
    else if is_kill(at(pre, post, k), c, true) && is_wait(at(pre, post, k + 1), c, false) { 1 }
    else if is_kill(at(pre, post, k), c, true) && is_wait(at(pre, post, k + 1), c, true) { 2 }
    else { -1 }
}
pub open spec fn failed_at(pre: &Env, post: &Env, n: int, ov: JobView, fv: JobView) -> bool { n_of(pre, post) == n && at(pre, post, n - 1) is ErrH && unchanged(ov, fv) }
pub open spec fn forced_stop_failed(pre: &Env, post: &Env, ov: JobView, fv: JobView) -> bool {
    (forced_stop(pre, post, 0, running_cid(ov.cs)) == 0 && failed_at(pre, post, 2, ov, fv))
    || (forced_stop(pre, post, 0, running_cid(ov.cs)) == 1 && failed_at(pre, post, 3, ov, fv))
}

// Start: "Start the command if it's not running."
pub open spec fn c09_start(ov: JobView, fv: JobView, pre: &Env, post: &Env, command: &ArcCommand) -> bool {
    if ov.cs is Running { n_of(pre, post) == 0 && unchanged(ov, fv) }
    else {
        fv.prev == Some(ov.cs) && same_hooks(ov, fv) && same_timer(ov, fv) && same_waiters(ov, fv)
        && respawn_seq(pre, post, 0, n_of(pre, post), command, Some(ov.cs), fv.cs)
    }
}
// Stop: "Stop the command if it's running and wait for completion."
pub open spec fn c09_stop(ov: JobView, fv: JobView, pre: &Env, post: &Env) -> bool {
    if !(ov.cs is Running) { n_of(pre, post) == 0 && unchanged(ov, fv) }
    else {
        forced_stop_failed(pre, post, ov, fv)
        || (forced_stop(pre, post, 0, running_cid(ov.cs)) == 2 && n_of(pre, post) == 2 && finished_keeping_start(ov, fv.cs)
            && fv.prev == ov.prev && same_hooks(ov, fv) && same_timer(ov, fv) && ended(ov, fv, post))
    }
}
// GracefulStop / TryGracefulRestart: "The command will be sent `signal` and then given `grace` time before being forcefully terminated."
pub open spec fn c09_graceful(ov: JobView, fv: JobView, pre: &Env, post: &Env, signal: Signal, grace: Duration, done: int, restart: bool, deferred: bool) -> bool {
    if !(ov.cs is Running) { n_of(pre, post) == 0 && unchanged(ov, fv) && !deferred }
    else {
        let c = running_cid(ov.cs);
        (is_signal(at(pre, post, 0), c, delivered(signal), false) && failed_at(pre, post, 2, ov, fv) && !deferred)
        || (is_signal(at(pre, post, 0), c, delivered(signal), true) && n_of(pre, post) == 1     // the signal, and nothing else: no kill
            // the ticket is deferred: it resolves when the process ends or the grace period expires, whichever is first
            && deferred
            && fv.cs == ov.cs && fv.prev == ov.prev && same_hooks(ov, fv) && same_waiters(ov, fv)
            && fv.timer == Some((post.now@ + grace.d, done, restart))
            && fv.on_end_restart == (if restart { Some(done) } else { ov.on_end_restart }))
    }
}
// after a forced stop at log offsets 0,1: the retired run is the previous one, waiters resolved, and a fresh process is spawned
pub open spec fn stopped_and_respawned(ov: JobView, fv: JobView, pre: &Env, post: &Env, command: &ArcCommand) -> bool {
    forced_stop(pre, post, 0, running_cid(ov.cs)) == 2
    && fv.prev is Some && finished_keeping_start(ov, fv.prev->Some_0)
    && same_hooks(ov, fv) && ended(ov, fv, post)
    && respawn_seq(pre, post, 2, n_of(pre, post), command, fv.prev, fv.cs)
}
// TryRestart: "Restart the command if it's running, but don't start it if it's not."
pub open spec fn c09_try_restart(ov: JobView, fv: JobView, pre: &Env, post: &Env, command: &ArcCommand) -> bool {
    if !(ov.cs is Running) { n_of(pre, post) == 0 && unchanged(ov, fv) }
    else { forced_stop_failed(pre, post, ov, fv) || (stopped_and_respawned(ov, fv, pre, post, command) && same_timer(ov, fv)) }
}
// ContinueTryGracefulRestart (grace period of a graceful try-restart expired): force-stop if still running, then start afresh
pub open spec fn c09_continue(ov: JobView, fv: JobView, pre: &Env, post: &Env, command: &ArcCommand) -> bool {
    // the pending restart request is consumed by this continuation, whatever happens next
    fv.timer == ov.timer && fv.on_end_restart is None && if !(ov.cs is Running) {
        fv.prev == Some(ov.cs) && same_hooks(ov, fv) && same_waiters(ov, fv)
        && respawn_seq(pre, post, 0, n_of(pre, post), command, Some(ov.cs), fv.cs)
    } else {
        forced_stop_failed(pre, post, JobView { on_end_restart: None, ..ov }, fv) || stopped_and_respawned(ov, fv, pre, post, command)
    }
}
// Signal: "Sends a signal to the current program, if there is one. If there isn't, this is a no-op."
pub open spec fn c09_signal(ov: JobView, fv: JobView, pre: &Env, post: &Env, sig: Signal) -> bool {
    unchanged(ov, fv) && if !(ov.cs is Running) { n_of(pre, post) == 0 } else {
        (is_signal(at(pre, post, 0), running_cid(ov.cs), delivered(sig), true) && n_of(pre, post) == 1)
        || (is_signal(at(pre, post, 0), running_cid(ov.cs), delivered(sig), false) && n_of(pre, post) == 2 && at(pre, post, 1) is ErrH)
    }
}
// NextEnding (Job::to_wait): "Get a future which resolves when the command ends. If the command is not running, the future resolves immediately."
pub open spec fn c09_next_ending(ov: JobView, fv: JobView, pre: &Env, post: &Env, done: int) -> bool {
    n_of(pre, post) == 0 && if ov.cs is Running {
        fv.cs == ov.cs && fv.prev == ov.prev && same_hooks(ov, fv) && same_timer(ov, fv)
        && fv.on_end =~= ov.on_end.push(done) && fv.on_end_set =~= ov.on_end_set.insert(done)
        && (post.raised@.contains(done) ==> pre.raised@.contains(done))
    } else { unchanged(ov, fv) && post.raised@.contains(done) }
}
// SyncFunc / AsyncFunc (Job::run, run_async): the function is called once with the current and the previous state
pub open spec fn c09_func(ov: JobView, fv: JobView, pre: &Env, post: &Env) -> bool {
    unchanged(ov, fv) && n_of(pre, post) == 1 && is_func(at(pre, post, 0), ov.cs, ov.prev)
}
// Set*/Unset* hooks: only that hook changes
pub open spec fn c09_set_hooks(ov: JobView, fv: JobView, pre: &Env, post: &Env, eh: ErrorHandler, sh: SpawnHook) -> bool {
    n_of(pre, post) == 0 && fv == (JobView { eh, sh, ..ov })
}

// the running process of `v` ended in this step: its exit status was collected
pub open spec fn reaped_in(pre: &Env, post: &Env, v: CsV) -> bool {
    // the successful wait is the first effect (child-ended arm) or directly follows the kill (Stop / TryRestart / Continue arms)
    v is Running && ((n_of(pre, post) >= 1 && is_wait(at(pre, post, 0), running_cid(v), true))
                  || (n_of(pre, post) >= 2 && is_wait(at(pre, post, 1), running_cid(v), true)))
}

// The running process ended by itself (select arm 1). From the docs: `to_wait` tickets resolve when the command ends; a pending
// graceful stop is over (its ticket resolves: "no later than the earlier of the process exiting and the grace period expiring");
// a pending graceful try-restart continues: the replacement is started, once, and its ticket resolves.
pub open spec fn c09_child_ended(ov: JobView, fv: JobView, pre: &Env, post: &Env, command: &ArcCommand, skipped: bool) -> bool {
    let c = running_cid(ov.cs);
    (is_wait(at(pre, post, 0), c, false) && failed_at(pre, post, 2, ov, fv) && skipped)
    || (is_wait(at(pre, post, 0), c, true) && same_hooks(ov, fv) && ended(ov, fv, post)
        && fv.timer is None && fv.on_end_restart is None
        // the grace timer's ticket (graceful stop or graceful try-restart) resolves now
        && (ov.timer is Some ==> post.raised@.contains(ov.timer->Some_0.1))
        && (ov.on_end_restart is Some ==> post.raised@.contains(ov.on_end_restart->Some_0))
        && if ov.on_end_restart is None {
            n_of(pre, post) == 1 && finished_keeping_start(ov, fv.cs) && fv.prev == ov.prev && !skipped
        } else {
            fv.prev is Some && finished_keeping_start(ov, fv.prev->Some_0)
            && respawn_seq(pre, post, 1, n_of(pre, post), command, fv.prev, fv.cs)
        })
}

// ---- the sender side ------------------------------------------------------------------------------------
pub open spec fn priority_normal() -> Priority { Priority::Normal }
pub open spec fn priority_high() -> Priority { Priority::High }
pub open spec fn priority_urgent() -> Priority { Priority::Urgent }
pub open spec fn qp(env: &Env, p: Priority) -> Seq<ControlMessage> {
    match p { Priority::Normal => env.normal@, Priority::High => env.high@, Priority::Urgent => env.urgent@ }
}
// exactly the controls `ctls`, in that order, were appended to the queue of priority p, each with a so-far unraised flag; nothing else changed
pub open spec fn sent(pre: &Env, post: &Env, p: Priority, ctls: Seq<Control>) -> bool {
    qp(post, p).len() == qp(pre, p).len() + ctls.len()
    && qp(post, p).subrange(0, qp(pre, p).len() as int) =~= qp(pre, p)
    && (forall|i: int| 0 <= i < ctls.len() ==> (#[trigger] qp(post, p)[qp(pre, p).len() + i]).control == ctls[i])
    && (forall|i: int| 0 <= i < ctls.len() ==> !pre.raised@.contains((#[trigger] qp(post, p)[qp(pre, p).len() + i]).done.id))
    && (!(p is Normal) ==> post.normal == pre.normal) && (!(p is High) ==> post.high == pre.high) && (!(p is Urgent) ==> post.urgent == pre.urgent)
    && same_world(pre, post) && post.now == pre.now
}
pub open spec fn ticket_for(t: Ticket, job: &Job, m: ControlMessage) -> bool { t.control_done.id == m.done.id && t.job_gone.id == job.gone.id }
// what every Job method does (docs of `Job`): on a dead job nothing is sent and the ticket is already resolved; otherwise the controls are
// queued in order with one priority and the ticket is that of the LAST control (so awaiting it implies all earlier ones ran: C10)
pub open spec fn job_sends(job: &Job, pre: &Env, post: &Env, p: Priority, ctls: Seq<Control>, t: Ticket) -> bool {
    if ctls.len() == 0 || pre.raised@.contains(job.gone.id) {
        post.normal == pre.normal && post.high == pre.high && post.urgent == pre.urgent && post.log == pre.log && post.live == pre.live && post.now == pre.now
        && post.raised@.contains(t.control_done.id) && post.raised@.contains(t.job_gone.id)
    } else {
        sent(pre, post, p, ctls) && ticket_for(t, job, qp(post, p).last())
    }
}

// exactly one entry was appended to the log
pub open spec fn pushed1(pre: &Env, post: &Env) -> bool { post.log@ == pre.log@.push(post.log@[pre.log@.len() as int]) }

// wait-for-end tickets are parked only while a process is running (a ticket parked with nothing running would wait for the end of a run
// that may never start: "wait-for-end resolves at once when nothing is running")
pub open spec fn waiters_ok(cs: &CommandState, on_end: Seq<Flag>) -> bool { on_end.len() > 0 ==> *cs is Running }
