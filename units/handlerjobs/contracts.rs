// Contract overlay for unit `handlerjobs` (C05, C08)
//@ item Handler::create_job
//@ header
    pub fn create_job(&mut self, command: ArcCommand, env: &mut HEnv) -> (r: (Id, Job))
        ensures
            // exactly one job task is started, for this command, and it is recorded under a fresh id: the worker will adopt it
            final(env).started@.len() == old(env).started@.len() + 1 && final(env).started@.last().0 == command && final(env).started@.last().1 == r.1
                && final(self).new.m@ == old(self).new.m@.insert(r.0, (r.1, final(env).started@.last().2)), // OBL:C08.handler.create_job_starts_one_job_and_records_it_for_adoption
            !old(env).issued@.contains(r.0), final(self).extant == old(self).extant,
//@ item Handler::create_job_with_id
//@ header
    fn create_job_with_id(&mut self, id: Id, command: ArcCommand, env: &mut HEnv) -> (r: Job)
        ensures
            final(env).started@.len() == old(env).started@.len() + 1 && final(env).started@.last().0 == command && final(env).started@.last().1 == r
                && final(self).new.m@ == old(self).new.m@.insert(id, (r, final(env).started@.last().2)), // OBL:C08.handler.create_job_starts_one_job_and_records_it_for_adoption
            final(self).extant == old(self).extant, final(env).issued == old(env).issued,
//@ item Handler::get_job
//@ header
    pub fn get_job(&self, id: Id) -> (r: Option<Job>)
        ensures (r is Some) == self.extant.m@.contains_key(id), r is Some ==> r->Some_0 == self.extant.m@[id], // OBL:C05+C08.handler.get_job_is_the_supervised_job_of_that_id
//@ item Handler::get_or_create_job
//@ header
    pub fn get_or_create_job(&mut self, id: Id, command: CommandFn, env: &mut HEnv) -> (r: Job)
        ensures
            // a job created under this id EARLIER IN THE SAME ACTION is handed out again: a second one would replace it in `new`, and the first would never
            // be adopted by the worker, so no quit would ever stop it (D20)
            old(self).new.m@.contains_key(id) ==> r == old(self).new.m@[id].0 && final(env).started == old(env).started && final(self).new == old(self).new, // OBL:C08+C05.handler.get_or_create_job_reuses_the_job_created_earlier_in_this_action
            // an id that is already supervised yields that job and starts nothing: the same id in every action means one job for the whole run
            !old(self).new.m@.contains_key(id) && old(self).extant.m@.contains_key(id) ==> r == old(self).extant.m@[id] && final(env).started == old(env).started && final(self).new == old(self).new, // OBL:C05+C08.handler.get_or_create_job_reuses_the_supervised_job
            // otherwise exactly one job is started and recorded under that id
            !old(self).new.m@.contains_key(id) && !old(self).extant.m@.contains_key(id) ==> final(env).started@.len() == old(env).started@.len() + 1 && final(env).started@.last().1 == r
                && final(env).started@.last().0 == command.yields && final(self).new.m@ == old(self).new.m@.insert(id, (r, final(env).started@.last().2)), // OBL:C05+C08.handler.get_or_create_job_creates_exactly_one_job_otherwise
            // no job recorded for adoption is ever replaced (and thereby leaked) by this call
            forall|k: Id| old(self).new.m@.contains_key(k) ==> final(self).new.m@.contains_key(k) && final(self).new.m@[k] == old(self).new.m@[k], // OBL:C08.handler.get_or_create_job_never_replaces_a_job_recorded_for_adoption
            final(self).extant == old(self).extant,
//@ end
