// spec for unit `handlerjobs` (C05, C08), from the documentation of the Handler methods: a created job is started at once and recorded in
// `new` under its id (the action worker adopts exactly `new`: unit actionloop); get_or_create_job creates nothing when the id is already supervised
