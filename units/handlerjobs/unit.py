# unit `handlerjobs`: crates/lib/src/action/handler.rs, the methods through which an action handler obtains jobs — serves C05, C08
H = "crates/lib/src/action/handler.rs"
C = "crates/cli/src/config.rs"
UNIT = dict(
    name="handlerjobs",
    prelude=["handlerjobs_env.rs"],
    spec=["spec.rs"],
    rules=dict(
        env_methods=["create_job_with_id"],
        env_paths=["start_job", "Id::default"],
        subst=[("Arc<Command>", "ArcCommand"), ("impl Fn() -> ArcCommand", "CommandFn")],
    ),
    structural=[
        dict(id="C05.structure.one_job_id_for_the_whole_run", file=C, count_in_fn="make_config", pattern="Id::default()", expect=1,
             why="the CLI's single command is one supervisor job: its id is made once"),
        dict(id="C05.structure.job_id_is_made_outside_the_action_handler", file=C, count_in_fn="make_config", before=("let id = Id::default();", "config.on_action_async("),
             why="the id is computed before the action handler closure is built, so every action looks up the same job"),
        dict(id="C05.structure.every_action_looks_the_job_up_by_that_id", file=C, count_in_fn="make_config", pattern="action.get_or_create_job(id,", expect=1,
             why="the handler obtains its job by this id and in no other way"),
        dict(id="C05.structure.no_other_job_creation_in_the_cli_handler", file=C, count_in_fn="make_config", token_regex=r"create_job|get_or_create_job|create_job_with_id|get_job|list_jobs", expect=1,
             why="see above"),
    ],
    extract=[
        dict(id="Handler::create_job", kind="fn", src=H, impl="impl Handler", name="create_job"),
        dict(id="Handler::create_job_with_id", kind="fn", src=H, impl="impl Handler", name="create_job_with_id"),
        dict(id="Handler::get_job", kind="fn", src=H, impl="impl Handler", name="get_job", rules=dict(pre_subst=[("self.extant.get(&id).cloned()", "vx_cloned(self.extant.get(&id))")])),
        dict(id="Handler::get_or_create_job", kind="fn", src=H, impl="impl Handler", name="get_or_create_job",
             rules=dict(option_unfold=True, option_unfold_unwrap_or_else=True, pre_subst=[("command()", "command.call()")])),
    ],
)
