# unit `sources`: event producers of crates/lib — serves C01 (every producer queues exactly what it observed), C15 (callback errors)
L = "crates/lib/src/"
E = "crates/events/src/"
UNIT = dict(
    name="sources",
    prelude=["sources_env.rs"],
    spec=["spec.rs"],
    rules=dict(
        env_methods=["send", "try_send"],
        env_paths=["send_event", "process_event"],
        strlit="StrS::lit({})",
        question=True,
        result_unfold=True,
        pre_subst=[
            ("metadata: Default::default()", "metadata: MetaMap::default()"),
            ("metadata(&path).ok().map(|m| m.file_type().into())", "vx_file_type_of(&path)"),
            ("HashMap::new()", "MetaMap::new()"),
        ],
        subst=[
            ("PathBuf", "PathS"),
            ("Result<notify::Event, notify::Error>", "Result<NotifyEvent, NotifyError>"),
            ("&priority::Sender<Event, Priority>", "&EvTx"),
        ],
    ),
    extract=[
        dict(id="Event::is_empty", kind="fn", src="crates/events/src/event.rs", impl="impl Event", name="is_empty"),
        dict(id="Priority", kind="type", src=E + "event.rs", name="Priority", structural=True),
        dict(id="Source", kind="type", src=E + "event.rs", name="Source", structural=True),
        dict(id="Keyboard", kind="type", src=E + "keyboard.rs", name="Keyboard", structural=True),
        dict(id="FileType", kind="type", src=E + "fs.rs", name="FileType", structural=True),
        dict(id="Signal", kind="type", src="crates/signals/src/lib.rs", name="Signal", structural=True),
        dict(id="Tag", kind="type", src=E + "event.rs", name="Tag", drop_derive=["Clone"]),
        dict(id="Event::signals", kind="fn", src=E + "event.rs", impl="impl Event", name="signals", rules=dict(vec_idioms=True)),
        dict(id="Event::paths", kind="fn", src=E + "event.rs", impl="impl Event", name="paths",
             rules=dict(vec_idioms=True, pre_subst=[("path.as_path()", "*path"), ("file_type.as_ref()", "*file_type")])),
        dict(id="Handler::signals", kind="fn", src=L + "action/handler.rs", impl="impl Handler", name="signals",
             rules=dict(vec_idioms=True, pre_subst=[("flat_map(Event::signals)", "flat_map(|e| e.signals())")])),
        dict(id="signal::send_event", kind="fn", src=L + "sources/signal.rs", name="send_event"),
        dict(id="keyboard::send_event", kind="fn", src=L + "sources/keyboard.rs", name="send_event"),
        dict(id="fs::process_event", kind="fn", src=L + "sources/fs.rs", name="process_event", rules=dict(question_from="vx_id")),
        dict(id="watcher_callback", kind="block", src=L + "sources/fs.rs", within="worker", after="create(move |nev: Result<notify::Event, notify::Error>|", nth=0,
             free=["config_watcher", "n_errors", "n_events", "nev"], extra_bound=["nev"]),
        dict(id="Watchexec::send_event", kind="fn", src=L + "watchexec.rs", impl="impl Watchexec", name="send_event",
             rules=dict(question_from="vx_from_ev")),
    ],
)
