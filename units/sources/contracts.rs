// Contract overlay for unit `sources`
//@ item Event::signals
//@ header
    pub fn signals(&self) -> (r: FmIter<Signal>)
        // the signals of an event are exactly its signal tags, in order (the CLI quits on an unmapped interrupt/terminate found this way)
        ensures r.v@ == filter_map_seq(self.tags@, |t: Tag| match t { Tag::Signal(s) => Some(s), _ => None::<Signal> }), // OBL:C01+C08.event.signals_are_the_signal_tags
//@ closure 0
|p: &Tag| -> (vx_r: Option<Signal>) ensures vx_r == (match *p { Tag::Signal(s) => Some(s), _ => None::<Signal> }) /* OBL:C01+C08.event.signals_are_the_signal_tags */
//@ closure_ghost 0
Ghost(|t: Tag| match t { Tag::Signal(s) => Some(s), _ => None::<Signal> })
//@ item Event::paths
//@ header
    pub fn paths(&self) -> (r: FmIter<(PathS, Option<FileType>)>)
        // the paths of an event are exactly its path tags with their file types, in order (what the filterers look at)
        ensures r.v@ == filter_map_seq(self.tags@, |t: Tag| match t { Tag::Path { path, file_type } => Some((path, file_type)), _ => None::<(PathS, Option<FileType>)> }), // OBL:C01+C03+C11.event.paths_are_the_path_tags
//@ closure 0
|p: &Tag| -> (vx_r: Option<(PathS, Option<FileType>)>) ensures vx_r == (match *p { Tag::Path { path, file_type } => Some((path, file_type)), _ => None::<(PathS, Option<FileType>)> }) /* OBL:C01+C03+C11.event.paths_are_the_path_tags */
//@ closure_ghost 0
Ghost(|t: Tag| match t { Tag::Path { path, file_type } => Some((path, file_type)), _ => None::<(PathS, Option<FileType>)> })
//@ item Handler::signals
//@ header
    pub fn signals(&self) -> (r: FmIter<Signal>)
        // the signals of an action are the signals of its events, in order, none missing (the CLI's signal gate and quit-on-interrupt read this)
        ensures r.v@ == flat_seq(self.events@, |e: Event| filter_map_seq(e.tags@, |t: Tag| match t { Tag::Signal(s) => Some(s), _ => None::<Signal> })), // OBL:C08.handler.signals_are_all_signals_of_all_events
//@ closure 0
|e: &Event| -> (vx_r: FmIter<Signal>) ensures vx_r.v@ == filter_map_seq(e.tags@, |t: Tag| match t { Tag::Signal(s) => Some(s), _ => None::<Signal> }) /* OBL:C08.handler.signals_are_all_signals_of_all_events */
//@ closure_ghost 0
Ghost(|e: Event| filter_map_seq(e.tags@, |t: Tag| match t { Tag::Signal(s) => Some(s), _ => None::<Signal> }))
//@ item Event::is_empty
//@ header
    pub fn is_empty(&self) -> (r: bool)
        // an event is "empty" (and so by-passes the filterer in throttle_collect: unit worker's stand-in) exactly when it has no tags
        ensures r == (self.tags@.len() == 0), // OBL:C01.event.empty_means_no_tags
//@ item Priority
//@ item Source
//@ item Keyboard
//@ item FileType
//@ item Signal
//@ item Tag
//@ item signal::send_event
//@ header
fn signal_send_event(errors: ErrTx, events: EvTx, sig: Signal, env: &mut SEnv) -> (r: Result<(), CriticalError>)
    ensures
        // a received signal becomes exactly one queued event: [Source(Keyboard if Interrupt else Os), Signal(sig)], urgent for Interrupt/Terminate, else high
        one_send(old(env), final(env), signal_tags(sig), signal_priority(sig))
            && (accepted(old(env), final(env)) ==> final(env).err_attempts == old(env).err_attempts && r is Ok)
            // a closed event queue is reported as a runtime error (once); only a closed error channel is critical
            && (!accepted(old(env), final(env)) ==> final(env).err_attempts@ == old(env).err_attempts@ + 1 && (r is Ok <==> final(env).errs@.len() == old(env).errs@.len() + 1)), // OBL:C01+C15.signal_send_event.one_event_exact_tags_and_priority
        // the signal source waits for room in the event queue: a signal is never refused because the queue is full
        final(env).nowait_sends == old(env).nowait_sends, // OBL:C01.signal_send_event.waits_for_room_never_drops_on_a_full_queue
//@ item keyboard::send_event
//@ header
fn keyboard_send_event(errors: ErrTx, events: EvTx, msg: Keyboard, env: &mut SEnv) -> (r: Result<(), CriticalError>)
    ensures
        one_send(old(env), final(env), keyboard_tags(msg), Priority::Normal)
            && (accepted(old(env), final(env)) ==> final(env).err_attempts == old(env).err_attempts && r is Ok)
            && (!accepted(old(env), final(env)) ==> final(env).err_attempts@ == old(env).err_attempts@ + 1 && (r is Ok <==> final(env).errs@.len() == old(env).errs@.len() + 1)), // OBL:C01+C15.keyboard_send_event.one_event_exact_tags_normal_priority
        final(env).nowait_sends == old(env).nowait_sends, // OBL:C01.keyboard_send_event.waits_for_room_never_drops_on_a_full_queue
//@ item fs::process_event
//@ header
fn process_event(nev: Result<NotifyEvent, NotifyError>, kind: Watcher, n_events: &EvTx, env: &mut SEnv) -> (r: Result<(), RuntimeError>)
    ensures
        final(env).errs == old(env).errs && final(env).err_attempts == old(env).err_attempts,
        // an unreadable notification queues nothing and is returned as an error
        nev is Err ==> r is Err && final(env).sent == old(env).sent && final(env).attempts == old(env).attempts, // OBL:C01+C15.process_event.unreadable_event_queues_nothing
        // a notification becomes exactly one try_send, normal priority, with one Path tag per path (normalised, typed), in order
        nev is Ok ==> one_send(old(env), final(env), fs_tags(nev->Ok_0), Priority::Normal) && (r is Ok <==> accepted(old(env), final(env))), // OBL:C01.process_event.one_event_exact_tags
//@ loop 0 iter=vx_it
let ghost vx_paths = nev.paths@; let ghost vx_kind = nev.kind;
invariant
    vx_it.seq() == vx_paths, 0 <= vx_it.index@ <= vx_paths.len(),
    tags@ == seq![Tag::Source(Source::Filesystem), Tag::FileEventKind(vx_kind)] + vx_paths.subrange(0, vx_it.index@ as int).map_values(|p: PathS| path_tag(p)), // OBL:C01.process_event.inv_one_path_tag_per_path_in_order
//@ item watcher_callback
//@ header
// the closure handed to notify as event handler (fs::worker): `move |nev| { .. }`, captured variables become parameters
fn watcher_callback(nev: Result<NotifyEvent, NotifyError>, config_watcher: Watcher, n_events: EvTx, n_errors: ErrTx, env: &mut SEnv)
    ensures
        // an error raised in the callback (unreadable event, full/closed event queue) is offered to the error channel at most once, and only then
        final(env).err_attempts@ <= old(env).err_attempts@ + 1, // OBL:C15.watcher_callback.error_passed_at_most_once
        final(env).err_attempts@ == old(env).err_attempts@ + 1 <==> (nev is Err || !accepted(old(env), final(env))), // OBL:C15.watcher_callback.every_callback_error_is_offered_once
        nev is Ok ==> one_send(old(env), final(env), fs_tags(nev->Ok_0), Priority::Normal), // OBL:C01.watcher_callback.one_event_per_notification
        nev is Err ==> final(env).sent == old(env).sent,
//@ item Watchexec::send_event
//@ header
pub fn send_event(&self, event: Event, priority: Priority, env: &mut SEnv) -> (r: Result<(), CriticalError>)
    ensures
        one_send(old(env), final(env), event.tags@, priority) && (r is Ok <==> accepted(old(env), final(env))), // OBL:C01.Watchexec_send_event.queues_exactly_the_given_event
        final(env).nowait_sends == old(env).nowait_sends, // OBL:C01.Watchexec_send_event.waits_for_room_never_drops_on_a_full_queue
        final(env).errs == old(env).errs,
//@ end
