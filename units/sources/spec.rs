// spec for unit `sources` (C01: every producer puts into the queue exactly the event it observed, once)
pub open spec fn signal_priority(sig: Signal) -> Priority { if sig == Signal::Interrupt || sig == Signal::Terminate { Priority::Urgent } else { Priority::High } }
pub open spec fn signal_tags(sig: Signal) -> Seq<Tag> {
    seq![Tag::Source(if sig == Signal::Interrupt { Source::Keyboard } else { Source::Os }), Tag::Signal(sig)]
}
pub open spec fn keyboard_tags(k: Keyboard) -> Seq<Tag> { seq![Tag::Source(Source::Keyboard), Tag::Keyboard(k)] }
pub open spec fn path_tag(p: PathS) -> Tag { Tag::Path { path: normalized(p), file_type: fs_file_type(p) } }
pub open spec fn fs_tags(nev: NotifyEvent) -> Seq<Tag> {
    seq![Tag::Source(Source::Filesystem), Tag::FileEventKind(nev.kind)] + nev.paths@.map_values(|p: PathS| path_tag(p))
        + (if nev.attrs.pid is Some { seq![Tag::Process(nev.attrs.pid->Some_0)] } else { Seq::<Tag>::empty() })
}
// exactly one attempt to queue (tags, prio); queued iff the channel accepted it
pub open spec fn accepted(pre: &SEnv, post: &SEnv) -> bool { post.sent@.len() == pre.sent@.len() + 1 }
pub open spec fn one_send(pre: &SEnv, post: &SEnv, tags: Seq<Tag>, prio: Priority) -> bool {
    post.attempts@ == pre.attempts@ + 1
    && (accepted(pre, post) ==> post.sent@.last().0 =~= tags && post.sent@.last().1 == prio && post.sent@.drop_last() =~= pre.sent@)
    && (!accepted(pre, post) ==> post.sent == pre.sent)
}
