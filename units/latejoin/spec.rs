// spec for unit `latejoin` (C08)
