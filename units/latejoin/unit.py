# unit `latejoin`: crates/lib/src/late_join_set.rs — serves C08 (abort: dropping the set aborts every job task; graceful: join_all waits for all)
F = "crates/lib/src/late_join_set.rs"
UNIT = dict(
    name="latejoin",
    prelude=["latejoin_env.rs"],
    spec=["spec.rs"],
    rules=dict(
        env_methods=["next", "vx_abort_each", "join_next", "abort_all"],
        subst=[("FuturesUnordered<JoinHandle<()>>", "BagS"), ("JoinHandle<()>", "JoinHandle"), ("impl Future<Output = ()> + Send + 'static", "TaskS")],
        pre_subst=[("self.tasks.iter().for_each(JoinHandle::abort);", "self.tasks.vx_abort_each();")],
    ),
    extract=[
        dict(id="LateJoinSet", kind="type", src=F, name="LateJoinSet"),
        dict(id="LateJoinSet::spawn", kind="fn", src=F, impl="impl LateJoinSet", name="spawn"),
        dict(id="LateJoinSet::insert", kind="fn", src=F, impl="impl LateJoinSet", name="insert"),
        dict(id="LateJoinSet::join_next", kind="fn", src=F, impl="impl LateJoinSet", name="join_next"),
        dict(id="LateJoinSet::join_all", kind="fn", src=F, impl="impl LateJoinSet", name="join_all"),
        dict(id="LateJoinSet::abort_all", kind="fn", src=F, impl="impl LateJoinSet", name="abort_all"),
        dict(id="LateJoinSet::drop", kind="fn", src=F, impl="impl Drop for LateJoinSet", name="drop", emit_impl="impl LateJoinSet"),
    ],
)
