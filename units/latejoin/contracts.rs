// Contract overlay for unit `latejoin`
//@ item LateJoinSet
//@ item LateJoinSet::insert
//@ header
    pub fn insert(&mut self, task: JoinHandle)
        ensures final(self).tasks.s@ == old(self).tasks.s@.insert(task.t), // OBL:C08.late_join_set.holds_every_inserted_task
//@ item LateJoinSet::spawn
//@ header
    pub fn spawn(&mut self, task: TaskS)
        ensures final(self).tasks.s@ == old(self).tasks.s@.insert(task.t), // OBL:C08.late_join_set.holds_every_inserted_task
//@ item LateJoinSet::join_next
//@ header
    pub fn join_next(&mut self, env: &mut JEnv) -> (r: Option<Result<(), JoinError>>)
        ensures final(env).aborted == old(env).aborted,
            r is None ==> old(self).tasks.s@ =~= Set::<int>::empty() && final(self).tasks.s@ == old(self).tasks.s@ && final(env).joined == old(env).joined,
            r is Some ==> exists|t: int| #[trigger] old(self).tasks.s@.contains(t) && final(self).tasks.s@ == old(self).tasks.s@.remove(t) && final(env).joined@ == old(env).joined@.insert(t),
//@ item LateJoinSet::join_all
//@ header
    #[verifier::exec_allows_no_decreases_clause]
    pub fn join_all(&mut self, env: &mut JEnv)
        ensures
            // returns only when every task that was in the set has ended; the set is empty afterwards
            forall|t: int| old(self).tasks.s@.contains(t) ==> final(env).joined@.contains(t), // OBL:C08.late_join_set.join_all_waits_for_every_task
            final(self).tasks.s@ =~= Set::<int>::empty(), final(env).aborted == old(env).aborted,
//@ loop 0
invariant
    env.aborted == old(env).aborted,
    forall|t: int| old(self).tasks.s@.contains(t) ==> env.joined@.contains(t) || self.tasks.s@.contains(t), // OBL:C08.late_join_set.join_all_waits_for_every_task
//@ item LateJoinSet::abort_all
//@ header
    pub fn abort_all(&self, env: &mut JEnv)
        ensures final(env).aborted@ == old(env).aborted@.union(self.tasks.s@), final(env).joined == old(env).joined, // OBL:C08.late_join_set.abort_all_aborts_every_task
//@ item LateJoinSet::drop
//@ header
    pub fn drop(&mut self, env: &mut JEnv)
        ensures
            // dropping the set aborts every task still in it (an abort quit drops the job-task set: kill_on_drop then kills the children)
            forall|t: int| old(self).tasks.s@.contains(t) ==> final(env).aborted@.contains(t), // OBL:C08.late_join_set.drop_aborts_every_task
//@ end
