// Contract overlay for unit `fswatch` (C13)
//@ item Watcher
//@ item WatchedPath
//@ item WatchedPath::recursive
//@ header
    pub fn recursive(path: PathS) -> (r: WatchedPath)
        ensures r.path == path && r.recursive, // OBL:C13+C01.watched_path.constructors_record_the_mode_asked_for
//@ item WatchedPath::non_recursive
//@ header
    pub fn non_recursive(path: PathS) -> (r: WatchedPath)
        ensures r.path == path && !r.recursive, // OBL:C13+C01.watched_path.constructors_record_the_mode_asked_for
//@ item WatchedPath::from_pathbuf
//@ header
    // a bare path means a recursive watch
    pub fn from(path: PathS) -> (r: WatchedPath)
        ensures r.path == path && r.recursive, // OBL:C13+C01.watched_path.constructors_record_the_mode_asked_for
//@ item WatchedPath::from_str
//@ header
    pub fn from_str(path: PathS) -> (r: WatchedPath)
        ensures r.path == path && r.recursive, // OBL:C13+C01.watched_path.constructors_record_the_mode_asked_for
//@ item WatchedPath::from_string
//@ header
    pub fn from_string(path: PathS) -> (r: WatchedPath)
        ensures r.path == path && r.recursive, // OBL:C13+C01.watched_path.constructors_record_the_mode_asked_for
//@ item WatchedPath::from_path
//@ header
    pub fn from_path(path: PathS) -> (r: WatchedPath)
        ensures r.path == path && r.recursive, // OBL:C13+C01.watched_path.constructors_record_the_mode_asked_for
//@ item Watcher::create
//@ header
    pub fn create(self, f: Callback) -> (r: CreateRes)
        // the watcher created is of the kind asked for (the recommended back end, or the poll back end with the configured interval) and starts empty
        ensures r.r is Ok ==> r.r->Ok_0.kind == self && r.r->Ok_0.registered@ =~= Map::<PathS, bool>::empty(), // OBL:C13+C01.watcher_create.creates_the_configured_kind
//@ prologue
    CreateRes { r:
//@ epilogue
    }
//@ item notify_multi_path_errors
//@ header
#[verifier::exec_allows_no_decreases_clause]
#[verifier::loop_isolation(false)]
pub fn notify_multi_path_errors(kind: Watcher, watched_path: WatchedPath, mut err: NotifyError, rm: bool) -> (r: Vec<RuntimeError>)
    ensures
        // one runtime error per path the notify error names (the configured path if it names none), each naming that path and the operation
        r@.len() == (if n_paths(err) == 0 { 1nat } else { n_paths(err) }), // OBL:C13+C15.notify_multi_path_errors.one_error_per_named_path
        forall|i: int| 0 <= i < r@.len() ==> err_names(#[trigger] r@[i], kind, (if n_paths(err) == 0 { watched_path.path } else { err.paths@[i] }), rm), // OBL:C13+C15.notify_multi_path_errors.one_error_per_named_path
//@ prologue
    let ghost e0 = err;
//@ loop 0
let ghost ps = vx_it0.v@;
invariant
    0 <= vx_it0.pos@ <= vx_it0.v@.len(), vx_it0.v@ == ps,
    ps == (if n_paths(e0) == 0 { seq![watched_path.path] } else { e0.paths@ }), // OBL:C13+C15.notify_multi_path_errors.one_error_per_named_path
    errs@.len() == vx_it0.pos@,
    err is Some ==> err->Some_0.paths@.len() == 0,
    forall|i: int| 0 <= i < errs@.len() ==> err_names(#[trigger] errs@[i], kind, ps[i], rm), // OBL:C13+C15.notify_multi_path_errors.one_error_per_named_path
//@ item fs::worker
//@ header
#[verifier::exec_allows_no_decreases_clause]
#[verifier::loop_isolation(false)]
#[verifier::allow_complex_invariants]
pub fn fs_worker(config: &Config, errors: ErrTx, events: EvTx, env: &mut FEnv) -> (r: Result<(), CriticalError>)
    requires old(env).round@ == 0, old(env).err_due@ == old(env).err_sent@,
    ensures
        // the worker only ever ends because the error channel is closed or a watcher cannot be created (both critical)
        r is Err, // OBL:C13+C15.fs_worker.registration_errors_never_end_the_worker
//@ prologue
    let ghost mut p0: Set<WatchedPath> = Set::empty();      // the worker's record when the diff was computed
    let ghost mut cfg: Seq<WatchedPath> = Seq::empty();     // the configuration this iteration applies
    let ghost mut kind0: Watcher = Watcher::Native;
    let ghost mut round0: nat = 0;
//@ loop 0
invariant
    mirror(watcher, pathset.v@, watcher_type), // OBL:C13+C01.fs_worker.inv_pathset_mirrors_the_active_watcher
    env.round@ > 0 ==> after_round(env, watcher), // OBL:C13+C01.fs_worker.inv_registration_converges_to_the_configuration
    env.err_sent@ == env.err_due@, // OBL:C13+C15.fs_worker.inv_each_failed_registration_reported_once_per_path
//@ loop 1
invariant
    0 <= vx_it0.pos@ <= vx_it0.v@.len(),
    forall|i: int| 0 <= i < vx_it0.v@.len() ==> pathset.v@.contains(*(#[trigger] vx_it0.v@[i])),
    forall|x: WatchedPath| #[trigger] pathset.v@.contains(x) ==> 0 <= vx_idx(vx_it0.v@, x) < vx_it0.v@.len() && *vx_it0.v@[vx_idx(vx_it0.v@, x)] == x,
    forall|j: int| 0 <= j < to_drop@.len() ==> pathset.v@.contains(#[trigger] to_drop@[j]) && !config_pathset@.contains(to_drop@[j]), // OBL:C13+C01.fs_worker.diff_names_exactly_the_stale_and_the_missing_paths
    forall|i: int| 0 <= i < vx_it0.pos@ && !config_pathset@.contains(*(#[trigger] vx_it0.v@[i])) ==> to_drop@.contains(*vx_it0.v@[i]), // OBL:C13+C01.fs_worker.diff_names_exactly_the_stale_and_the_missing_paths
ensures
    vx_it0.pos@ == vx_it0.v@.len(),
body_start:
let ghost td0 = to_drop@;
proof { assert(*vx_it0.v@[vx_it0.pos@ - 1] == *path); }
body_end:
proof { lemma_push_contains(td0, *path); }
after:
proof {
    assert forall|x: WatchedPath| #[trigger] pathset.v@.contains(x) && !config_pathset@.contains(x) implies to_drop@.contains(x) by { // OBL:C13+C01.fs_worker.diff_names_exactly_the_stale_and_the_missing_paths
        let i = vx_idx(vx_it0.v@, x);
        assert(*vx_it0.v@[i] == x);
    }
}
//@ loop 2
invariant
    0 <= vx_it1.pos@ <= vx_it1.v@.len(), vx_it1.v@ == env.cfg_paths@,
    forall|j: int| 0 <= j < to_watch@.len() ==> vx_it1.v@.contains(#[trigger] to_watch@[j]), // OBL:C13+C01.fs_worker.diff_names_exactly_the_stale_and_the_missing_paths
    forall|i: int| 0 <= i < vx_it1.pos@ && !pathset.v@.contains(#[trigger] vx_it1.v@[i]) ==> to_watch@.contains(vx_it1.v@[i]), // OBL:C13+C01.fs_worker.diff_names_exactly_the_stale_and_the_missing_paths
    // ... and ONLY the missing ones: a path already on record is never registered again (with the poll watcher a second watch() resets the snapshot and loses changes)
    forall|j: int| 0 <= j < to_watch@.len() ==> !pathset.v@.contains(#[trigger] to_watch@[j]), // OBL:C13+C01.fs_worker.a_path_on_record_is_not_registered_again
ensures
    vx_it1.pos@ == vx_it1.v@.len(),
body_start:
let ghost tw0 = to_watch@; let ghost x2 = path;
proof { assert(vx_it1.v@[vx_it1.pos@ - 1] == path); }
body_end:
proof { lemma_push_contains(tw0, x2); }
after:
proof {
    assert forall|x: WatchedPath| #[trigger] env.cfg_paths@.contains(x) && !pathset.v@.contains(x) implies to_watch@.contains(x) by { // OBL:C13+C01.fs_worker.diff_names_exactly_the_stale_and_the_missing_paths
        let i = choose|i: int| 0 <= i < env.cfg_paths@.len() && env.cfg_paths@[i] == x;
        assert(vx_it1.v@[i] == x);
    }
}
//@ loop 3
proof {
    p0 = pathset.v@; cfg = env.cfg_paths@; kind0 = env.cfg_kind@; round0 = env.round@;
    lemma_mirror_unique_paths(*watcher, p0, watcher_type);
}
let ghost td = vx_it2.v@;
proof {
    // the diff just computed: to_watch = configured but not on record, to_drop = on record but not configured
    assert forall|j: int| 0 <= j < to_watch@.len() implies cfg.contains(#[trigger] to_watch@[j]) by { // OBL:C13+C01.fs_worker.diff_names_exactly_the_stale_and_the_missing_paths
        if p0 =~= Set::<WatchedPath>::empty() { assert(cfg[j] == to_watch@[j]); }
    }
    assert(forall|x: WatchedPath| #[trigger] cfg.contains(x) && !p0.contains(x) ==> to_watch@.contains(x)); // OBL:C13+C01.fs_worker.diff_names_exactly_the_stale_and_the_missing_paths
    assert(forall|j: int| 0 <= j < to_watch@.len() ==> !p0.contains(#[trigger] to_watch@[j])); // OBL:C13+C01.fs_worker.a_path_on_record_is_not_registered_again
    assert(forall|j: int| 0 <= j < td.len() ==> p0.contains(#[trigger] td[j]) && !cfg.contains(td[j])); // OBL:C13+C01.fs_worker.diff_names_exactly_the_stale_and_the_missing_paths
    assert(forall|x: WatchedPath| #[trigger] p0.contains(x) && !cfg.contains(x) ==> td.contains(x)); // OBL:C13+C01.fs_worker.diff_names_exactly_the_stale_and_the_missing_paths
}
invariant
    0 <= vx_it2.pos@ <= vx_it2.v@.len(), vx_it2.v@ == td,
    env.cfg_paths@ == cfg, env.cfg_kind@ == kind0, env.round@ == round0,
    env.err_sent@ == env.err_due@, // OBL:C13+C15.fs_worker.inv_each_failed_registration_reported_once_per_path
    watcher.kind == kind0, watcher_type == kind0, // OBL:C13+C01.fs_worker.the_active_watcher_is_of_the_configured_kind
    mirror(Some(*watcher), pathset.v@, watcher_type), // OBL:C13+C01.fs_worker.inv_pathset_mirrors_the_active_watcher
    forall|x: WatchedPath| pathset.v@.contains(x) ==> p0.contains(x), // OBL:C13+C01.fs_worker.inv_registration_converges_to_the_configuration
    forall|x: WatchedPath| p0.contains(x) && !vx_it2.v@.contains(x) ==> pathset.v@.contains(x), // OBL:C13+C01.fs_worker.inv_registration_converges_to_the_configuration
    env.fails@ == 0 ==> forall|j: int| 0 <= j < vx_it2.pos@ ==> !pathset.v@.contains(#[trigger] vx_it2.v@[j]), // OBL:C13+C01.fs_worker.inv_registration_converges_to_the_configuration
ensures
    vx_it2.pos@ == vx_it2.v@.len(),
body_start:
let ghost w0 = *watcher; let ghost ps0 = pathset.v@; let ghost f0 = env.fails@; let ghost x3 = path;
proof { assert(vx_it2.v@[vx_it2.pos@ - 1] == path); }
body_end:
proof {
    if env.fails@ == f0 {
        // the unwatch succeeded
        assert(p0.contains(x3));
        assert(forall|y: WatchedPath| ps0.contains(y) ==> p0.contains(y));
        lemma_mirror_unwatch(w0, *watcher, ps0, pathset.v@, watcher_type, x3);
    }
}
after:
proof {
    if env.fails@ == 0 {
        assert forall|x: WatchedPath| #[trigger] pathset.v@.contains(x) implies cfg.contains(x) by { // OBL:C13+C01.fs_worker.inv_registration_converges_to_the_configuration
            if !cfg.contains(x) {
                assert(p0.contains(x));
                assert(td.contains(x));
                let j = choose|j: int| 0 <= j < td.len() && td[j] == x;
                assert(!pathset.v@.contains(vx_it2.v@[j]));
            }
        }
        assert forall|x: WatchedPath| #[trigger] cfg.contains(x) implies pathset.v@.contains(x) || to_watch@.contains(x) by { // OBL:C13+C01.fs_worker.inv_registration_converges_to_the_configuration
            if p0.contains(x) && td.contains(x) {
                let j = choose|j: int| 0 <= j < td.len() && td[j] == x;
                assert(!cfg.contains(td[j]));
            }
        }
    }
}
//@ loop 4
let ghost n3 = vx_it3.v@.len(); let ghost fl3 = env.fails@;
invariant
    0 <= vx_it3.pos@ <= vx_it3.v@.len(), vx_it3.v@.len() == n3, env.fails@ == fl3,
    env.cfg_paths@ == cfg, env.cfg_kind@ == kind0, env.round@ == round0, env.fails@ > 0,
    env.err_sent@ + (vx_it3.v@.len() - vx_it3.pos@) == env.err_due@, // OBL:C13+C15.fs_worker.inv_each_failed_registration_reported_once_per_path
ensures
    vx_it3.pos@ == vx_it3.v@.len(),
//@ loop 5
let ghost tw = vx_it4.v@;
invariant
    0 <= vx_it4.pos@ <= vx_it4.v@.len(), vx_it4.v@ == tw,
    env.cfg_paths@ == cfg, env.cfg_kind@ == kind0, env.round@ == round0,
    env.err_sent@ == env.err_due@, // OBL:C13+C15.fs_worker.inv_each_failed_registration_reported_once_per_path
    watcher.kind == kind0, watcher_type == kind0, // OBL:C13+C01.fs_worker.the_active_watcher_is_of_the_configured_kind
    mirror(Some(*watcher), pathset.v@, watcher_type), // OBL:C13+C01.fs_worker.inv_pathset_mirrors_the_active_watcher
    distinct_paths(cfg),
    forall|j: int| 0 <= j < tw.len() ==> cfg.contains(#[trigger] tw[j]), // OBL:C13+C01.fs_worker.inv_registration_converges_to_the_configuration
    env.fails@ == 0 ==> forall|x: WatchedPath| pathset.v@.contains(x) ==> cfg.contains(x), // OBL:C13+C01.fs_worker.inv_registration_converges_to_the_configuration
    env.fails@ == 0 ==> forall|x: WatchedPath| cfg.contains(x) ==> pathset.v@.contains(x) || vx_it4.v@.contains(x), // OBL:C13+C01.fs_worker.inv_registration_converges_to_the_configuration
    env.fails@ == 0 ==> forall|j: int| 0 <= j < vx_it4.pos@ ==> pathset.v@.contains(#[trigger] vx_it4.v@[j]), // OBL:C13+C01.fs_worker.inv_registration_converges_to_the_configuration
ensures
    vx_it4.pos@ == vx_it4.v@.len(),
body_start:
let ghost w0 = *watcher; let ghost ps0 = pathset.v@; let ghost f0 = env.fails@; let ghost x5 = path;
proof { assert(vx_it4.v@[vx_it4.pos@ - 1] == path); }
body_end:
proof {
    if env.fails@ == f0 {
        // the watch succeeded
        lemma_mirror_watch(w0, *watcher, ps0, pathset.v@, watcher_type, x5);
        lemma_watch_step(cfg, ps0, pathset.v@, vx_it4.v@, vx_it4.pos@ - 1, x5, f0 == 0);
    }
}
after:
proof { lemma_converged(*watcher, pathset.v@, cfg, vx_it4.v@, kind0, env.fails@ == 0); } // OBL:C13+C01.fs_worker.inv_registration_converges_to_the_configuration
//@ loop 6
let ghost n5 = vx_it5.v@.len(); let ghost fl5 = env.fails@;
invariant
    0 <= vx_it5.pos@ <= vx_it5.v@.len(), vx_it5.v@.len() == n5, env.fails@ == fl5,
    env.cfg_paths@ == cfg, env.cfg_kind@ == kind0, env.round@ == round0, env.fails@ > 0,
    env.err_sent@ + (vx_it5.v@.len() - vx_it5.pos@) == env.err_due@, // OBL:C13+C15.fs_worker.inv_each_failed_registration_reported_once_per_path
ensures
    vx_it5.pos@ == vx_it5.v@.len(),
//@ end
