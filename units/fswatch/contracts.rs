// Contract overlay for unit `fswatch` (C13)
//@ item Watcher
//@ item WatchedPath
//@ item fs::worker
//@ header
#[verifier::exec_allows_no_decreases_clause]
#[verifier::loop_isolation(false)]
pub fn fs_worker(config: &Config, errors: ErrTx, events: EvTx, env: &mut FEnv) -> (r: Result<(), CriticalError>)
    requires old(env).round@ == 0, old(env).err_due@ == old(env).err_sent@,
    ensures
        // the worker only ever ends because the error channel is closed or a watcher cannot be created (both critical)
        r is Err, // OBL:C13+C15.fs_worker.registration_errors_never_end_the_worker
//@ loop 0
invariant
    mirror(watcher, pathset.v@, watcher_type), // OBL:C13.fs_worker.inv_pathset_mirrors_the_active_watcher
    env.round@ > 0 ==> after_round(env, watcher), // OBL:C13.fs_worker.inv_registration_converges_to_the_configuration
    env.err_sent@ == env.err_due@, // OBL:C13+C15.fs_worker.inv_each_failed_registration_reported_once_per_path
//@ end
