// spec for unit `fswatch` (C13), from the property statement
// the worker's own record mirrors what is registered with the active watcher
pub open spec fn mirror(w: Option<WatcherS>, pathset: Set<WatchedPath>, kind: Watcher) -> bool {
    match w {
        None => pathset =~= Set::<WatchedPath>::empty(),
        Some(ws) => ws.kind == kind
            && (forall|x: WatchedPath| pathset.contains(x) ==> #[trigger] ws.registered@.contains_key(x.path) && ws.registered@[x.path] == x.recursive)
            && (forall|p: PathS| #[trigger] ws.registered@.contains_key(p) ==> pathset.contains(WatchedPath { path: p, recursive: ws.registered@[p] })),
    }
}
// "the set of paths registered with the active filesystem watcher equals the configured path set with the configured recursion mode and
// watcher kind, and an empty set releases the watcher"
pub open spec fn converged(w: Option<WatcherS>, cfg: Seq<WatchedPath>, kind: Watcher) -> bool {
    if cfg.len() == 0 { w is None }
    else {
        w is Some && w->Some_0.kind == kind
        && (forall|i: int| 0 <= i < cfg.len() ==> w->Some_0.registered@.contains_key((#[trigger] cfg[i]).path) && w->Some_0.registered@[cfg[i].path] == cfg[i].recursive)
        && (forall|p: PathS| #[trigger] w->Some_0.registered@.contains_key(p) ==> cfg.contains(WatchedPath { path: p, recursive: w->Some_0.registered@[p] }))
    }
}
// what holds after an iteration that read the configuration (cfg, kind): if nothing failed, the watcher state has converged to it;
// in any case an empty configuration has released the watcher, a non-empty one has a live watcher of the configured kind
pub open spec fn after_round(env: &FEnv, w: Option<WatcherS>) -> bool {
    (env.cfg_paths@.len() == 0 ==> w is None)
    && (env.cfg_paths@.len() > 0 ==> w is Some && w->Some_0.kind == env.cfg_kind@)
    && (env.fails@ == 0 ==> converged(w, env.cfg_paths@, env.cfg_kind@))
}
