// spec for unit `fswatch` (C13), from the property statement
// the worker's own record mirrors what is registered with the active watcher
pub open spec fn mirror(w: Option<WatcherS>, pathset: Set<WatchedPath>, kind: Watcher) -> bool {
    match w {
        None => pathset =~= Set::<WatchedPath>::empty(),
        Some(ws) => ws.kind == kind
            && (forall|x: WatchedPath| #[trigger] pathset.contains(x) ==> ws.registered@.contains_key(x.path) && ws.registered@[x.path] == x.recursive)
            && (forall|p: PathS| #[trigger] ws.registered@.contains_key(p) ==> pathset.contains(WatchedPath { path: p, recursive: ws.registered@[p] })),
    }
}
// "the set of paths registered with the active filesystem watcher equals the configured path set with the configured recursion mode and
// watcher kind, and an empty set releases the watcher"
pub open spec fn converged(w: Option<WatcherS>, cfg: Seq<WatchedPath>, kind: Watcher) -> bool {
    if cfg.len() == 0 { w is None }
    else {
        w is Some && w->Some_0.kind == kind
        && (forall|i: int| 0 <= i < cfg.len() ==> w->Some_0.registered@.contains_key((#[trigger] cfg[i]).path) && w->Some_0.registered@[cfg[i].path] == cfg[i].recursive)
        && (forall|p: PathS| #[trigger] w->Some_0.registered@.contains_key(p) ==> cfg.contains(WatchedPath { path: p, recursive: w->Some_0.registered@[p] }))
    }
}
// what holds after an iteration that read the configuration (cfg, kind): if nothing failed, the watcher state has converged to it;
// in any case an empty configuration has released the watcher, a non-empty one has a live watcher of the configured kind
pub open spec fn after_round(env: &FEnv, w: Option<WatcherS>) -> bool {
    (env.cfg_paths@.len() == 0 ==> w is None)
    && (env.cfg_paths@.len() > 0 ==> w is Some && w->Some_0.kind == env.cfg_kind@)
    && (env.fails@ == 0 ==> converged(w, env.cfg_paths@, env.cfg_kind@))
}
// a record that mirrors a watcher names each path once
pub proof fn lemma_mirror_unique_paths(w: WatcherS, pathset: Set<WatchedPath>, kind: Watcher)
    requires mirror(Some(w), pathset, kind),
    ensures forall|x: WatchedPath, y: WatchedPath| pathset.contains(x) && pathset.contains(y) && x.path == y.path ==> x == y,
{
    assert forall|x: WatchedPath, y: WatchedPath| pathset.contains(x) && pathset.contains(y) && x.path == y.path implies x == y by {
        assert(w.registered@.contains_key(x.path) && w.registered@[x.path] == x.recursive);
        assert(w.registered@.contains_key(y.path) && w.registered@[y.path] == y.recursive);
    }
}
// the record mirrors the watcher; if nothing failed it equals the configuration: then the watcher has converged to the configuration
pub proof fn lemma_converged(w: WatcherS, pathset: Set<WatchedPath>, cfg: Seq<WatchedPath>, added: Seq<WatchedPath>, kind: Watcher, clean: bool)
    requires mirror(Some(w), pathset, kind), cfg.len() > 0,
        clean ==> forall|x: WatchedPath| pathset.contains(x) ==> cfg.contains(x),
        clean ==> forall|x: WatchedPath| cfg.contains(x) ==> pathset.contains(x) || added.contains(x),
        clean ==> forall|j: int| 0 <= j < added.len() ==> pathset.contains(#[trigger] added[j]),
    ensures clean ==> converged(Some(w), cfg, kind),
{
    if clean {
        assert forall|i: int| 0 <= i < cfg.len() implies w.registered@.contains_key((#[trigger] cfg[i]).path) && w.registered@[cfg[i].path] == cfg[i].recursive by {
            assert(cfg.contains(cfg[i]));
            assert(pathset.contains(cfg[i]));
        }
        assert forall|p: PathS| #[trigger] w.registered@.contains_key(p) implies cfg.contains(WatchedPath { path: p, recursive: w.registered@[p] }) by {
            assert(pathset.contains(WatchedPath { path: p, recursive: w.registered@[p] }));
        }
    }
}
pub proof fn lemma_push_contains<T>(s: Seq<T>, v: T)
    ensures s.push(v).contains(v), forall|x: T| s.contains(x) ==> #[trigger] s.push(v).contains(x),
{
    assert(s.push(v)[s.len() as int] == v);
    assert forall|x: T| s.contains(x) implies #[trigger] s.push(v).contains(x) by {
        let i = choose|i: int| 0 <= i < s.len() && s[i] == x;
        assert(s.push(v)[i] == x);
    }
}
pub open spec fn other_mode(x: WatchedPath) -> WatchedPath { WatchedPath { path: x.path, recursive: !x.recursive } }
// a successful unwatch of a recorded path, removed from the record, keeps the record a mirror
pub proof fn lemma_mirror_unwatch(w0: WatcherS, w1: WatcherS, ps0: Set<WatchedPath>, ps1: Set<WatchedPath>, kind: Watcher, x: WatchedPath)
    requires mirror(Some(w0), ps0, kind), w1.kind == w0.kind, w1.registered@ == w0.registered@.remove(x.path), // OBL:C13+C01.fs_worker.inv_pathset_mirrors_the_active_watcher
        ps1 =~= ps0.remove(x), // OBL:C13+C01.fs_worker.inv_pathset_mirrors_the_active_watcher
        forall|y: WatchedPath| ps0.contains(y) && y.path == x.path ==> y == x, // OBL:C13+C01.fs_worker.inv_pathset_mirrors_the_active_watcher
    ensures mirror(Some(w1), ps1, kind),
{
    assert forall|p: PathS| #[trigger] w1.registered@.contains_key(p) implies ps1.contains(WatchedPath { path: p, recursive: w1.registered@[p] }) by {
        assert(w0.registered@.contains_key(p));
    }
}
// a successful watch replaces the registration of that path: with the other-mode record dropped and the new one added, the record stays a mirror
pub proof fn lemma_mirror_watch(w0: WatcherS, w1: WatcherS, ps0: Set<WatchedPath>, ps1: Set<WatchedPath>, kind: Watcher, x: WatchedPath)
    requires mirror(Some(w0), ps0, kind), w1.kind == w0.kind, w1.registered@ == w0.registered@.insert(x.path, x.recursive), // OBL:C13+C01.fs_worker.inv_pathset_mirrors_the_active_watcher
        ps1 =~= ps0.remove(other_mode(x)).insert(x), // OBL:C13+C01.fs_worker.inv_pathset_mirrors_the_active_watcher
    ensures mirror(Some(w1), ps1, kind),
{
    assert forall|y: WatchedPath| #[trigger] ps1.contains(y) implies w1.registered@.contains_key(y.path) && w1.registered@[y.path] == y.recursive by {
        if y != x { assert(ps0.contains(y)); assert(y != other_mode(x)); }
    }
    assert forall|p: PathS| #[trigger] w1.registered@.contains_key(p) implies ps1.contains(WatchedPath { path: p, recursive: w1.registered@[p] }) by {
        if p != x.path { assert(w0.registered@.contains_key(p)); }
    }
}
pub proof fn lemma_distinct(cfg: Seq<WatchedPath>, x: WatchedPath, y: WatchedPath)
    requires distinct_paths(cfg), cfg.contains(x), cfg.contains(y), x.path == y.path,
    ensures x == y,
{
    let i = choose|i: int| 0 <= i < cfg.len() && cfg[i] == x;
    let j = choose|j: int| 0 <= j < cfg.len() && cfg[j] == y;
    if i < j { assert(cfg[i].path != cfg[j].path); } else if j < i { assert(cfg[j].path != cfg[i].path); }
}
// one successful registration step of the to_watch loop keeps "record == configuration so far" (only claimed while nothing has failed)
pub proof fn lemma_watch_step(cfg: Seq<WatchedPath>, ps0: Set<WatchedPath>, ps1: Set<WatchedPath>, v: Seq<WatchedPath>, pos: int, x: WatchedPath, clean: bool)
    requires distinct_paths(cfg), 0 <= pos < v.len(), v[pos] == x,
        forall|j: int| 0 <= j < v.len() ==> cfg.contains(#[trigger] v[j]),
        ps1 =~= ps0.remove(other_mode(x)).insert(x), // OBL:C13+C01.fs_worker.inv_registration_converges_to_the_configuration
        clean ==> forall|y: WatchedPath| ps0.contains(y) ==> cfg.contains(y),
        clean ==> forall|y: WatchedPath| cfg.contains(y) ==> ps0.contains(y) || v.contains(y),
        clean ==> forall|j: int| 0 <= j < pos ==> ps0.contains(#[trigger] v[j]),
    ensures
        clean ==> forall|y: WatchedPath| ps1.contains(y) ==> cfg.contains(y),
        clean ==> forall|y: WatchedPath| cfg.contains(y) ==> ps1.contains(y) || v.contains(y),
        clean ==> forall|j: int| 0 <= j < pos + 1 ==> ps1.contains(#[trigger] v[j]),
{
    if clean {
        assert(cfg.contains(v[pos]));
        assert forall|y: WatchedPath| cfg.contains(y) implies ps1.contains(y) || v.contains(y) by {
            if ps0.contains(y) && y == other_mode(x) { lemma_distinct(cfg, x, y); }
        }
        assert forall|j: int| 0 <= j < pos + 1 implies ps1.contains(#[trigger] v[j]) by {
            if j < pos { assert(cfg.contains(v[j])); if v[j] == other_mode(x) { lemma_distinct(cfg, x, v[j]); } }
        }
    }
}
pub open spec fn err_names(e: RuntimeError, kind: Watcher, p: PathS, rm: bool) -> bool {
    e is FsWatcher && e->FsWatcher_kind == kind
    && (rm ==> e->FsWatcher_err is PathRemove && e->FsWatcher_err->PathRemove_path == p)
    && (!rm ==> e->FsWatcher_err is PathAdd && e->FsWatcher_err->PathAdd_path == p)
}
