# unit `fswatch`: crates/lib/src/sources/fs.rs::worker — serves C13 (and C15: registration errors)
F = "crates/lib/src/sources/fs.rs"
CLOSURE_ANCHOR = ".create(move |nev: Result<notify::Event, notify::Error>|"
UNIT = dict(
    name="fswatch",
    prelude=["fswatch_env.rs"],
    spec=["spec.rs"],
    rules=dict(
        env_methods=["next", "get", "send", "try_send", "watch", "unwatch"],
        question=True,
        subst=[("PathBuf", "PathS"), ("HashSet::new()", "PathSetS::new()"), ("notify::RecursiveMode::", "RecursiveMode::")],
    ),
    extract=[
        dict(id="Watcher", kind="type", src=F, name="Watcher", structural=True),
        dict(id="WatchedPath", kind="type", src="crates/lib/src/watched_path.rs", name="WatchedPath", structural=True, add_derive=["Copy"]),
        dict(id="WatchedPath::recursive", kind="fn", src="crates/lib/src/watched_path.rs", impl="impl WatchedPath", name="recursive", rules=dict(pre_subst=[("path.into()", "path")])),
        dict(id="WatchedPath::non_recursive", kind="fn", src="crates/lib/src/watched_path.rs", impl="impl WatchedPath", name="non_recursive", rules=dict(pre_subst=[("path.into()", "path")])),
        dict(id="WatchedPath::from_pathbuf", kind="fn", src="crates/lib/src/watched_path.rs", impl="impl From<PathBuf> for WatchedPath", name="from", emit_impl="impl WatchedPath"),
        dict(id="WatchedPath::from_str", kind="fn", src="crates/lib/src/watched_path.rs", impl="impl From<&str> for WatchedPath", name="from", emit_impl="impl WatchedPath", rules=dict(pre_subst=[("path.into()", "path")])),
        dict(id="WatchedPath::from_string", kind="fn", src="crates/lib/src/watched_path.rs", impl="impl From<String> for WatchedPath", name="from", emit_impl="impl WatchedPath", rules=dict(pre_subst=[("path.into()", "path")])),
        dict(id="WatchedPath::from_path", kind="fn", src="crates/lib/src/watched_path.rs", impl="impl From<&Path> for WatchedPath", name="from", emit_impl="impl WatchedPath", rules=dict(pre_subst=[("path.into()", "path")])),
        dict(id="Watcher::create", kind="fn", src=F, impl="impl Watcher", name="create",
             rules=dict(outline=[(".map_err(|err| CriticalError::FsWatcherInit", ".vx_init_err(self", "whole")], pre_subst=[
                 ("use notify::{Config, Watcher as _};", ""),
                 ("notify::RecommendedWatcher::new(f, Config::default())", "vx_native_watcher(f)"),
                 ("notify::PollWatcher::new(f, Config::default().with_poll_interval(delay))", "vx_poll_watcher(f, delay)"),
                 (".map(|w| Box::new(w) as _)", ""),
             ])),
        dict(id="notify_multi_path_errors", kind="fn", src=F, name="notify_multi_path_errors",
             rules=dict(for_desugar=[0], subst=[("notify::Error", "NotifyError"), ("PathBuf", "PathS")], pre_subst=[
                 ("take(&mut err.paths)", "vx_take_paths(&mut err)"),
                 ("err\n\t\t\t.take()\n\t\t\t.unwrap_or_else(|| notify::Error::generic(&generic))\n\t\t\t.add_path(path.clone())", "vx_next_error(&mut err, &generic, path)"),
             ])),
        dict(id="fs::worker", kind="fn", src=F, name="worker",
             rules=dict(for_desugar=[0, 1, 2, 3, 4, 5], pre_subst=[
                 ("path: path.path.clone(),", "path: path.path,"),
                 ("move |nev: Result<notify::Event, notify::Error>| {\n\t\t\t\t\tif let Err(e) = process_event(nev, config_watcher, &n_events) {\n\t\t\t\t\t\tn_errors.try_send(e).ok();\n\t\t\t\t\t}\n\t\t\t\t}", "vx_callback(n_errors, n_events, config_watcher)"),
                 (".map(Some)?", ".vx_map_some()?"),
                 ("for path in &pathset", "for path in pathset.vx_elems()"),
                 ('panic!("BUG: watcher should exist at this point");', "vx_unreachable();"),
                 ("to_drop.push(path.clone());", "to_drop.push(*path);"),
             ])),
    ],
)
