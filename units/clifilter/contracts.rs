// Contract overlay for unit `clifilter` (C12)
//@ item ProjectType
//@ item IgnoreFile
//@ item explicit_ignore_files
//@ header
pub fn explicit_ignore_files(args: &Args) -> (r: FilterIter)
    ensures r.v@ == explicit_files(args), // OBL:C12.explicit_ignore_files.one_entry_per_given_file_no_scope_no_vcs
//@ closure 0
|ig: &PathS| -> (vx_r: IgnoreFile) ensures vx_r == explicit_file(*ig) /* OBL:C12.explicit_ignore_files.closure_entry_shape */
//@ closure_ghost 0
Ghost(|ig: PathS| explicit_file(ig))
//@ item filterer_ignore_files
//@ header
// head of WatchexecFilterer::new: the list of ignore files handed to GlobsetFilterer::new
fn filterer_ignore_files(args: &Args, project_origin: PathS) -> (r: Result<Vec<IgnoreFile>, Report>)
    ensures
        // Explicit CLI ignore files are honoured under every mix of the six flags (no precondition on args.filtering)
        r is Ok ==> forall|x: IgnoreFile| explicit_files(args).contains(x) ==> #[trigger] r->Ok_0@.contains(x), // OBL:C12.filterer.explicit_ignore_files_reach_the_filterer_under_every_flag_mix
        // --no-discover-ignore removes all discovered files and nothing else
        r is Ok && args.filtering.no_discover_ignore ==> r->Ok_0@ == explicit_files(args), // OBL:C12.filterer.no_discover_ignore_leaves_exactly_the_explicit_files
//@ epilogue
Ok(ignore_files)
//@ item normalise_flags
//@ header
// head of FilteringArgs::normalise: --ignore-nothing is a shorthand for the five flags
fn normalise_flags(vx_self: &mut FilteringArgs)
    ensures
        old(vx_self).ignore_nothing ==> final(vx_self).no_global_ignore && final(vx_self).no_vcs_ignore && final(vx_self).no_project_ignore
            && final(vx_self).no_default_ignore && final(vx_self).no_discover_ignore, // OBL:C12.normalise.ignore_nothing_sets_the_five_flags
        !old(vx_self).ignore_nothing ==> *final(vx_self) == *old(vx_self), // OBL:C12.normalise.other_flags_untouched
        final(vx_self).ignore_files == old(vx_self).ignore_files, // OBL:C12.normalise.explicit_files_untouched
//@ item ignores_tail
//@ header
// tail of dirs::ignores (from the merge of the global files on): discovered files pass the flag filters, explicit files are appended last
fn ignores_tail(args: &Args, mut ignores: Vec<IgnoreFile>, global_ignores: Vec<IgnoreFile>, vcs_types: &[ProjectType], origin: PathS) -> (r: Result<Vec<IgnoreFile>, Report>)
    ensures
        r is Ok,
        // every file given with --ignore-file is in the result, whatever the flags
        forall|x: IgnoreFile| explicit_files(args).contains(x) ==> #[trigger] r->Ok_0@.contains(x), // OBL:C12.ignores.explicit_ignore_files_always_kept
        // a discovered file survives exactly if none of the flags names its source (and its VCS is in use, for global files)
        forall|x: IgnoreFile| ignores@.contains(x) && kept(x, args.filtering, origin) ==> #[trigger] r->Ok_0@.contains(x), // OBL:C12.ignores.flags_remove_no_other_project_source
        forall|x: IgnoreFile| global_ignores@.contains(x) && vcs_ok(x, vcs_types@) && kept(x, args.filtering, origin) ==> #[trigger] r->Ok_0@.contains(x), // OBL:C12.ignores.flags_remove_no_other_global_source
        forall|x: IgnoreFile| #[trigger] r->Ok_0@.contains(x) ==> explicit_files(args).contains(x)
            || (kept(x, args.filtering, origin) && (ignores@.contains(x) || (global_ignores@.contains(x) && vcs_ok(x, vcs_types@)))), // OBL:C12.ignores.flags_remove_exactly_the_named_sources
//@ closure 0
|ig: &IgnoreFile| -> (vx_b: bool) ensures vx_b == vcs_ok(*ig, vcs_types@) /* OBL:C12.ignores.closure_global_files_of_unused_vcs_dropped */
//@ closure_ghost 0
Ghost(|ig: IgnoreFile| vcs_ok(ig, vcs_types@))
//@ closure 1
|ig: &IgnoreFile| -> (vx_b: bool) ensures vx_b == !(ig.applies_in is Some && under(ig.applies_in->Some_0, origin)) /* OBL:C12.ignores.closure_no_project_ignore_drops_exactly_files_under_the_origin */
//@ closure_ghost 1
Ghost(|ig: IgnoreFile| !(ig.applies_in is Some && under(ig.applies_in->Some_0, origin)))
//@ closure 2
|ig: &IgnoreFile| -> (vx_b: bool) ensures vx_b == (ig.applies_in is Some) /* OBL:C12.ignores.closure_no_global_ignore_drops_exactly_files_without_directory */
//@ closure_ghost 2
Ghost(|ig: IgnoreFile| ig.applies_in is Some)
//@ closure 3
|ig: &IgnoreFile| -> (vx_b: bool) ensures vx_b == (ig.applies_to is None) /* OBL:C12.ignores.closure_no_vcs_ignore_drops_exactly_vcs_files */
//@ closure_ghost 3
Ghost(|ig: IgnoreFile| ig.applies_to is None)
//@ end
