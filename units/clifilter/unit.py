# unit `clifilter`: crates/cli — serves C12
D = "crates/cli/src/dirs.rs"
UNIT = dict(
    name="clifilter",
    prelude=["clifilter_env.rs"],
    spec=["spec.rs"],
    rules=dict(
        vec_idioms=True,
        option_unfold=True,
        subst=[("PathBuf", "PathS")],
    ),
    structural=[
        dict(id="C12.structure.ignores_returns_only_through_its_tail", file="crates/cli/src/dirs.rs", count_in_fn="ignores", pattern="return", expect=0,
             why="the verified tail of dirs::ignores (which appends the explicit files) is the function's only way to return Ok: no early return in the discovery head"),
        dict(id="C12.structure.filterer_new_reads_only_two_discovery_flags", file="crates/cli/src/filterer.rs", impl="impl WatchexecFilterer", count_in_fn="new",
             token_regex=r"no_\w+_ignore|ignore_nothing", expect=2,
             why="--ignore/--filter/--filter-file/--exts/--fs-events values reach GlobsetFilterer::new on code paths that read no discovery flag: the only flags read in WatchexecFilterer::new are no_discover_ignore (ignore files) and no_default_ignore (built-in list)"),
        dict(id="C12.structure.filterer_new_discover_flag_once", file="crates/cli/src/filterer.rs", impl="impl WatchexecFilterer", count_in_fn="new",
             pattern="args.filtering.no_discover_ignore", expect=1, why="see above"),
        dict(id="C12.structure.filterer_new_default_flag_once", file="crates/cli/src/filterer.rs", impl="impl WatchexecFilterer", count_in_fn="new",
             pattern="args.filtering.no_default_ignore", expect=1, why="--no-default-ignore removes exactly the built-in list"),
        dict(id="C12.structure.filterer_new_ignore_nothing_not_read", file="crates/cli/src/filterer.rs", impl="impl WatchexecFilterer", count_in_fn="new",
             pattern="ignore_nothing", expect=0, why="--ignore-nothing acts only through the five flags set in FilteringArgs::normalise"),
    ],
    extract=[
        dict(id="ProjectType", kind="type", src="crates/project-origins/src/lib.rs", name="ProjectType", structural=True),
        dict(id="IgnoreFile", kind="type", src="crates/ignore-files/src/lib.rs", name="IgnoreFile", drop_derive=["Clone"], structural=True),
        dict(id="explicit_ignore_files", kind="fn", src=D, name="explicit_ignore_files"),
        dict(id="filterer_ignore_files", kind="block", src="crates/cli/src/filterer.rs", within="new", stmts_from="let ignore_files = if args.filtering.no_discover_ignore",
             stmts_to="let mut ignores = Vec::new();", free=["args", "project_origin"],
             rules=dict(question=True, question_from="vx_id", pre_subst=[("crate::dirs::", "")])),
        dict(id="normalise_flags", kind="block", src="crates/cli/src/args/filtering.rs", within="normalise", stmts_from="if self.ignore_nothing",
             stmts_to="if self.filter_fs_meta", free=["self"], rules=dict(pre_subst=[("self.", "vx_self.")])),
        dict(id="ignores_tail", kind="block", src=D, within="ignores", stmts_from="ignores.extend(global_ignores.into_iter().filter(",
             free=["args", "global_ignores", "ignores", "origin", "vcs_types"]),
    ],
)
