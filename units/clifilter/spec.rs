// spec for unit `clifilter` (C12), from the property statement and the help texts of the flags
pub open spec fn explicit_file(p: PathS) -> IgnoreFile { IgnoreFile { path: p, applies_in: None, applies_to: None } }
pub open spec fn explicit_files(args: &Args) -> Seq<IgnoreFile> { args.filtering.ignore_files@.map_values(|p: PathS| explicit_file(p)) }
pub open spec fn vcs_ok(ig: IgnoreFile, vcs: Seq<ProjectType>) -> bool {
    match ig.applies_to { Some(pt) => if doc_is_vcs(pt) { vcs.contains(pt) } else { true }, None => true }
}
// ProjectType::is_vcs, whatever its table is (the table is C20's business: unit origins); here it only selects which global files a VCS in use keeps
pub uninterp spec fn doc_is_vcs(t: ProjectType) -> bool;
// "Those flags remove exactly the discovered or built-in ignore sources they name and no others":
//   --no-project-ignore: discovered files that apply inside the project origin; --no-global-ignore: discovered files without a directory
//   (global/user files); --no-vcs-ignore: discovered files that belong to a VCS
pub open spec fn kept(ig: IgnoreFile, f: FilteringArgs, origin: PathS) -> bool {
    !(f.no_project_ignore && ig.applies_in is Some && under(ig.applies_in->Some_0, origin))
    && !(f.no_global_ignore && ig.applies_in is None)
    && !(f.no_vcs_ignore && ig.applies_to is Some)
}

// every path given with --ignore-file has its entry among the explicit files
pub proof fn lemma_each_given_file_is_explicit(args: &Args, i: int)
    requires 0 <= i < args.filtering.ignore_files@.len()
    ensures explicit_files(args).contains(explicit_file(args.filtering.ignore_files@[i])) // OBL:C12.explicit_files.cover_every_given_path
{
    assert(explicit_files(args)[i] == explicit_file(args.filtering.ignore_files@[i]));
}
